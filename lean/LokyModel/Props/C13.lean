import LokyModel.Lemmas.TrackerTreeThreads
/-!
# C13 — no named semaphore or tracked resource outlives its process tree  *(partial)*

Property theorems over the model `LokyModel.TrackerTree` (M4): the SemLock name life cycle
(`sem_open` → REGISTER → finalizer: `sem_unlink` → UNREGISTER; unpickled copies do neither), the
trackers' registries and end-of-life sweep, over **every history** of creation, pickling to children,
collection, normal / exception / crash exit of any member at any point (between the two halves of the
constructor and of the finalizer included), signals to trackers and tracker relaunches.

Two clauses are false of the code as it is, and are stated with their witnesses:
* a SIGKILL of the *tracker* loses its registry: names registered with it and never unlinked by their
  owners leak (`leak_when_tracker_killed`); the tracker is not protected against SIGKILL by design;
* a crash of the owner between `_SemLock(...)` (sem_open) and `resource_tracker.register(...)`
  (`synchronize.py` l.70-98) leaks the name (`leak_in_create_window`).
`namespace_restored` is therefore proved for histories without these two events (`trkKills = 0`,
`windowCrashes = 0`: ghost counters of the model, both reachable at 0 with crashes of members at every
other point).
-/
namespace LokyModel.TrackerTree

/-- **The finalizer unlinks, then unregisters** — the order in `SemLock._cleanup` (l.101-111).  The
    UNREGISTER of an owner object is only ever sent after its `sem_unlink`: the unlink event is in the
    history, and the name is already out of the kernel name space. -/
theorem owner_unlinks_then_unregisters {h : List Ev} {s s' : State} (hr : Reach h s) {p : Pid} {o : Oid}
    (hs : step s (.finUnregister p o) = some s') :
    Ev.finUnlink p o ∈ h ∧ s.ns (s.objs o).name = false := by
  have hist : ∀ {h s}, Reach h s → ∀ o, (s.objs o).ph = .unlinked → Ev.finUnlink (s.objs o).proc o ∈ h := by
    intro h s hr
    induction hr with
    | init => intro o ho; simp [init] at ho
    | @step h s e s' hr hs ih =>
      intro o ho
      have mono : ∀ x, x ∈ h → x ∈ e :: h := fun x hx => List.mem_cons_of_mem _ hx
      cases e with
      | finUnlink p' o' =>
        simp only [step] at hs
        split at hs
        · rename_i hg; simp at hg
          injection hs with hs; subst hs
          by_cases hoo : o = o'
          · subst hoo; simp [upd, hg.1.2]
          · simp [upd, hoo] at ho ⊢; first | exact ih o ho | exact Or.inr (ih o ho)
        · simp at hs
      | spawn p' c im =>
        simp only [step] at hs; split at hs
        · injection hs with hs; subst hs
          have hf := ensure_frame s p'
          simp only [hf.2.2.2.1] at ho ⊢; exact mono _ (ih o ho)
        · simp at hs
      | exit p' k =>
        simp only [step] at hs; split at hs
        · have hf := leave_frame s p'
          cases k <;> simp at hs
          · obtain ⟨_, rfl⟩ := hs; simp only [hf.2.2.2.1] at ho ⊢; exact mono _ (ih o ho)
          · obtain ⟨_, rfl⟩ := hs; simp only [hf.2.2.2.1] at ho ⊢; exact mono _ (ih o ho)
          · subst hs; simp only [hf.2.2.2.1] at ho ⊢; exact mono _ (ih o ho)
        · simp at hs
      | sigTracker t sg =>
        simp only [step] at hs; split at hs
        · injection hs with hs; subst hs; exact mono _ (ih o ho)
        · simp at hs
      | boot t =>
        simp only [step] at hs; split at hs
        · injection hs with hs; subst hs; exact mono _ (ih o ho)
        · simp at hs
      | op p' op' n =>
        simp only [step] at hs; split at hs
        · injection hs with hs; subst hs
          have hf := send_frame s p' op' n
          simp only [hf.2.2.1] at ho ⊢; exact mono _ (ih o ho)
        · simp at hs
      | mkfile p' =>
        simp only [step] at hs; split at hs
        · injection hs with hs; subst hs; exact mono _ (ih o ho)
        · simp at hs
      | eof t =>
        simp only [step] at hs; split at hs
        · injection hs with hs; subst hs; exact mono _ (ih o ho)
        · simp at hs
      | semOpen p' o' =>
        simp only [step] at hs; split at hs
        · injection hs with hs; subst hs
          by_cases hoo : o = o'
          · subst hoo; simp [upd] at ho
          · simp [upd, hoo] at ho ⊢; first | exact ih o ho | exact mono _ (ih o ho)
        · simp at hs
      | semRegister p' o' =>
        simp only [step] at hs; split at hs
        · injection hs with hs; subst hs
          have hf := send_frame s p' .register (s.objs o').name
          by_cases hoo : o = o'
          · subst hoo; simp [upd] at ho
          · simp [upd, hoo, hf.2.2.1] at ho ⊢; first | exact ih o ho | exact mono _ (ih o ho)
        · simp at hs
      | finUnregister p' o' =>
        simp only [step] at hs; split at hs
        · injection hs with hs; subst hs
          have hf := send_frame s p' .unregister (s.objs o').name
          by_cases hoo : o = o'
          · subst hoo; simp [upd] at ho
          · simp [upd, hoo, hf.2.2.1] at ho ⊢; first | exact ih o ho | exact mono _ (ih o ho)
        · simp at hs
      | copy p' o1 c o' =>
        simp only [step] at hs; split at hs
        · injection hs with hs; subst hs
          by_cases hoo : o = o'
          · subst hoo; simp [upd] at ho
          · simp [upd, hoo] at ho ⊢; first | exact ih o ho | exact mono _ (ih o ho)
        · simp at hs
      | dropCopy c o' =>
        simp only [step] at hs; split at hs
        · injection hs with hs; subst hs
          by_cases hoo : o = o'
          · subst hoo; simp [upd] at ho
          · simp [upd, hoo] at ho ⊢; first | exact ih o ho | exact mono _ (ih o ho)
        · simp at hs
  have h2 := reach_inv2 hr
  simp only [step] at hs
  split at hs
  · rename_i hg
    simp at hg
    have := hist hr o hg.2
    rw [hg.1.2] at this
    exact ⟨this, h2.c o (Or.inl hg.2)⟩
  · simp at hs

/-- the finalizer is exercised (non-vacuity) -/
example : ∃ s, run init [.semOpen 0 0, .semRegister 0 0, .finUnlink 0 0, .finUnregister 0 0] = some s
    ∧ s.ns 0 = false ∧ (s.trks 0).reg 0 = 0 ∧ (s.objs 0).ph = .released := by
  exact ⟨_, rfl, rfl, rfl, rfl⟩

/-- **Unpickled copies never unlink, never register, never unregister**: making a copy in a child and
    collecting it leave the kernel name space and every tracker untouched — and so does the end of a
    process as such (what an exiting *owner* does is the finalizer events above, enabled for owner objects
    only). -/
theorem copies_never_unlink {s s' : State} {e : Ev} (hs : step s e = some s')
    (he : (∃ p o c o', e = .copy p o c o') ∨ (∃ c o', e = .dropCopy c o') ∨ (∃ p k, e = .exit p k)) :
    s'.ns = s.ns ∧ (∀ t, (s'.trks t).reg = (s.trks t).reg) ∧ s'.nTrk = s.nTrk := by
  rcases he with ⟨p, o, c, o', rfl⟩ | ⟨c, o', rfl⟩ | ⟨p, k, rfl⟩
  · simp only [step] at hs; split at hs
    · injection hs with hs; subst hs; exact ⟨rfl, fun _ => rfl, rfl⟩
    · simp at hs
  · simp only [step] at hs; split at hs
    · injection hs with hs; subst hs; exact ⟨rfl, fun _ => rfl, rfl⟩
    · simp at hs
  · simp only [step] at hs; split at hs
    · have hl : (leave s p).ns = s.ns ∧ (∀ t, ((leave s p).trks t).reg = (s.trks t).reg) ∧ (leave s p).nTrk = s.nTrk := by
        unfold leave; split
        · refine ⟨rfl, ?_, rfl⟩; intro t; simp only [closeFd, upd]; split <;> simp [*]
        · exact ⟨rfl, fun _ => rfl, rfl⟩
      cases k <;> simp at hs
      · obtain ⟨_, rfl⟩ := hs; exact hl
      · obtain ⟨_, rfl⟩ := hs; exact hl
      · subst hs; exact hl
    · simp at hs

/-- the finalizer events are not available to a copy: only an owner in phase `registered` can unlink -/
theorem copy_cannot_run_finalizer {s : State} {p : Pid} {o : Oid} (hc : (s.objs o).ph = .copy ∨ (s.objs o).ph = .dropped) :
    step s (.finUnlink p o) = none ∧ step s (.finUnregister p o) = none := by
  rcases hc with hc | hc <;> simp [step, hc]

/-- **Who removes a name.**  A name leaves the kernel name space only through the finalizer of its owner
    object, an explicit `maybe_unlink` of a tracked file reaching zero, or the end-of-life sweep of a
    tracker that still had it registered. -/
theorem name_removed_only_by {h : List Ev} {s s' : State} (hr : Reach h s) {e : Ev} (hs : step s e = some s') (n : Name)
    (h0 : s.ns n = true) (h1 : s'.ns n = false) :
    (∃ p o, e = .finUnlink p o ∧ (s.objs o).name = n ∧ (s.objs o).ph = .registered)
    ∨ (∃ p, e = .op p .maybeUnlink n) ∨ (∃ t, e = .eof t ∧ 0 < (s.trks t).reg n) := by
  have i1 := reach_inv1 hr
  have i2 := reach_inv2 hr
  cases e with
  | finUnlink p o =>
    simp only [step] at hs; split at hs
    · rename_i hg; simp at hg
      injection hs with hs; subst hs
      left; refine ⟨p, o, rfl, ?_, hg.2⟩
      simp only [upd] at h1; split at h1
      · rename_i hh; exact hh.symm
      · rw [h0] at h1; cases h1
    · simp at hs
  | op p o m =>
    simp only [step] at hs; split at hs
    · injection hs with hs; subst hs
      have hns := send_ns s p o m
      right; left
      by_cases hm : n = m
      · subst hm
        by_cases ho : o = .maybeUnlink
        · subst ho; exact ⟨p, rfl⟩
        · rw [hns.2.2 ho, h0] at h1; cases h1
      · rw [hns.1 n hm, h0] at h1; cases h1
    · simp at hs
  | eof t =>
    simp only [step] at hs; split at hs
    · injection hs with hs; subst hs
      right; right; refine ⟨t, rfl, ?_⟩
      simp only [sweep] at h1
      split at h1
      · assumption
      · rw [h0] at h1; cases h1
    · simp at hs
  | spawn p c im =>
    simp only [step] at hs; split at hs
    · injection hs with hs; subst hs
      have hf := ensure_frame s p
      simp only [hf.1] at h1; rw [h0] at h1; cases h1
    · simp at hs
  | exit p k =>
    have := (copies_never_unlink hs (Or.inr (Or.inr ⟨p, k, rfl⟩))).1
    rw [this, h0] at h1; cases h1
  | sigTracker t sg =>
    simp only [step] at hs; split at hs
    · injection hs with hs; subst hs; rw [h0] at h1; cases h1
    · simp at hs
  | boot t =>
    simp only [step] at hs; split at hs
    · injection hs with hs; subst hs; rw [h0] at h1; cases h1
    · simp at hs
  | mkfile p =>
    simp only [step] at hs; split at hs
    · injection hs with hs; subst hs
      simp only [upd] at h1; split at h1
      · cases h1
      · rw [h0] at h1; cases h1
    · simp at hs
  | semOpen p o =>
    simp only [step] at hs; split at hs
    · injection hs with hs; subst hs
      simp only [upd] at h1; split at h1
      · cases h1
      · rw [h0] at h1; cases h1
    · simp at hs
  | semRegister p o =>
    simp only [step] at hs; split at hs
    · injection hs with hs; subst hs
      have hns := (send_ns s p .register (s.objs o).name).2.2 (by simp)
      simp only [hns] at h1; rw [h0] at h1; cases h1
    · simp at hs
  | finUnregister p o =>
    simp only [step] at hs; split at hs
    · injection hs with hs; subst hs
      have hns := (send_ns s p .unregister (s.objs o).name).2.2 (by simp)
      simp only [hns] at h1; rw [h0] at h1; cases h1
    · simp at hs
  | copy p o c o' =>
    have := (copies_never_unlink hs (Or.inl ⟨p, o, c, o', rfl⟩)).1
    rw [this, h0] at h1; cases h1
  | dropCopy c o' =>
    have := (copies_never_unlink hs (Or.inr (Or.inl ⟨c, o', rfl⟩))).1
    rw [this, h0] at h1; cases h1

/-- **The name space is restored.**  For every history — creation, pickling to children, collection,
    normal / exception exits, crashes (SIGKILL) of any member at any point other than the creation
    window, INT/TERM to the trackers — in which no tracker was SIGKILLed: once every process of the tree
    is gone and the trackers have done what they do on their own (booted, seen EOF, swept), **no
    semaphore name created by loky is left in the kernel name space**. -/
theorem namespace_restored {h : List Ev} {s : State} (hr : Reach h s)
    (hk : s.trkKills = 0) (hw : s.windowCrashes = 0) (hg : allGone s) (hq : quiescent s) :
    ∀ n, s.isSem n = true → s.ns n = false := by
  have i1 := reach_inv1 hr
  have i2 := reach_inv2 hr
  -- at quiescence with nobody alive every tracker is unborn or done: its registry is empty
  have hreg : ∀ t n, (s.trks t).reg n = 0 := by
    intro t n
    have hwr : (s.trks t).writers = [] := by
      cases hwl : (s.trks t).writers with
      | nil => rfl
      | cons q qs =>
        have := (i1.w1 t q (by rw [hwl]; simp)).1
        exact absurd this (hg q)
    have hb := (hq t).1
    have he := (hq t).2
    cases hph : (s.trks t).ph with
    | unborn =>
      by_cases hlt : t < s.nTrk
      · exact absurd hph (i1.t1' t hlt)
      · exact (i1.t1 t (Nat.le_of_not_lt hlt)).2.2 n
    | starting0 => simp [Tracker.boot, hph] at hb
    | starting1 => simp [Tracker.boot, hph] at hb
    | running => simp [step, hph, hwr] at he
    | killed => have := i1.t4 t hph; omega
    | done => exact (i1.t3 t hph).2 n
  intro n hsem
  cases hns : s.ns n with
  | false => rfl
  | true =>
    obtain ⟨o, _, ho⟩ := i2.a n hns hsem
    rcases ho with ho | ⟨_, t, ht⟩
    · rcases i2.o5 o ho with hl | hwc
      · exact absurd hl (hg _)
      · omega
    · rw [hreg t n] at ht; cases ht

/-- non-vacuity: a history with a worker holding a copy, a SIGKILL of the parent with live semaphores, the
    orphan ending with an exception — it satisfies every hypothesis of `namespace_restored`, and the name
    space was non-empty before the end -/
example : ∃ s1 s, run init [.semOpen 0 0, .semRegister 0 0, .semOpen 0 1, .semRegister 0 1, .spawn 0 1 false,
      .copy 0 0 1 2, .finUnlink 0 1, .exit 0 .crash] = some s1 ∧ s1.ns 0 = true ∧ s1.ns 1 = false
    ∧ run s1 [.dropCopy 1 2, .exit 1 .exc, .boot 0, .boot 0, .eof 0] = some s
    ∧ s.trkKills = 0 ∧ s.windowCrashes = 0 ∧ s.ns 0 = false ∧ (s.trks 0).leakedSem = 2
    ∧ (s.trks 0).ph = .done ∧ (s.procs 0).st = .dead ∧ (s.procs 1).st = .dead := by
  exact ⟨_, _, rfl, rfl, rfl, rfl, rfl, rfl, rfl, rfl, rfl, rfl, rfl⟩

/-- **Witness 1 (why `trkKills = 0`)**: the owner registers a lock, the tracker is SIGKILLed, the owner is
    SIGKILLed: everything is gone, nothing is left to run, and the name is still there. -/
theorem leak_when_tracker_killed :
    ∃ s, run init [.semOpen 0 0, .semRegister 0 0, .sigTracker 0 .kill, .exit 0 .crash] = some s
      ∧ s.isSem 0 = true ∧ s.ns 0 = true ∧ (s.procs 0).st = .dead ∧ (s.trks 0).ph = .killed
      ∧ s.nTrk = 1 ∧ s.windowCrashes = 0 ∧ s.trkKills = 1 := by
  exact ⟨_, rfl, rfl, rfl, rfl, rfl, rfl, rfl, rfl⟩

/-- **Witness 2 (why `windowCrashes = 0`)**: SIGKILL between `sem_open` and REGISTER; the tracker (started
    by an earlier operation) sweeps nothing and the name stays. -/
theorem leak_in_create_window :
    ∃ s, run init [.mkfile 0, .op 0 .register 0, .semOpen 0 0, .exit 0 .crash, .boot 0, .boot 0, .eof 0] = some s
      ∧ s.isSem 1 = true ∧ s.ns 1 = true ∧ (s.procs 0).st = .dead ∧ (s.trks 0).ph = .done
      ∧ s.nTrk = 1 ∧ s.windowCrashes = 1 ∧ s.trkKills = 0 := by
  exact ⟨_, rfl, rfl, rfl, rfl, rfl, rfl, rfl, rfl⟩

/-- even with tracker deaths, a tree whose members all end by normal or exception exits (finalizers run)
    restores the name space: every unlink is done by the owner itself. -/
theorem namespace_restored_without_crashes {h : List Ev} {s : State} (hr : Reach h s)
    (hw : s.windowCrashes = 0) (hg : allGone s)
    (hfin : ∀ o, (s.objs o).ph ≠ .registered) :
    ∀ n, s.isSem n = true → s.ns n = false := by
  have i2 := reach_inv2 hr
  intro n hsem
  cases hns : s.ns n with
  | false => rfl
  | true =>
    obtain ⟨o, _, ho⟩ := i2.a n hns hsem
    rcases ho with ho | ⟨ho, _⟩
    · rcases i2.o5 o ho with hl | hwc
      · exact absurd hl (hg _)
      · omega
    · exact absurd ho (hfin o)

/-- **No "leaked" report for what was released.**  While no tracker was killed, the number of leaked
    semlocks a tracker reports at its end-of-life sweep is 0 whenever every owner object has completed its
    finalizer (no owner is still `registered` or half-way `unlinked`). -/
theorem no_leak_report_if_released {h : List Ev} {s s' : State} (hr : Reach h s) (hk : s.trkKills = 0)
    {t : Tid} (hs : step s (.eof t) = some s')
    (hrel : ∀ o, (s.objs o).ph ≠ .registered ∧ (s.objs o).ph ≠ .unlinked) :
    (s'.trks t).leakedSem = 0 := by
  have i2 := reach_inv2 hr
  simp only [step] at hs
  split at hs
  · injection hs with hs; subst hs
    simp only [sweep, upd, if_true, leakCount]
    rw [List.length_eq_zero_iff, List.filter_eq_nil_iff]
    intro n _
    simp only [Bool.and_eq_true, decide_eq_true_eq, beq_iff_eq, not_and]
    intro hpos hsem
    obtain ⟨o, _, ho⟩ := i2.d hk t n hpos hsem
    rcases ho with ho | ho
    · exact absurd ho (hrel o).1
    · exact absurd ho (hrel o).2
  · simp at hs

/-- … and the report is exact otherwise: a parent killed with two live locks makes its tracker report two -/
example : ∃ s, run init [.semOpen 0 0, .semRegister 0 0, .semOpen 0 1, .semRegister 0 1, .exit 0 .crash,
      .boot 0, .boot 0, .eof 0] = some s ∧ (s.trks 0).leakedSem = 2 ∧ s.ns 0 = false ∧ s.ns 1 = false := by
  exact ⟨_, rfl, rfl, rfl, rfl⟩

/-- the sweep removes whatever is still registered, files included -/
theorem sweep_removes_registered {s s' : State} {t : Tid} (hs : step s (.eof t) = some s') (n : Name)
    (hreg : 0 < (s.trks t).reg n) : s'.ns n = false := by
  simp only [step] at hs
  split at hs
  · injection hs with hs; subst hs; simp [sweep, hreg]
  · simp at hs

/-! ### crash points inside finalizers, concurrent threads -/

/-- **Every name is covered, at every instant.**  In every reachable state without a tracker SIGKILL and
    without a crash in the creation window, a semaphore name that is in the kernel name space is either
    still registered with a *live* tracker (which will unlink it at its end-of-life sweep) or belongs to
    a live process that is inside the SemLock constructor.  This is the invariant behind "a SIGKILL at any
    point of a finalizer leaks nothing": `_cleanup` unlinks *before* it unregisters, so there is no instant
    at which a name exists that no tracker answers for. -/
theorem every_name_is_covered {h : List Ev} {s : State} (hr : Reach h s) (hk : s.trkKills = 0)
    (hw : s.windowCrashes = 0) (n : Name) (hns : s.ns n = true) (hsem : s.isSem n = true) :
    (∃ t, 0 < (s.trks t).reg n ∧ (s.trks t).alive = true)
    ∨ (∃ o, (s.objs o).name = n ∧ (s.objs o).ph = .opened ∧ (s.procs (s.objs o).proc).st = .live) := by
  have i1 := reach_inv1 hr
  have i2 := reach_inv2 hr
  obtain ⟨o, hon, ho⟩ := i2.a n hns hsem
  rcases ho with ho | ⟨_, t, ht⟩
  · right
    rcases i2.o5 o ho with hl | hwc
    · exact ⟨o, hon, ho, hl⟩
    · omega
  · left
    refine ⟨t, ht, ?_⟩
    rw [alive_iff]
    cases hph : (s.trks t).ph with
    | unborn =>
      by_cases hlt : t < s.nTrk
      · exact absurd hph (i1.t1' t hlt)
      · have := (i1.t1 t (Nat.le_of_not_lt hlt)).2.2 n; omega
    | killed => have := i1.t4 t hph; omega
    | done => have := (i1.t3 t hph).2 n; omega
    | starting0 => simp
    | starting1 => simp
    | running => simp

/-- **SIGKILL inside a finalizer, at any position.**  Let member `p` be SIGKILLed while it runs the
    finalizers of the objects `os`, after any number `k` of their clean-up primitives (`sem_unlink`,
    UNREGISTER) — collection of one primitive, or the exit-time finalizers — from any reachable state, and
    let anything happen afterwards.  Once every process of the tree is gone and the trackers have done what
    they do on their own, no semaphore name is left (hypotheses as in `namespace_restored`). -/
theorem killfin_any_position {h : List Ev} {s s1 s' : State} (hr : Reach h s) {p : Pid} {os : List Oid} {k : Nat}
    (hkill : run s (killFin p os k) = some s1) {rest : List Ev} (hrest : run s1 rest = some s')
    (hk : s'.trkKills = 0) (hw : s'.windowCrashes = 0) (hg : allGone s') (hq : quiescent s') :
    ∀ n, s'.isSem n = true → s'.ns n = false :=
  namespace_restored (reach_run (reach_run hr hkill) hrest) hk hw hg hq

/-- … and right after the kill, whatever `k`, every name of the tree is still covered. -/
theorem killfin_leaves_every_name_covered {h : List Ev} {s s1 : State} (hr : Reach h s) {p : Pid} {os : List Oid}
    {k : Nat} (hkill : run s (killFin p os k) = some s1) (hk : s1.trkKills = 0) (hw : s1.windowCrashes = 0)
    (n : Name) (hns : s1.ns n = true) (hsem : s1.isSem n = true) :
    (∃ t, 0 < (s1.trks t).reg n ∧ (s1.trks t).alive = true)
    ∨ (∃ o, (s1.objs o).name = n ∧ (s1.objs o).ph = .opened ∧ (s1.procs (s1.objs o).proc).st = .live) :=
  every_name_is_covered (reach_run hr hkill) hk hw n hns hsem

/-- the three positions around the two primitives of one Lock of a child (the root lives on, then is killed
    too): before `sem_unlink` the tracker unlinks and reports the name, between the two it only reports it,
    after UNREGISTER nothing is left to do -/
example : ∃ s0 a0 a1 a2 b0 b1 b2,
    run init [.spawn 0 1 false, .semOpen 1 0, .semRegister 1 0] = some s0
    ∧ run s0 (killFin 1 [0] 0) = some a0 ∧ run s0 (killFin 1 [0] 1) = some a1 ∧ run s0 (killFin 1 [0] 2) = some a2
    ∧ a0.ns 0 = true ∧ (a0.trks 0).reg 0 = 1 ∧ a1.ns 0 = false ∧ (a1.trks 0).reg 0 = 1
    ∧ a2.ns 0 = false ∧ (a2.trks 0).reg 0 = 0
    ∧ run a0 [.exit 0 .crash, .boot 0, .boot 0, .eof 0] = some b0
    ∧ run a1 [.exit 0 .crash, .boot 0, .boot 0, .eof 0] = some b1
    ∧ run a2 [.exit 0 .crash, .boot 0, .boot 0, .eof 0] = some b2
    ∧ b0.ns 0 = false ∧ b1.ns 0 = false ∧ b2.ns 0 = false
    ∧ (b0.trks 0).leakedSem = 1 ∧ (b1.trks 0).leakedSem = 1 ∧ (b2.trks 0).leakedSem = 0 := by
  exact ⟨_, _, _, _, _, _, _, rfl, rfl, rfl, rfl, rfl, rfl, rfl, rfl, rfl, rfl, rfl, rfl, rfl, rfl, rfl, rfl, rfl,
    rfl, rfl⟩

/-- **Threads of a member remove a name only through a finalizer of that member.**  Whatever the threads
    of member `p` do at the same time — creating primitives, tracked operations, finalizers, in any
    interleaving, with a tracker (re)launch in the middle — a name that was in the kernel name space and
    is gone afterwards was removed by a finalizer `p` ran, or by an explicit `maybe_unlink` of that very
    (file) name: concurrent first use never costs a live semaphore its name. -/
theorem member_threads_remove_only_by_finalizer {h : List Ev} {s s' : State} (hr : Reach h s) (p : Pid)
    (acts : List TAct) (hm : ∀ a ∈ acts, memberAct p a.ev = true) (hrun : runT s acts = some s') (n : Name)
    (h0 : s.ns n = true) (h1 : s'.ns n = false) :
    (∃ a ∈ acts, ∃ o, a.ev = .finUnlink p o) ∨ (∃ a ∈ acts, a.ev = .op p .maybeUnlink n) := by
  induction acts generalizing h s with
  | nil => simp [runT, run] at hrun; subst hrun; rw [h0] at h1; cases h1
  | cons a acts ih =>
    simp only [runT, List.map_cons, run] at hrun
    split at hrun
    · rename_i s1 hs1
      cases hn1 : s1.ns n with
      | true =>
        rcases ih (Reach.step hr hs1) (fun b hb => hm b (by simp [hb])) hrun hn1 with ⟨b, hb, o, ho⟩ | ⟨b, hb, ho⟩
        · exact Or.inl ⟨b, by simp [hb], o, ho⟩
        · exact Or.inr ⟨b, by simp [hb], ho⟩
      | false =>
        have hma := hm a (by simp)
        rcases name_removed_only_by hr hs1 n h0 hn1 with ⟨q, o, he, _, _⟩ | ⟨q, he⟩ | ⟨t, he, _⟩
        · rw [he] at hma; simp only [memberAct, beq_iff_eq] at hma; subst hma
          exact Or.inl ⟨a, by simp, o, he⟩
        · rw [he] at hma; simp only [memberAct, beq_iff_eq] at hma; subst hma
          exact Or.inr ⟨a, by simp, he⟩
        · rw [he] at hma; simp [memberAct] at hma
    · simp at hrun

/-- four threads create a Lock each as the first tracked operations of the root, in an interleaving in which
    every `sem_open` precedes the first REGISTER: one tracker, four registered names, all in the name space -/
example : ∃ s, runT init [⟨1, .semOpen 0 0⟩, ⟨2, .semOpen 0 1⟩, ⟨3, .semOpen 0 2⟩, ⟨4, .semOpen 0 3⟩,
      ⟨3, .semRegister 0 2⟩, ⟨1, .semRegister 0 0⟩, ⟨4, .semRegister 0 3⟩, ⟨2, .semRegister 0 1⟩] = some s
    ∧ s.nTrk = 1 ∧ (s.procs 0).warned = 0 ∧ (s.trks 0).reg 0 = 1 ∧ (s.trks 0).reg 3 = 1
    ∧ s.ns 0 = true ∧ s.ns 1 = true ∧ s.ns 2 = true ∧ s.ns 3 = true := by
  exact ⟨_, rfl, rfl, rfl, rfl, rfl, rfl, rfl, rfl, rfl⟩

end LokyModel.TrackerTree
