import LokyModel.Lemmas.Wrapper
/-!
# C16 — `wrap_non_picklable_objects` is behaviour-preserving

Property theorems only (helpers in `Lemmas/Wrapper.lean`).  Everything is stated over the model
`LokyModel.Wrapper`, for **every** object (`Obj`: any callability, any attribute function, any call
behaviour), every stack of wrappers, both `keep_wrapper` values and every number of round trips.
cloudpickle's round trip on a bare object is the parameter `rt`; where behaviour is compared the
hypothesis is `Faithful rt` ("for any object cloudpickle can serialise").

Two clauses of the statement are false of the code as it is (see the witness theorems):

* `getattr_reserved_witness` — an attribute the wrapper finds by normal look-up (`_obj`,
  `_keep_wrapper`, `__doc__`, `__module__`, …) is *not* forwarded, so an object's own attribute of
  that name is shadowed.  `getattr_forwards` is the strongest true statement (all other names).
* `class_wrapper_not_callable_witness` — an instance made by the wrapper of a class defining
  `__call__` is not callable until it has been through one pickle round trip.
  `class_wrapper_behaviour_partial` is the strongest true statement.
-/
namespace LokyModel.Wrapper

/-! ## `__reduce__` / `_reconstruct_wrapper` -/

/-- A pickle round trip of a wrapper is: call `__reduce__`, ship the bytes, apply the reduce value
with cloudpickle's `loads` — i.e. the recursive `trip` really is the code's reduce/rebuild pair. -/
theorem trip_wrap (rt : Obj → Obj) (k : WKind) (keep : Bool) (v : Val) :
    trip rt (.wrap k keep v) = rebuild (trip rt) (reduce keep v) := by
  cases keep <;> rfl

/-- `unpickle_wrap`: the result of a round trip is the round-tripped object itself if
`¬ keep_wrapper`, else a fresh `_wrap_non_picklable_objects` wrapper of it **with the same flag**. -/
theorem unpickle_wrap (rt : Obj → Obj) (k : WKind) (keep : Bool) (v : Val) :
    trip rt (.wrap k keep v) = if keep then wrapNP (trip rt v) keep else trip rt v := rfl

/-- the same for a wrapped bare object: `rt x` or a wrapper of `rt x`, wrapper class chosen by
`callable(rt x)`, flag unchanged -/
theorem unpickle_wrap_obj (rt : Obj → Obj) (o : Obj) (keep : Bool) :
    trip rt (wrapObj (.raw o) keep) =
      if keep then .wrap (if (rt o).callable then .callable else .object) keep (.raw (rt o))
      else .raw (rt o) := by
  cases keep <;> rfl

/-! ## forwarding -/

/-- `callable_iff`: the wrapper made by `wrap_non_picklable_objects(obj)` is callable iff `obj` is -/
theorem callable_iff (v : Val) (keep : Bool) : isCallable (wrapObj v keep) = isCallable v := by
  unfold wrapObj wrapNP
  cases h : isCallable v <;> simp [isCallable]

/-- calls are forwarded unchanged (same result, or the same `TypeError` when not callable) -/
theorem call_forwards (v : Val) (keep : Bool) (x : Nat) : callV (wrapObj v keep) x = callV v x := by
  unfold wrapObj wrapNP
  cases h : isCallable v
  · simp [callV, callV_of_not_callable v h]
  · simp [callV]

/-- `getattr_forwards`: every name that normal look-up does not find on the wrapper is forwarded,
through any wrapper class and flag. -/
theorem getattr_forwards (k : WKind) (keep : Bool) (v : Val) (a : Name) (h : reserved a = false) :
    getattr (.wrap k keep v) a = getattr v a := by
  cases a <;> simp_all [reserved, getattr, ownLookup, refused]

example : reserved (.user 3) = false := rfl

/- Full statement (false): `∀ k keep v a, getattr (.wrap k keep v) a = getattr v a`. -/

/-- witness: an object with its own attribute `_obj = 5`; through the wrapper `w._obj` is the wrapped
object, not 5.  (Same for `_keep_wrapper` and for class-level names such as `__doc__`.) -/
theorem getattr_reserved_witness :
    let o : Obj := ⟨false, fun a => if a = .obj ∨ a = .cls 0 then some 5 else none, id, 0⟩
    getattr (.raw o) .obj = some (.value 5) ∧
    (∃ w, getattr (wrapObj (.raw o) true) .obj = some (.inner w)) ∧
    getattr (.raw o) (.cls 0) = some (.value 5) ∧
    getattr (wrapObj (.raw o) true) (.cls 0) = some (.classAttr 0) := by
  refine ⟨by simp [getattr], ⟨_, rfl⟩, by simp [getattr], rfl⟩

/-- the refusal branch of `__getattr__` (`getattr(self, attr)` for `_obj` / `_keep_wrapper`, an
unbounded recursion) is dead code on a constructed wrapper: both names are always found first -/
theorem getattr_refusal_unreachable (keep : Bool) (v : Val) (a : Name) (h : refused a = true) :
    (ownLookup keep v a).isSome = true := by
  cases a <;> simp_all [refused, ownLookup]

/-! ## repeated round trips -/

/-- `roundtrip_n`: with `keep_wrapper` the object stays wrapped for ever (same flag, wrapping the
`n+1`-fold round-tripped object); without, it is unwrapped by the first round trip and stays so. -/
theorem roundtrip_n (rt : Obj → Obj) (v : Val) (keep : Bool) (n : Nat) :
    trips rt (n + 1) (wrapObj v keep) =
      if keep then wrapObj (trips rt (n + 1) v) keep else trips rt (n + 1) v := by
  cases keep
  · rfl
  · simp only [wrapObj, if_true]
    exact trips_wrapNP_true rt (n + 1) v

/-- for a whole stack of wrappers: after any positive number of round trips exactly the layers with
`keep_wrapper=True` remain -/
theorem depth_trips (rt : Obj → Obj) (v : Val) (n : Nat) :
    depth (trips rt (n + 1) v) = keptLayers v := by
  induction n generalizing v with
  | zero => exact depth_trip rt v
  | succ n ih => rw [trips, ih, keptLayers_trip]

/-- … and every remaining layer still has its flag set -/
theorem allKeep_trips (rt : Obj → Obj) (v : Val) (n : Nat) : allKeep (trips rt (n + 1) v) = true := by
  induction n generalizing v with
  | zero => exact allKeep_trip rt v
  | succ n ih => rw [trips]; exact ih _

/-- the object at the bottom has been through exactly `n` cloudpickle round trips -/
theorem core_trips (rt : Obj → Obj) (v : Val) (n : Nat) : core (trips rt n v) = iter rt n (core v) := by
  induction n generalizing v with
  | zero => rfl
  | succ n ih => rw [trips, ih, core_trip]; rfl

/-! ## behaviour is preserved -/

/-- Main statement for `wrap_non_picklable_objects(obj)`: after any number of round trips (0 included)
what arrives — wrapper or not — is callable iff `obj` is, gives the same results (or the same
`TypeError`) when called, and reads every non-reserved attribute like `obj`. -/
theorem behaviour_preserved (rt : Obj → Obj) (hf : Faithful rt) (v : Val) (hv : Regular v) (n : Nat) :
    SameBeh (trips rt n v) (.raw (core v)) := by
  cases n with
  | zero => exact sameBeh_core v hv
  | succ n =>
    have h1 := sameBeh_core _ (regular_trips_succ rt n v)
    rw [core_trips] at h1
    exact h1.trans (sameBeh_raw_iter rt hf (n + 1) (core v))

/-- non-vacuity: a wrapped bare object (callable or not, any flag) and a wrapper of a wrapper are `Regular` -/
example (o : Obj) (keep : Bool) : Regular (wrapObj (.raw o) keep) := regular_wrapNP _ _ trivial
example (o : Obj) (k1 k2 : Bool) : Regular (wrapObj (wrapObj (.raw o) k1) k2) :=
  regular_wrapNP _ _ (regular_wrapNP _ _ trivial)
example : Faithful (fun o => { o with gen := o.gen + 1 }) := fun _ => ⟨rfl, rfl, rfl⟩

/-! ## class wrappers -/

/-- `class_wrapper_instances`: an instance built by the wrapped class obeys the same unpickling rule
(and, from the first round trip on, *is* an ordinary wrapper / the bare instance) -/
theorem class_wrapper_instances {α : Type} (rt : Obj → Obj) (ctor : α → Val) (keep : Bool) (args : α) (n : Nat) :
    trips rt (n + 1) (wrapClass ctor keep args) =
      if keep then wrapObj (trips rt (n + 1) (ctor args)) keep else trips rt (n + 1) (ctor args) := by
  cases keep
  · rfl
  · simp only [wrapObj, wrapClass, if_true]
    rw [trips, unpickle_wrap]
    exact trips_wrapNP_true rt n _

/- Full statement (false): `∀ ctor keep args n, Regular (ctor args) →
     SameBeh (trips rt n (wrapClass ctor keep args)) (.raw (core (ctor args)))`. -/

/-- witness: the class defines `__call__`, the instance made through the class wrapper is not callable
and calling it raises `TypeError`, for both flags — until the first round trip. -/
theorem class_wrapper_not_callable_witness :
    let o : Obj := ⟨true, fun _ => none, fun x => x + 1, 0⟩
    let ctor : Unit → Val := fun _ => .raw o
    ∀ keep, isCallable (ctor ()) = true ∧ isCallable (wrapClass ctor keep ()) = false ∧
      callV (ctor ()) 1 = some 2 ∧ callV (wrapClass ctor keep ()) 1 = none := by
  intro o ctor keep
  exact ⟨rfl, rfl, rfl, rfl⟩

/-- strongest true statement: instances of a wrapped class behave like instances of the class
(i) always, when the class is not callable; (ii) after at least one round trip, for every class;
(iii) attribute reads of non-reserved names, always. -/
theorem class_wrapper_behaviour_partial {α : Type} (rt : Obj → Obj) (hf : Faithful rt)
    (ctor : α → Val) (keep : Bool) (args : α) (hreg : Regular (ctor args)) :
    (isCallable (ctor args) = false →
        ∀ n, SameBeh (trips rt n (wrapClass ctor keep args)) (.raw (core (ctor args)))) ∧
    (∀ n, SameBeh (trips rt (n + 1) (wrapClass ctor keep args)) (.raw (core (ctor args)))) ∧
    (∀ a, reserved a = false →
        getattr (wrapClass ctor keep args) a = getattr (.raw (core (ctor args))) a) := by
  refine ⟨fun hc n => ?_, fun n => ?_, fun a ha => ?_⟩
  · have : Regular (wrapClass ctor keep args) := by
      refine ⟨?_, hreg⟩
      simp [kindOk, hc]
    exact behaviour_preserved rt hf _ this n
  · have h1 := sameBeh_core _ (regular_trips_succ rt n (wrapClass ctor keep args))
    rw [core_trips] at h1
    exact h1.trans (sameBeh_raw_iter rt hf (n + 1) _)
  · rw [wrapClass, getattr_forwards _ _ _ _ ha]
    exact (sameBeh_core _ hreg).2.2 a ha

example : Regular ((fun (_ : Unit) => Val.raw ⟨false, fun _ => none, id, 0⟩) ()) := trivial

end LokyModel.Wrapper
