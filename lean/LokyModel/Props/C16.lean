import LokyModel.Lemmas.Wrapper
/-!
# C16 — `wrap_non_picklable_objects` is behaviour-preserving

Property theorems only (vocabulary and helpers in `Lemmas/Wrapper.lean`).  Everything is stated over
the model `LokyModel.Wrapper`, for **every** object (`Obj`: any callability, any attribute function,
any call behaviour), every stack of wrappers, both `keep_wrapper` values and every number of round
trips.  cloudpickle's round trip on a bare object is the parameter `rt`; where behaviour is compared
the hypothesis is `Faithful rt` ("for any object cloudpickle can serialise").

Scope of "attribute reads": names every Python object answers itself (`typeLevel`: `__class__`,
`__dict__`, `__doc__`, `__module__`, … — looked up on the type, no proxy can forward them) are
outside the property.  One clause is false of the code as it is (finding D12): the two names
`_obj` and `_keep_wrapper` live in the wrapper's own `__dict__`, so an attribute of the wrapped
object with one of these names is shadowed — `getattr_reserved_witness`; `getattr_forwards_partial`
is the strongest true statement.
-/
namespace LokyModel.Wrapper

/-! ## `__reduce__` / `_reconstruct_wrapper` -/

/-- A pickle round trip of a wrapper is: call `__reduce__`, ship the bytes, apply the reduce value
with cloudpickle's `loads` — i.e. the recursive `trip` really is the code's reduce/rebuild pair. -/
theorem trip_wrap (rt : Obj → Obj) (k : WKind) (keep : Bool) (v : Val) :
    trip rt (.wrap k keep v) = rebuild (trip rt) (reduce keep v) := by
  cases keep <;> rfl

/-- `unpickle_wrap`: the result of a round trip is the round-tripped object itself if
`¬ keep_wrapper`, else a fresh `_wrap_non_picklable_objects` wrapper of it **with the same flag**. -/
theorem unpickle_wrap (rt : Obj → Obj) (k : WKind) (keep : Bool) (v : Val) :
    trip rt (.wrap k keep v) = if keep then wrapNP (trip rt v) keep else trip rt v := rfl

/-- the same for a wrapped bare object: `rt x`, or a wrapper of `rt x` whose class is chosen by
`callable(rt x)`, flag unchanged -/
theorem unpickle_wrap_obj (rt : Obj → Obj) (o : Obj) (keep : Bool) :
    trip rt (wrapObj (.raw o) keep) =
      if keep then .wrap (if (rt o).callable then .callable else .object) keep (.raw (rt o))
      else .raw (rt o) := by
  cases keep <;> rfl

/-! ## forwarding -/

/-- `callable_iff`: the wrapper made by `wrap_non_picklable_objects(obj)` is callable iff `obj` is -/
theorem callable_iff (v : Val) (keep : Bool) : isCallable (wrapObj v keep) = isCallable v :=
  isCallable_wrapNP v keep

/-- `callable_iff` for instances made through a wrapped class: callable iff the class defines `__call__` -/
theorem callable_iff_class {α : Type} (ctor : α → Val) (definesCall keep : Bool) (args : α) :
    isCallable (wrapClass ctor definesCall keep args) = definesCall := rfl

/-- calls are forwarded unchanged (same result, or the same `TypeError` when not callable) -/
theorem call_forwards (v : Val) (keep : Bool) (x : Nat) : callV (wrapObj v keep) x = callV v x := by
  unfold wrapObj wrapNP
  cases h : isCallable v
  · simp [callV, WKind.hasCall, callV_of_not_callable v h]
  · simp [callV, WKind.hasCall]

/- Full statement of `getattr_forwards` (false, D12):
   `∀ k keep v a, typeLevel a = false → getattr (.wrap k keep v) a = getattr v a`. -/

/-- `getattr_forwards_partial`: every name that is neither type-level nor one of `_obj`,
`_keep_wrapper` is forwarded, through any wrapper class and flag. -/
theorem getattr_forwards_partial (k : WKind) (keep : Bool) (v : Val) (a : Name)
    (h1 : typeLevel a = false) (h2 : refused a = false) :
    getattr (.wrap k keep v) a = getattr v a := by
  cases a <;> simp_all [typeLevel, getattr, ownLookup, refused]

example : typeLevel (.user 3) = false ∧ refused (.user 3) = false := ⟨rfl, rfl⟩

/-- witness (D12): the object has its own attributes `_obj = 5` and `_keep_wrapper = 6`; read through
the wrapper they are the wrapped object and the flag. -/
theorem getattr_reserved_witness :
    let o : Obj := ⟨false, fun a => if a = .obj then some 5 else if a = .keepWrapper then some 6 else none, id, 0⟩
    typeLevel .obj = false ∧ typeLevel .keepWrapper = false ∧
    getattr (.raw o) .obj = some (.value 5) ∧
    getattr (wrapObj (.raw o) true) .obj = some (.inner (.raw o)) ∧
    getattr (.raw o) .keepWrapper = some (.value 6) ∧
    getattr (wrapObj (.raw o) true) .keepWrapper = some (.flag true) := by
  refine ⟨rfl, rfl, by simp [getattr], rfl, by simp [getattr], rfl⟩

/-- the refusal branch of `__getattr__` (`getattr(self, attr)` for `_obj` / `_keep_wrapper`, an
unbounded recursion) is dead code on a constructed wrapper: both names are always found first -/
theorem getattr_refusal_unreachable (keep : Bool) (v : Val) (a : Name) (h : refused a = true) :
    (ownLookup keep v a).isSome = true := by
  cases a <;> simp_all [refused, ownLookup]

/-! ## repeated round trips -/

/-- `roundtrip_n`: with `keep_wrapper` the object stays wrapped for ever (same flag, wrapping the
`n+1`-fold round-tripped object); without, it is unwrapped by the first round trip and stays so. -/
theorem roundtrip_n (rt : Obj → Obj) (v : Val) (keep : Bool) (n : Nat) :
    trips rt (n + 1) (wrapObj v keep) =
      if keep then wrapObj (trips rt (n + 1) v) keep else trips rt (n + 1) v := by
  cases keep
  · rfl
  · simp only [wrapObj, if_true]
    exact trips_wrapNP_true rt (n + 1) v

/-- for a whole stack of wrappers: after any positive number of round trips exactly the layers with
`keep_wrapper=True` remain -/
theorem depth_trips (rt : Obj → Obj) (v : Val) (n : Nat) :
    depth (trips rt (n + 1) v) = keptLayers v := by
  induction n generalizing v with
  | zero => exact depth_trip rt v
  | succ n ih => rw [trips, ih, keptLayers_trip]

/-- … and every remaining layer still has its flag set -/
theorem allKeep_trips (rt : Obj → Obj) (v : Val) (n : Nat) : allKeep (trips rt (n + 1) v) = true := by
  induction n generalizing v with
  | zero => exact allKeep_trip rt v
  | succ n ih => rw [trips]; exact ih _

/-- the object at the bottom has been through exactly `n` cloudpickle round trips -/
theorem core_trips (rt : Obj → Obj) (v : Val) (n : Nat) : core (trips rt n v) = iter rt n (core v) := by
  induction n generalizing v with
  | zero => rfl
  | succ n ih => rw [trips, ih, core_trip]; rfl

/-! ## behaviour is preserved -/

/-- Main statement: after any number of round trips (0 included) what arrives — wrapper or not — is
callable iff the object is, gives the same results (or the same `TypeError`) when called, and reads
every attribute that is neither type-level nor `_obj`/`_keep_wrapper` like the object.  `Regular`
holds of everything `wrap_non_picklable_objects` returns for a non-class, of wrappers of wrappers,
and of class-wrapper instances (`class_wrapper_instances`). -/
theorem behaviour_preserved (rt : Obj → Obj) (hf : Faithful rt) (v : Val) (hv : Regular v) (n : Nat) :
    SameBeh (trips rt n v) (.raw (core v)) := by
  cases n with
  | zero => exact sameBeh_core v hv
  | succ n =>
    have h1 := sameBeh_core _ (regular_trips_succ rt n v)
    rw [core_trips] at h1
    exact h1.trans (sameBeh_raw_iter rt hf (n + 1) (core v))

/-- non-vacuity: a wrapped bare object (callable or not, any flag) and a wrapper of a wrapper are
`Regular`; a behaviour-preserving `rt` exists -/
example (o : Obj) (keep : Bool) : Regular (wrapObj (.raw o) keep) := regular_wrapNP _ _ trivial
example (o : Obj) (k1 k2 : Bool) : Regular (wrapObj (wrapObj (.raw o) k1) k2) :=
  regular_wrapNP _ _ (regular_wrapNP _ _ trivial)
example : Faithful (fun o => { o with gen := o.gen + 1 }) := fun _ => ⟨rfl, rfl, rfl⟩

/-! ## class wrappers -/

/-- `class_wrapper_instances`, the unpickling rule: an instance built by the wrapped class obeys the
same rule as any wrapper (and from the first round trip on it *is* an ordinary
`_wrap_non_picklable_objects` wrapper, or the bare instance). -/
theorem class_wrapper_roundtrip {α : Type} (rt : Obj → Obj) (ctor : α → Val) (dc keep : Bool) (args : α) (n : Nat) :
    trips rt (n + 1) (wrapClass ctor dc keep args) =
      if keep then wrapObj (trips rt (n + 1) (ctor args)) keep else trips rt (n + 1) (ctor args) := by
  cases keep
  · rfl
  · simp only [wrapObj, wrapClass, if_true]
    rw [trips, unpickle_wrap]
    exact trips_wrapNP_true rt n _

/-- `class_wrapper_instances`, behaviour: instances made through the wrapped class behave like
instances of the class (callable iff, same call results, same attribute reads), before and after
any number of round trips.  Hypothesis `hdc` is the Python fact that instances of a class are
callable iff some class of its MRO defines `__call__` — which is the test the code applies. -/
theorem class_wrapper_instances {α : Type} (rt : Obj → Obj) (hf : Faithful rt)
    (ctor : α → Val) (dc keep : Bool) (args : α) (hreg : Regular (ctor args))
    (hdc : dc = isCallable (ctor args)) (n : Nat) :
    SameBeh (trips rt n (wrapClass ctor dc keep args)) (.raw (core (ctor args))) := by
  have : Regular (wrapClass ctor dc keep args) := ⟨by simp [kindOk, WKind.hasCall, hdc], hreg⟩
  exact behaviour_preserved rt hf _ this n

/-- non-vacuity, both a callable and a non-callable class -/
example (c : Bool) : Regular ((fun (_ : Unit) => Val.raw ⟨c, fun _ => none, id, 0⟩) ()) ∧
    c = isCallable ((fun (_ : Unit) => Val.raw ⟨c, fun _ => none, id, 0⟩) ()) := ⟨trivial, rfl⟩

/-! ## histories on one wrapper object: every pickling ships the state the object has *then*

A history is any list of events on one live wrapper `w` (any stack, any flags): the wrapped object
changes state (`mutate`, through the wrapper or directly — the wrapper holds a reference), the live
wrapper is pickled (`pickle none`), a received copy is pickled again (`pickle (some j)`), a received
copy changes state (`mutateCopy`).  `pickleNow` is the code's `__reduce__` run at the moment of the
event followed by the rebuild on the receiving side. -/

/-- `pickle.dumps` of a wrapper at any moment is `__reduce__` applied to the fields as they are at that
moment, and the result is the round trip of the wrapper *as it is now* (nothing else is consulted). -/
theorem reduce_reads_current (rt : Obj → Obj) (k : WKind) (keep : Bool) (v : Val) (f : Obj → Obj) :
    pickleNow rt (mapCore f (.wrap k keep v)) = rebuild (trip rt) (reduce keep (mapCore f v)) ∧
    pickleNow rt (mapCore f (.wrap k keep v)) = trip rt (.wrap k keep (mapCore f v)) :=
  ⟨rfl, pickleNow_eq_trip rt _⟩

/-- picklings and whatever happens to received copies never change the live wrapper; after any
history it is the initial stack around the object in its current state -/
theorem history_live (rt : Obj → Obj) (w : Val) (g : List Val) (ops : List HOp) :
    (hrun rt ⟨w, g⟩ ops).live = mapCore (liveMut ops) w :=
  hrun_live rt ⟨w, g⟩ ops

/-- … and forwards to that current state: callable iff, same call results, same attribute reads -/
theorem history_live_forwards (rt : Obj → Obj) (w : Val) (hw : Regular w) (g : List Val) (ops : List HOp)
    (hs : StableOps ops) :
    SameBeh (hrun rt ⟨w, g⟩ ops).live (.raw (liveMut ops (core w))) := by
  rw [history_live]
  have h := sameBeh_core _ (regular_mapCore _ (liveMut_callStable ops hs) w hw)
  rwa [core_mapCore] at h

/-- `history_copy` — for EVERY history `pre`, the copy received from a pickling of the live wrapper
after `pre` (it lands at index "number of copies received so far") is the round trip of the wrapper
with the object in the state it has **at the time of that pickling** (`liveMut pre`), and it stays
that for every continuation `post` that does not change this very copy: later state changes of the
original, further picklings and changes of other copies do not reach it. -/
theorem history_copy (rt : Obj → Obj) (w : Val) (pre post : List HOp)
    (hpost : ∀ j f, HOp.mutateCopy j f ∈ post → j ≠ (hrun rt ⟨w, []⟩ pre).got.length) :
    (hrun rt ⟨w, []⟩ (pre ++ .pickle none :: post)).got[(hrun rt ⟨w, []⟩ pre).got.length]? =
      some (trip rt (mapCore (liveMut pre) w)) := by
  rw [hrun_append, copy_general rt _ none _ post rfl hpost, hrun_live]

/-- the same for a received copy that is pickled again (sent on, or sent back): what arrives is the
round trip of that copy as it is at that moment -/
theorem history_copy_of_copy (rt : Obj → Obj) (w : Val) (pre post : List HOp) (j : Nat) (c : Val)
    (hc : (hrun rt ⟨w, []⟩ pre).got[j]? = some c)
    (hpost : ∀ i f, HOp.mutateCopy i f ∈ post → i ≠ (hrun rt ⟨w, []⟩ pre).got.length) :
    (hrun rt ⟨w, []⟩ (pre ++ .pickle (some j) :: post)).got[(hrun rt ⟨w, []⟩ pre).got.length]? =
      some (trip rt c) := by
  rw [hrun_append, copy_general rt _ (some j) c post hc hpost]

/-- the `keep_wrapper` rule at every pickling of a history, for a wrapper made by
`wrap_non_picklable_objects(obj, keep)`: the k-th copy is `rt (state at the k-th pickling)` itself if
`¬ keep`, else a fresh wrapper of it with the same flag -/
theorem history_keep_rule (rt : Obj → Obj) (o : Obj) (keep : Bool) (pre post : List HOp)
    (hpost : ∀ j f, HOp.mutateCopy j f ∈ post → j ≠ (hrun rt ⟨wrapObj (.raw o) keep, []⟩ pre).got.length) :
    (hrun rt ⟨wrapObj (.raw o) keep, []⟩ (pre ++ .pickle none :: post)).got[
        (hrun rt ⟨wrapObj (.raw o) keep, []⟩ pre).got.length]? =
      some (if keep then wrapObj (.raw (rt (liveMut pre o))) keep else .raw (rt (liveMut pre o))) := by
  rw [history_copy rt _ pre post hpost]
  cases keep <;> rfl

/-- … and for an instance made through a wrapped class -/
theorem history_keep_rule_class {α : Type} (rt : Obj → Obj) (ctor : α → Obj) (dc keep : Bool) (args : α)
    (pre post : List HOp)
    (hpost : ∀ j f, HOp.mutateCopy j f ∈ post →
      j ≠ (hrun rt ⟨wrapClass (fun a => .raw (ctor a)) dc keep args, []⟩ pre).got.length) :
    (hrun rt ⟨wrapClass (fun a => .raw (ctor a)) dc keep args, []⟩ (pre ++ .pickle none :: post)).got[
        (hrun rt ⟨wrapClass (fun a => .raw (ctor a)) dc keep args, []⟩ pre).got.length]? =
      some (if keep then wrapObj (.raw (rt (liveMut pre (ctor args)))) keep
            else .raw (rt (liveMut pre (ctor args)))) := by
  rw [history_copy rt _ pre post hpost]
  cases keep <;> rfl

/-- `history_behaviour` — main statement for histories: given a behaviour-preserving cloudpickle, the
copy received from the pickling after `pre` behaves (callable iff, call results, attribute reads)
like the ORIGINAL OBJECT IN THE STATE IT HAD AT THAT PICKLING, exactly the `keep_wrapper=True` layers
of the stack arrive and every one of them has its flag set — for every stack, both flag values, every
history before and every continuation after (more picklings, more state changes). -/
theorem history_behaviour (rt : Obj → Obj) (hf : Faithful rt) (w : Val) (hw : Regular w)
    (pre post : List HOp) (hs : StableOps pre)
    (hpost : ∀ j f, HOp.mutateCopy j f ∈ post → j ≠ (hrun rt ⟨w, []⟩ pre).got.length) :
    ∃ c, (hrun rt ⟨w, []⟩ (pre ++ .pickle none :: post)).got[(hrun rt ⟨w, []⟩ pre).got.length]? = some c ∧
      SameBeh c (.raw (liveMut pre (core w))) ∧ depth c = keptLayers w ∧ allKeep c = true := by
  refine ⟨_, history_copy rt w pre post hpost, ?_, ?_, ?_⟩
  · have h := behaviour_preserved rt hf _ (regular_mapCore _ (liveMut_callStable pre hs) w hw) 1
    rwa [core_mapCore] at h
  · rw [depth_trip, keptLayers_mapCore]
  · exact allKeep_trip rt _

/-- non-vacuity: a callable object whose attribute `u:0` and call result change between two
picklings of the same wrapper; the first copy shows the old state, the second the new one, the live
wrapper the new one, with `keep_wrapper` true and false; the hypotheses of `history_behaviour` hold -/
example (keep : Bool) :
    let o : Obj := ⟨true, fun a => if a = .user 0 then some 1 else none, fun _ => 10, 0⟩
    let upd : Obj → Obj := fun o => { o with attr := fun a => if a = .user 0 then some 2 else o.attr a, call := fun _ => 20 }
    let rt : Obj → Obj := fun o => { o with gen := o.gen + 1 }
    let s := hrun rt ⟨wrapObj (.raw o) keep, []⟩ [.pickle none, .mutate upd, .pickle none, .mutate upd]
    s.got.map (callV · 0) = [some 10, some 20] ∧ callV s.live 0 = some 20 ∧
    s.got.map (fun c => (getattr c (.user 0)).isSome) = [true, true] ∧
    s.got.map depth = (if keep then [1, 1] else [0, 0]) ∧
    StableOps [.pickle none, .mutate upd] ∧ Regular (wrapObj (.raw o) keep) := by
  cases keep <;> exact ⟨rfl, rfl, rfl, rfl, ⟨fun _ => rfl, trivial⟩, ⟨rfl, trivial⟩⟩

end LokyModel.Wrapper
