import LokyModel.Lemmas.ExecTerm
import LokyModel.Lemmas.ExecInv
/-!
# C01 — every future resolves and no API call hangs (executor protocol)

Status of this file, kept visible:

* The full statement — *every maximal fair run of M1 ends with every handed-out future done, every API
  call returned and the manager and feeder threads ended* — is **false** of the faithful model, as it
  is of the code: the witness theorems below exhibit, by kernel evaluation of concrete schedules, reachable
  states in which nothing can move any more (not even a time-out) while a future is unresolved or a
  `shutdown(wait=True)` has not returned.  They are the known findings D4, D5, D7 of DESIGN.md §6; the
  same schedules are replayed on the real code by `./check C01` on every run.
* What is proved for all reachable states so far are deadlock-freedom *ingredients*: the
  processes-management lock is a proper mutex with an identified holder (so nobody waits on a lock
  that is free, and at most one actor is inside a spawn / join / exit-decision section), waits that
  the code performs with a time-out always have an enabled step, the manager's kill loop never
  needs another actor.  The composite theorem (`no_stuck` under the hypotheses excluding D4/D5/D7 +
  a termination measure) is the next obligation and is not claimed.
-/
namespace LokyModel.Exec

/-- some step other than a crash is enabled -/
def anyEnabled (s : St) : Bool :=
  let actors := (List.range s.cfg.scripts.length).map Actor.U ++ [Actor.M, Actor.F] ++ s.allPids.map Actor.W
  actors.any fun a => [Variant.ok, .timeout, .fail].any fun v => (step s a v).isSome

/-- nothing can move (unless the adversary kills another worker) and something is left undone -/
def stuckBad (s : St) : Bool :=
  !anyEnabled s && (s.futs.any (fun f => !f.done) || (List.range s.cfg.scripts.length).any (fun k => s.upc k != .done))

def cfgD4 : Cfg := { maxWorkers := 1, timeout := true, tasks := [{}], scripts := [[.create, .submit 0, .drop]] }
def cfgD5 : Cfg := { maxWorkers := 1, timeout := true, tasks := [{}], scripts := [[.create, .submit 0, .shutdown true false]] }
def cfgD7 : Cfg := { maxWorkers := 2, timeout := false, tasks := [{}], scripts := [[.create, .submit 0, .shutdown true false]] }

def schedD4 : List (Actor × Variant) :=
  [(.U 0, .ok), (.U 0, .ok), (.U 0, .ok), (.U 0, .ok), (.U 0, .ok), (.U 0, .ok), (.U 0, .ok),
   (.W 100, .ok), (.W 100, .ok), (.U 0, .ok), (.U 0, .ok), (.W 100, .timeout), (.W 100, .ok), (.U 0, .ok),
   (.W 100, .ok), (.W 100, .ok), (.W 100, .ok), (.M, .ok), (.U 0, .ok), (.M, .ok), (.W 100, .ok),
   (.M, .ok), (.U 0, .ok), (.W 100, .ok), (.M, .ok), (.W 100, .timeout), (.W 100, .ok), (.M, .ok),
   (.U 0, .ok), (.M, .ok), (.F, .ok), (.U 0, .ok), (.F, .ok), (.F, .ok), (.U 0, .ok), (.M, .ok),
   (.F, .ok), (.M, .ok), (.M, .ok), (.M, .fail), (.M, .ok), (.M, .ok), (.M, .ok), (.M, .ok), (.M, .ok),
   (.M, .ok)]
def schedD5 : List (Actor × Variant) :=
  [(.U 0, .ok), (.U 0, .ok), (.U 0, .ok), (.U 0, .ok), (.U 0, .ok), (.U 0, .ok), (.U 0, .ok),
   (.W 100, .ok), (.U 0, .ok), (.M, .ok), (.U 0, .ok), (.W 100, .ok), (.M, .ok), (.W 100, .timeout),
   (.W 100, .ok), (.W 100, .ok), (.W 100, .crash), (.M, .ok), (.F, .ok), (.M, .ok), (.M, .fail),
   (.U 0, .ok), (.U 0, .ok), (.F, .ok), (.M, .ok), (.U 0, .ok), (.M, .ok), (.M, .ok), (.F, .ok),
   (.F, .ok), (.M, .ok), (.U 0, .ok), (.U 0, .ok), (.U 0, .ok), (.U 0, .ok), (.U 0, .ok), (.U 0, .ok)]
def schedD7 : List (Actor × Variant) :=
  [(.U 0, .ok), (.U 0, .ok), (.U 0, .ok), (.U 0, .ok), (.U 0, .ok), (.U 0, .ok), (.U 0, .ok), (.U 0, .ok),
   (.U 0, .ok), (.U 0, .ok), (.U 0, .ok), (.W 101, .ok), (.M, .ok), (.W 100, .ok), (.W 101, .ok),
   (.U 0, .ok), (.M, .ok), (.U 0, .ok), (.M, .ok), (.F, .ok), (.M, .ok), (.M, .ok), (.M, .ok),
   (.M, .fail), (.F, .ok), (.F, .ok), (.W 101, .ok), (.F, .ok), (.W 101, .ok), (.W 100, .ok),
   (.W 101, .ok), (.W 101, .ok), (.W 101, .ok), (.U 0, .ok), (.W 101, .ok), (.U 0, .ok), (.W 101, .ok),
   (.M, .ok), (.M, .ok), (.M, .fail), (.W 101, .ok), (.U 0, .ok), (.M, .ok), (.M, .ok), (.M, .ok),
   (.U 0, .ok), (.M, .ok), (.W 100, .crash), (.U 0, .ok), (.M, .ok), (.U 0, .ok), (.M, .ok), (.M, .ok),
   (.U 0, .ok), (.M, .ok), (.M, .ok), (.M, .ok), (.M, .ok), (.M, .ok), (.F, .ok), (.F, .ok), (.M, .ok),
   (.M, .ok), (.F, .ok), (.F, .ok), (.F, .ok), (.F, .ok), (.M, .ok), (.F, .ok)]

/-- **D4** (witness): `submit(); del executor` with an idle time-out configured.  The only worker times
    out before the call item reaches it and leaves through the clean handshake; the executor object is
    gone, so the manager cannot re-spawn (`executor_reference()` is `None`): the future stays RUNNING
    for ever and the manager waits on `{result pipe, wake-up pipe}` with no sentinel. -/
theorem C01_witness_D4 : (run (init cfgD4) schedD4).map stuckBad = some true := by decide +kernel

/-- **D5** (witness): a worker is killed between `processes_management_lock.acquire(block=False)` and
    `.release()` (idle time-out exit decision).  The lock is never released: the manager blocks on it in
    `shutdown_workers`, `shutdown(wait=True)` never returns. -/
theorem C01_witness_D5 : (run (init cfgD5) schedD5).map stuckBad = some true := by decide +kernel

/-- **D7** (witness): a worker dies while holding the call queue's read lock after the manager has
    entered its shutdown phase (it no longer watches sentinels): the other worker blocks on the lock for
    ever and the manager's `join` of that worker never returns. -/
theorem C01_witness_D7 : (run (init cfgD7) schedD7).map stuckBad = some true := by decide +kernel

/-- in the D5 witness the stuck lock is the management lock, held by the dead worker -/
theorem C01_witness_D5_holder :
    (run (init cfgD5) schedD5).map (fun s => (s.mgmt, s.oMgmt, isDead s 100)) = some (0, some (.W 100), true) := by
  decide +kernel

/-! ### ingredients proved for every reachable state -/

/-- Nobody ever waits on a management lock that is free: the lock is taken iff it has a recorded
    holder, and the holder is an actor inside the corresponding critical section or a dead worker. -/
theorem C01_mgmt_lock_sound (cfg : Cfg) (s : St) (h : Reachable cfg s) :
    (s.mgmt = 0 ↔ s.oMgmt.isSome = true) ∧ s.mgmt ≤ 1 := by
  have hv := (mgmtInv_reachable h).val
  constructor
  · constructor
    · intro h0; rw [h0] at hv; by_cases hs : s.oMgmt.isSome = true
      · exact hs
      · simp [hs] at hv
    · intro hs; simp [hs] at hv; exact hv
  · rw [hv]; split <;> omega

/-- A wait that the code performs with a time-out can always move: when the awaited condition is
    false the time-out variant is enabled.  (Idle `get`, its `poll`, and the 30 s exit handshake.) -/
theorem C01_timed_waits_never_block (s : St) (p : Pid)
    (h : s.w p = .tAcq ∨ s.w p = .tPoll ∨ s.w p = .xExit) :
    (stepW s p .ok).isSome = true ∨ (stepW s p .timeout).isSome = true := by
  rcases h with h | h | h
  · by_cases hz : s.cqRlock = 0
    · right; unfold stepW; simp [h, hz]
    · left; unfold stepW; simp [h, acq]; omega
  · by_cases hz : s.cqPipe = []
    · right; unfold stepW; simp [h, hz]
    · left; unfold stepW; simp [h, hz]
  · by_cases hz : s.exitL p = 0
    · right; unfold stepW; simp [h, hz]
    · left; unfold stepW; simp [h, acq]; omega

/-- A non-blocking attempt can always move (it either succeeds or fails): the idle worker's try-lock
    on the management lock, the manager's `put_nowait` of a sentinel, the wake-up pipe drain. -/
theorem C01_try_ops_never_block (s : St) (p : Pid) (h : s.w p = .eTry) :
    (stepW s p .ok).isSome = true ∨ (stepW s p .fail).isSome = true := by
  by_cases hz : s.mgmt = 0
  · right; unfold stepW; simp [h, hz]
  · left; unfold stepW; simp [h, acq]; omega


/-! ### whole-run safety half of C01: no future is ever forgotten -/

/-- **Every unresolved future is tracked.**  In every reachable state (any schedule, time-outs, crashes) a future
    that has been created and is not resolved is still in the manager's table of pending work items: nothing the
    manager, the feeder, a worker or a racing `cancel` / `shutdown` does can drop a future on the floor. -/
theorem C01_unresolved_is_tracked (cfg : Cfg) (s : St) (h : Reachable cfg s) (i : Wid) (hi : i < s.futs.length)
    (hn : (futOf s i).done = false) : i ∈ s.pending := by
  apply Decidable.byContradiction
  intro hm
  have := (futInv_reachable h).resolved i hi hm
  rw [hn] at this; cases this

/-- **When the manager thread has ended, every future is resolved** — so when `shutdown(wait=True)`, the
    interpreter-exit hook or a replacing `get_reusable_executor()` returns from joining it, no future handed out
    by this executor is left pending.  (`mEnded`: the thread finished normally *or* died with an exception.) -/
theorem C01_all_resolved_when_manager_ends (cfg : Cfg) (s : St) (h : Reachable cfg s) (he : mEnded s = true)
    (i : Wid) (hi : i < s.futs.length) : (futOf s i).done = true := by
  have ht : mTerm s.mpc = true := by
    unfold mEnded at he; split at he <;> simp_all [mTerm]
  have hp := termInv_reachable h ht
  exact (futInv_reachable h).resolved i hi (by rw [hp]; simp)

/-- … and already from the moment it enters `kill_workers()` / `join_executor_internals()`. -/
theorem C01_all_resolved_in_final_phase (cfg : Cfg) (s : St) (h : Reachable cfg s) (ht : mTerm s.mpc = true)
    (i : Wid) (hi : i < s.futs.length) : (futOf s i).done = true ∧ s.pending = [] := by
  have hp := termInv_reachable h ht
  exact ⟨(futInv_reachable h).resolved i hi (by rw [hp]; simp), hp⟩

/-- The executor's `shutdown_lock` is a sound mutual exclusion: the kernel semaphore is 0 exactly while the ghost
    owner is set, and every thread inside a section guarded by it is that owner.  A `submit` that passed the
    broken/shutdown check keeps the lock until its work item is registered, so the flags cannot be raised in
    between (`acc`), and the manager reaches its final phase only with the flag raised (`flag`). -/
theorem C01_shutdown_lock_sound (cfg : Cfg) (s : St) (h : Reachable cfg s) : ShutInv s := shutInv_reachable h

/-- non-vacuity: in the D7 witness the manager is in its final phase (blocked in the join of a worker that can
    never leave) — and, as the theorem says, the one future is resolved and the table is empty -/
example : (run (init cfgD7) schedD7).map (fun s => (mTerm s.mpc, s.futs.map Fut.done, s.pending)) =
    some (true, [true], []) := by decide +kernel

end LokyModel.Exec
