import LokyModel.Lemmas.ExecOutcomeAll
import LokyModel.Props.C01Live
import LokyModel.Props.C03
import LokyModel.Props.C05
/-!
# C04 / C05 — every future gets the outcome of its own task; a graceful shutdown of a static pool drains

The whole-run invariants of M1 combined into the statements of the two properties:

* **C04 (containment)**, `C04_every_resolved_future_has_its_own_outcome`: in every state of every crash-free run of a benign
  configuration without forced shutdown, a resolved future holds an outcome that its *own* task specification allows
  (`expectedFut`, `LokyModel/ExecOutcomeDef.lean`): the value for a plain task, the task's own exception for a raising one,
  the feeder's pickling error for arguments that cannot be pickled or are too large — or it is cancelled, and then
  `cancel()` returned True for it.  Never a pool error, never `ShutdownExecutorError`, never the outcome of a task of
  another kind; and the pool is not flagged broken (`C04_pool_stays_unbroken`), so it stays usable.
* **C05 (drain)**, `C05_static_pool_drains`: at the end of every maximal crash-free run of a static pool, *every*
  submitted future is resolved, with the outcome of its own task; every user script — in particular every
  `shutdown(wait=True)` — has returned; the pool was never flagged broken.

Ingredients: `FutInv` (a value / a task exception implies an execution of that work id), `MsgInv` (a result message
carries the outcome kind of the task of its own work id), `NBInv` (never broken), `OutInv` (new, `Lemmas/ExecOutcome*`:
the arguments of the task of a work id past the feeder travel, those on the feeder's error path do not; the kill flag is
never raised), and deadlock freedom `C01_static_pool_no_deadlock`.

Scope, as for every theorem over `ReachableNC`: no crash steps (a worker that dies breaks the pool: C02).  What the model
abstracts: the *kind* of an outcome, not the payload — "its own result" is "a result message of its own work id, produced by
one execution of its own task" (`C03_value_from_one_execution`, `C03_runs_own_task`).
-/
namespace LokyModel.Exec
open StaticP

/-! ### the outcomes allowed for different kinds of task are disjoint -/

/-- two outcomes allowed for the same specification are the same outcome, unless one is the cancellation: the predicate
    discriminates between the kinds of task, so "its own outcome" excludes "a sibling's outcome" -/
theorem expectedFut_unique (sp : TaskSpec) (i j : Wid) (f g : Fut) (hf : expectedFut sp i f = true)
    (hg : expectedFut sp j g = true) : f = .cancelled ∨ g = .cancelled ∨ f = g := by
  cases f <;> cases g <;> simp_all [expectedFut] <;> (cases h : sp.args <;> simp_all [ArgKind.unsendable])

/-- what each allowed outcome says about the task -/
theorem expectedFut_value (sp : TaskSpec) (i : Wid) :
    expectedFut sp i .value = true ↔ sp.args = .ok ∧ sp.body = .ok ∧ sp.res = .ok := by
  simp [expectedFut, and_assoc]
theorem expectedFut_excWorker (sp : TaskSpec) (i : Wid) :
    expectedFut sp i .excWorker = true ↔ sp.args = .ok ∧ sp.body = .raises := by
  simp [expectedFut]
theorem expectedFut_excFeeder (sp : TaskSpec) (i : Wid) :
    expectedFut sp i .excFeeder = true ↔ sp.args = .unpicklable ∨ sp.args = .toolarge := by
  cases h : sp.args <;> simp [expectedFut, ArgKind.unsendable, h]
theorem expectedFut_no_pool_error (sp : TaskSpec) (i : Wid) :
    expectedFut sp i .excBroken = false ∧ expectedFut sp i .excTerminated = false ∧
    expectedFut sp i .excShutdown = false := ⟨rfl, rfl, rfl⟩

/-! ### C04 -/

/-- **Every resolved future holds the outcome of its own task** (or is cancelled).  For every state reached without crash
    steps from a benign configuration (no task that kills its worker, no payload that fails to *un*-pickle, no failing
    initializer) in which no script calls `shutdown(kill_workers=True)` — whatever the number of workers, time-outs,
    memory-leak exits, submissions, cancellations, shutdowns, interleavings.  (`hi` is not needed: a work id that was never
    issued has no resolved future.) -/
theorem C04_every_resolved_future_has_its_own_outcome (cfg : Cfg) (hb : cfg.benign) (hk : cfg.noKill = true) (s : St)
    (h : ReachableNC cfg s) (i : Wid) (_hi : i < s.futs.length) (hd : (futOf s i).done = true) :
    expectedFut (specOf s (s.taskOf.getD i 0)) i (futOf s i) = true := by
  have hr := h.reachable
  have O := outInv_reachableNC hb hk h
  have hfut := O.fut i
  have hval := (msgInv_reachable hr).val i
  have hex : (futOf s i = .value ∨ futOf s i = .excWorker) → (specOf s (s.taskOf.getD i 0)).args = .ok := by
    intro hv
    have h1 := (futInv_reachable hr).executed i hv
    have hm : i ∈ s.execW := List.count_pos_iff.mp (by omega)
    exact (O.ex i hm).2
  cases hf : futOf s i with
  | pending => rw [hf] at hd; cases hd
  | running => rw [hf] at hd; cases hd
  | cancelled => rfl
  | value =>
    have ha := hex (Or.inl hf)
    obtain ⟨h1, h2⟩ := hval.1 hf
    have h3 : (specOf s (s.taskOf.getD i 0)).res = .ok := by
      cases hq : (specOf s (s.taskOf.getD i 0)).res with
      | ok => rfl
      | badunpickle => exact absurd hq h2
    show ((specOf s (s.taskOf.getD i 0)).args == .ok && (specOf s (s.taskOf.getD i 0)).body == .ok &&
          (specOf s (s.taskOf.getD i 0)).res == .ok) = true
    rw [ha, h1, h3]; rfl
  | excWorker =>
    have ha := hex (Or.inr hf)
    have h1 := hval.2 hf
    show ((specOf s (s.taskOf.getD i 0)).args == .ok && (specOf s (s.taskOf.getD i 0)).body == .raises) = true
    rw [ha, h1]; rfl
  | excFeeder => rw [hf] at hfut; exact hfut
  | excBroken => rw [hf] at hfut; cases hfut
  | excTerminated => rw [hf] at hfut; cases hfut
  | excShutdown => rw [hf] at hfut; cases hfut

/-- … in particular **no future ever fails with a pool error**: neither `BrokenProcessPool`, nor `TerminatedWorkerError`,
    nor `ShutdownExecutorError` — a faulty task fails its own future only. -/
theorem C04_no_pool_error_on_any_future (cfg : Cfg) (hb : cfg.benign) (hk : cfg.noKill = true) (s : St)
    (h : ReachableNC cfg s) (i : Wid) :
    futOf s i ≠ .excBroken ∧ futOf s i ≠ .excTerminated ∧ futOf s i ≠ .excShutdown := by
  have hfut := (outInv_reachableNC hb hk h).fut i
  refine ⟨?_, ?_, ?_⟩ <;> (intro hf; rw [hf] at hfut; cases hfut)

/-- … and a future is cancelled exactly when a `cancel()` on it returned True. -/
theorem C04_cancelled_only_by_cancel (cfg : Cfg) (hb : cfg.benign) (hk : cfg.noKill = true) (s : St)
    (h : ReachableNC cfg s) (i : Wid) : futOf s i = .cancelled ↔ i ∈ s.cancelOk := by
  constructor
  · intro hf
    have hfut := (outInv_reachableNC hb hk h).fut i
    rw [hf] at hfut
    simpa [futArgOk] using hfut
  · exact (tokInv_reachable h.reachable).cancelled i

/-- siblings: the failure of one task says nothing about the future of another — whatever the outcome of `j`, a resolved
    future `i` holds the outcome of *its* task; e.g. a plain task next to a raising one and one with un-picklable arguments
    resolves with its value or not at all. -/
theorem C04_sibling_of_faulty_task_gets_its_value (cfg : Cfg) (hb : cfg.benign) (hk : cfg.noKill = true) (s : St)
    (h : ReachableNC cfg s) (i : Wid) (hi : i < s.futs.length) (hd : (futOf s i).done = true)
    (hplain : specOf s (s.taskOf.getD i 0) = {}) : futOf s i = .value ∨ futOf s i = .cancelled := by
  have := C04_every_resolved_future_has_its_own_outcome cfg hb hk s h i hi hd
  rw [hplain] at this
  cases hf : futOf s i <;> simp_all [expectedFut, ArgKind.unsendable]

/-! ### C05 -/

theorem benign_of_staticPool (c : Cfg) (hc : c.staticPool = true) : c.benign := by
  obtain ⟨_, _, h3, _, h5, _⟩ := sp_parts c hc
  refine ⟨fun t ht => ?_, h3⟩
  obtain ⟨a, b, d⟩ := h5 t ht
  simp [TaskSpec.benign, a, b, d]

theorem noKill_of_staticPool (c : Cfg) (hc : c.staticPool = true) : c.noKill = true := by
  unfold Cfg.staticPool at hc
  simp only [Bool.and_eq_true] at hc
  exact hc.2

/-- **A graceful shutdown of a static pool drains.**  In every state that a static pool reaches without crash steps and in
    which no actor can move (the end of a maximal run): every submitted future is resolved and holds the outcome of its
    own task (or was cancelled by its owner); every user script has run to its end — every `submit`, `cancel`,
    `shutdown(wait=True/False)`, interpreter-exit hook has returned; the pool was never flagged broken.  The drain clause
    of C05 and the containment clause of C04 in one statement. -/
theorem C05_static_pool_drains (cfg : Cfg) (hc : cfg.staticPool = true) (s : St) (h : ReachableNC cfg s)
    (hq : enabledNC s = []) :
    (∀ i, i < s.futs.length →
        (futOf s i).done = true ∧ expectedFut (specOf s (s.taskOf.getD i 0)) i (futOf s i) = true) ∧
    (∀ k, k < s.cfg.scripts.length → s.upc k = .done) ∧
    s.broken = none := by
  have hb := benign_of_staticPool cfg hc
  have hk := noKill_of_staticPool cfg hc
  have hg := C01_static_pool_no_deadlock cfg hc s h hq
  unfold good at hg
  simp only [Bool.and_eq_true, List.all_eq_true, List.mem_range, beq_iff_eq] at hg
  refine ⟨fun i hi => ?_, hg.2, (C05_never_flagged_broken cfg hb s h).1⟩
  have hd : (futOf s i).done = true := by
    have e : futOf s i = s.futs[i] := by simp [futOf, List.getD_eq_getElem?_getD, hi]
    rw [e]; exact hg.1 _ (List.getElem_mem hi)
  exact ⟨hd, C04_every_resolved_future_has_its_own_outcome cfg hb hk s h i hi hd⟩

/-! ### non-vacuity: one run of a static pool, five futures, four different outcomes

Two workers; a plain task, a raising one, one whose arguments cannot be pickled, one whose arguments are too large, the
plain task again — cancelled in time; `shutdown(wait=True)`. -/

def cfgDrain : Cfg :=
  { maxWorkers := 2, timeout := false,
    tasks := [{}, { body := .raises }, { args := .unpicklable }, { args := .toolarge }],
    scripts := [[.create, .submit 0, .submit 1, .submit 2, .submit 3, .submit 0, .cancel 0, .shutdown true false]] }

def rep (n : Nat) (av : Actor × Variant) : List (Actor × Variant) := List.replicate n av

/-- the user thread first (five submissions, the cancellation, `shutdown` up to its join), then the manager, the feeder
    (two pickling errors), worker 100 (both bodies), the drain, the stop sentinels, the join -/
def schedDrain : List (Actor × Variant) :=
  rep 45 (.U 0, .ok) ++ rep 19 (.M, .ok) ++ rep 1 (.M, .fail) ++ rep 2 (.M, .ok) ++ rep 10 (.F, .ok) ++
  rep 3 (.M, .ok) ++ rep 1 (.M, .fail) ++ rep 1 (.F, .ok) ++ rep 2 (.M, .ok) ++ rep 6 (.F, .ok) ++
  rep 3 (.M, .ok) ++ rep 1 (.M, .fail) ++ rep 1 (.F, .ok) ++ rep 2 (.M, .ok) ++ rep 9 (.W 100, .ok) ++
  rep 2 (.M, .ok) ++ rep 1 (.M, .fail) ++ rep 2 (.M, .ok) ++ rep 9 (.W 100, .ok) ++ rep 2 (.M, .ok) ++
  rep 1 (.M, .fail) ++ rep 15 (.M, .ok) ++ rep 7 (.F, .ok) ++ rep 10 (.W 100, .ok) ++ rep 10 (.W 101, .ok) ++
  rep 3 (.M, .ok) ++ rep 2 (.U 0, .ok)

example : cfgDrain.staticPool = true := by decide
example : schedDrain.all (fun av => av.2 != .crash) = true := by decide +kernel
example : schedDrain.length = 170 := by decide +kernel

set_option synthInstance.maxSize 512 in
/-- the run exists, ends in a quiescent state, and that state is what the theorem says: the five futures hold the value,
    the task's exception, the feeder's pickling error (twice) and the cancellation; the script has ended; not broken;
    bodies were started for work ids 0 and 1 only; `cancel()` succeeded on work id 4 only -/
theorem C05_witness_drain :
    (run (init cfgDrain) schedDrain).map
        (fun s => (((enabledNC s).isEmpty, s.futs, s.taskOf), (s.upc 0, s.broken), (s.execW, s.cancelOk)))
      = some ((true, [.value, .excWorker, .excFeeder, .excFeeder, .cancelled], [0, 1, 2, 3, 0]), (.done, none),
              ([0, 1], [4])) := by
  decide +kernel

/-- each of them is the outcome expected for its own task, and for no task of another kind: row `i` lists
    `expectedFut (spec of task t) i (future i)` for `t = 0, 1, 2, 3` — true exactly in the column of the future's own
    task (and everywhere for the cancelled one) -/
theorem C05_witness_drain_outcomes :
    (run (init cfgDrain) schedDrain).map
        (fun s => (List.range s.futs.length).map fun i =>
           (List.range 4).map fun t => expectedFut (specOf s t) i (futOf s i))
      = some [[true, false, false, false],    -- value: the plain task
              [false, true, false, false],    -- its own exception: the raising task
              [false, false, true, true],     -- pickling error in the feeder: arguments that cannot be pickled …
              [false, false, true, true],     -- … or are too large
              [true, true, true, true]] := by -- cancelled
  decide +kernel

/-- the theorems apply to this run: it is a crash-free run of a static pool ending in a quiescent state -/
theorem C05_witness_drain_in_scope : ∃ s, run (init cfgDrain) schedDrain = some s ∧ ReachableNC cfgDrain s ∧
    enabledNC s = [] ∧ ownOutcomes s = true := by
  have hrun : (run (init cfgDrain) schedDrain).isSome = true := by decide +kernel
  obtain ⟨s, hs⟩ := Option.isSome_iff_exists.mp hrun
  have hnc : ∀ av ∈ schedDrain, av.2 ≠ .crash := by
    intro av hav
    have : schedDrain.all (fun av => av.2 != .crash) = true := by decide +kernel
    simpa using List.all_eq_true.mp this av hav
  have hR := reachableNC_of_run schedDrain (init cfgDrain) s .init hnc hs
  have hq : (run (init cfgDrain) schedDrain).map (fun s => ((enabledNC s).isEmpty, ownOutcomes s)) = some (true, true) := by
    decide +kernel
  rw [hs] at hq
  simp only [Option.map_some, Option.some.injEq, Prod.mk.injEq, List.isEmpty_iff] at hq
  exact ⟨s, hs, hR, hq.1, hq.2⟩

/-! ### the hypothesis `noKill` is needed

`benign` alone (the hypothesis of `NBInv`) does not give the statement: `shutdown(kill_workers=True)` fails every future that
is still pending or running with `ShutdownExecutorError` — by design (C06), on a pool that is never flagged broken. -/

def cfgKillOutcome : Cfg :=
  { maxWorkers := 1, timeout := false, tasks := [{}], scripts := [[.create, .submit 0, .shutdown false true]] }
def schedKillOutcome : List (Actor × Variant) :=
  rep 17 (.U 0, .ok) ++ rep 8 (.M, .ok) ++ rep 1 (.M, .fail) ++ rep 2 (.M, .ok)

example : cfgKillOutcome.benign := by constructor <;> decide
/-- a crash-free run of a benign configuration *with* a forced shutdown: the future of the plain task holds
    `ShutdownExecutorError`, which `expectedFut` does not allow -/
theorem C04_witness_forced_shutdown_excluded :
    (run (init cfgKillOutcome) schedKillOutcome).map
        (fun s => (s.futs, s.broken, cfgKillOutcome.noKill, ownOutcomes s))
      = some ([.excShutdown], none, false, false) := by decide +kernel

/-- `ownOutcomes`, the executable form evaluated by `Drivers/LiveCheckOutcome.lean` in every state of its random walks,
    is the statement of `C04_every_resolved_future_has_its_own_outcome` -/
theorem ownOutcomes_reachableNC (cfg : Cfg) (hb : cfg.benign) (hk : cfg.noKill = true) (s : St)
    (h : ReachableNC cfg s) : ownOutcomes s = true := by
  unfold ownOutcomes
  rw [List.all_eq_true]
  intro i hi
  have hi' : i < s.futs.length := by simpa using hi
  cases hd : (futOf s i).done with
  | false => rfl
  | true => simpa using C04_every_resolved_future_has_its_own_outcome cfg hb hk s h i hi' hd

end LokyModel.Exec
