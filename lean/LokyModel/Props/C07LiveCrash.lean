import LokyModel.Lemmas.ExecLiveDCAll
import LokyModel.Props.C07Live
/-!
# C07 / C02 — deadlock freedom of pools with an idle time-out (dynamic pools) WITH worker deaths

The combination of `Props/C07Live.lean` (dynamic pools, crash-free runs) and `Props/C02Live.lean` (static pools, worker
deaths at lock-free points), as a theorem about M1.

*Scope*: `Cfg.dynPool` and `Cfg.oneCreate` as in `C07Live.lean` (idle time-out configured; no memory-leak exit, no failing
initializer, no task whose body kills its worker or whose payload fails to un-pickle, no `shutdown(kill_workers=True)`,
the executor stays referenced, `max_workers ≥ 1`, at most one `create`).  *Runs*: `ReachableLF` — every interleaving of
ordinary steps with every placement of time-out firings, **and the death of a worker at any point at which it holds no
kernel lock** (`lockFree`: anywhere in its start-up, while it waits for the call queue's read lock with a time-out,
between the time-out and the non-blocking `acquire` of the management lock, inside a task body, between a task and its
result, while it waits to announce its exit, and inside the exit handshake once the announcement is sent: the manager
then joins a dead process).  The excluded windows are those of the listed findings D5 / D7 (a death while a kernel lock
is held).

*What the manager's own SIGKILL adds.*  Once a worker has died un-announced the manager flags the pool broken and kills
every registered worker wherever it is.  For the two queue locks that is harmless (every worker that could want them is
killed too).  For the process-management lock it is not: an idle worker whose `get` timed out takes that lock
non-blocking and releases it at once (`eTry`/`eRel`); killed in between, the lock stays taken for ever and
`join_executor_internals` blocks on it.  This is the listed finding **D5 in its "manager's own SIGKILL" form** (its
predicate in `known_findings.json` names both forms); `lockFree` keeps *crash* steps out of the window but not the
manager's `kill`.  The random walks reach it (≈ 0.6 % of the runs of `Drivers/LiveCheckDC.lean`);
`C07_crash_D5_kill_witness` below is a kernel-evaluated run.  The theorem therefore assumes `mgmtOrphan s = false` — the
recorded owner of the management lock is not a dead worker — of the END state only: an orphan is for ever
(`mgmtOrphan_step`), so no state of the run has one.

*Proof.*  Two phases (`LokyModel/ExecLiveDCDef.lean`).  Phase 1: every death so far hit a worker that had announced its
exit and waited for its exit lock; such a death is the clean exit that was about to happen, up to the ghost exit code
(`p1_benign`: two applications of the crash-free step lemmas), so the crash-free bundle of `C07Live.lean` still holds and
`stuck_good_dyn` applies.  Phase 2 (`phase2`, closed under every step): a registered worker is dead and un-announced — it
stays registered until the manager pops it, and a waiting manager sees its sentinel (`watchOk`, every reachable state) —
or the manager is on the broken path / in the kill loop / in its final phase; `stuck_good_DC2` with the ingredients
`dcSmall`, `dcHolder'`, `dcKilled`, `dcTRecv` (each an inductive invariant of these runs).  Evidence before proof:
`Drivers/LiveCheckDC.lean`, 9000 runs / 1.2 M states, every ingredient in every state, `good` in every quiescent state.
-/
namespace LokyModel.Exec

/-- **C07/C02, dynamic pools with worker deaths: a quiescent state is a good one.**  In every state that a pool with an
    idle time-out reaches by ordinary steps, time-outs and deaths of workers that hold no kernel lock, if no actor has an
    enabled step (other than a crash) and the management lock is not orphaned (D5), then every future is resolved and
    every user thread has finished its script. -/
theorem C07_dyn_pool_crash_no_deadlock (cfg : Cfg) (hc : cfg.dynPool = true) (ho : cfg.oneCreate = true) (s : St)
    (h : ReachableLF cfg s) (hD5 : mgmtOrphan s = false) (hq : enabledNC s = []) : good s = true :=
  stuck_good_DC cfg hc ho s h hD5 hq

/-- … in the vocabulary of the witness theorems of `Props/C01.lean` -/
theorem C07_dyn_pool_crash_never_stuck_bad (cfg : Cfg) (hc : cfg.dynPool = true) (ho : cfg.oneCreate = true) (s : St)
    (h : ReachableLF cfg s) (hD5 : mgmtOrphan s = false) : stuckBad s = false := by
  unfold stuckBad
  cases he : anyEnabled s with
  | true => simp
  | false =>
    have hg := C07_dyn_pool_crash_no_deadlock cfg hc ho s h hD5 ((anyEnabled_false_iff s).1 he)
    unfold good at hg
    simp only [Bool.and_eq_true] at hg
    simp only [Bool.not_false, Bool.true_and, Bool.or_eq_false_iff]
    constructor
    · rw [List.any_eq_false]
      intro f hf
      have := List.all_eq_true.1 hg.1 f hf
      simp [this]
    · rw [List.any_eq_false]
      intro k hk
      have := List.all_eq_true.1 hg.2 k hk
      simpa using this

/-- the same for runs in which the manager's SIGKILL never hits a worker inside the management-lock window, stated on
    the run instead of on its end state: every stuck-bad state of a dynamic pool with lock-free deaths is an instance of
    D5 (manager-kill form) -/
theorem C07_dyn_pool_crash_stuck_bad_is_D5 (cfg : Cfg) (hc : cfg.dynPool = true) (ho : cfg.oneCreate = true) (s : St)
    (h : ReachableLF cfg s) (hb : stuckBad s = true) : mgmtOrphan s = true := by
  cases ho' : mgmtOrphan s with
  | true => rfl
  | false => rw [C07_dyn_pool_crash_never_stuck_bad cfg hc ho s h ho'] at hb; cases hb

/-- what holds of a pool flagged broken (any state of such a run without an orphan): the shutdown flag is raised, the
    manager is at `brkRel`, in the kill loop or in its final phase; in its final phase the registry is empty -/
theorem C07_dyn_pool_crash_broken_facts (cfg : Cfg) (hc : cfg.dynPool = true) (ho : cfg.oneCreate = true) (s : St)
    (h : ReachableLF cfg s) (hD5 : mgmtOrphan s = false) (hb : s.broken.isSome = true) :
    s.shutdownFlag = true ∧ mBrkLate s.mpc = true ∧ (mFinal s.mpc = true → s.procDict = []) := by
  have I := dcInv_reachableLF hc ho h hD5
  exact ⟨(dcKilled_broken s I.killed hb).1, (dcKilled_broken s I.killed hb).2,
    fun hf => (dcKilled_final s I.killed hb hf).1⟩

/-- crash-free runs are lock-free crash runs without an orphan: `C07_dyn_pool_no_deadlock` is the special case -/
theorem C07_dyn_pool_no_deadlock_of_crash (cfg : Cfg) (hc : cfg.dynPool = true) (ho : cfg.oneCreate = true) (s : St)
    (h : ReachableNC cfg s) (hq : enabledNC s = []) : good s = true := by
  refine C07_dyn_pool_crash_no_deadlock cfg hc ho s h.reachableLF ?_ hq
  -- without deaths the owner of the management lock, if a worker, is at `eRel`
  have L := dynLiveInv_reachableNC hc ho h
  have hh := holderOk_of_ok'' L.holder
  unfold holderOk at hh
  simp only [Bool.and_eq_true] at hh
  obtain ⟨⟨_, h5⟩, _⟩ := hh
  unfold mgmtOrphan
  cases hom : s.oMgmt with
  | none => rfl
  | some a =>
    cases a with
    | W p =>
      simp only [hom, Bool.and_eq_true, beq_iff_eq] at h5
      simp [h5.2]
    | _ => rfl

/-! ### non-vacuity: a worker times out and leaves, another dies in a task body; the run ends quiescent and good, broken -/

/-- two workers; a task, a pause, another task, `shutdown(wait=True)` -/
def cfgDC : Cfg :=
  { maxWorkers := 2, timeout := true, tasks := [{}, {}],
    scripts := [[.create, .submit 0, .idle, .idle, .idle, .submit 1, .shutdown true false]] }
def schedDC : List (Actor × Variant) :=
  [(.U 0, .ok), (.U 0, .ok), (.U 0, .ok), (.U 0, .ok), (.U 0, .ok), (.U 0, .ok), (.U 0, .ok), (.U 0, .ok), (.U 0, .ok),
   (.U 0, .ok), (.W 100, .ok), (.U 0, .ok), (.M, .ok), (.M, .ok), (.M, .ok), (.W 100, .ok), (.F, .ok), (.U 0, .ok),
   (.M, .ok), (.M, .ok), (.M, .ok), (.F, .ok), (.M, .fail), (.W 101, .ok), (.F, .ok), (.W 100, .ok), (.W 101, .timeout),
   (.F, .ok), (.U 0, .ok), (.U 0, .ok), (.U 0, .ok), (.W 101, .ok), (.W 101, .ok), (.U 0, .ok), (.W 100, .ok),
   (.U 0, .ok), (.W 100, .ok), (.U 0, .ok), (.W 101, .ok), (.U 0, .ok), (.W 100, .ok), (.U 0, .ok), (.W 100, .crash),
   (.M, .ok), (.M, .fail), (.W 101, .ok), (.W 101, .ok), (.U 0, .ok), (.W 101, .timeout), (.U 0, .ok), (.W 101, .ok),
   (.M, .ok), (.M, .ok), (.U 0, .ok), (.M, .ok), (.M, .ok), (.U 0, .ok), (.U 0, .ok), (.M, .ok), (.U 0, .ok),
   (.U 0, .ok), (.M, .ok), (.U 0, .ok), (.U 0, .ok), (.M, .ok), (.M, .ok), (.M, .ok), (.M, .ok), (.F, .ok), (.M, .ok),
   (.M, .ok), (.U 0, .ok), (.U 0, .ok)]

example : cfgDC.dynPool = true ∧ cfgDC.oneCreate = true := by decide
/-- the one crash step of the schedule hits worker 100 inside the body of task 0 (`lockFree`), while worker 101, whose
    `get` timed out, is sending its exit announcement -/
example : (run (init cfgDC) (schedDC.take 42)).map (fun s => (s.w 100, s.w 101, lockFree (s.w 100))) =
    some (.task 0 0, .xSend, true) := by decide +kernel
example : (schedDC.filter fun av => av.2 == Variant.crash) = [(.W 100, .crash)] ∧ schedDC[42]? = some (.W 100, .crash) := by
  decide
/-- right after the death: phase 2 (a zombie) -/
example : (run (init cfgDC) (schedDC.take 43)).map (fun s => (zombie s, phase2 s)) = some (true, true) := by decide +kernel
/-- the run ends quiescent and — as the theorem says — good: the pool is flagged broken, both futures carry
    `TerminatedWorkerError`, the script (with its `shutdown(wait=True)`) has finished; worker 100 was killed by the crash
    (-9), worker 101 left through the clean handshake (0) -/
example : (run (init cfgDC) schedDC).map (fun s => ((enabledNC s).isEmpty, good s, mgmtOrphan s, s.broken)) =
    some (true, true, false, some .terminated) := by decide +kernel
example : (run (init cfgDC) schedDC).map (fun s => (s.futs, s.allPids, s.exitCode 100, s.exitCode 101)) =
    some ([.excTerminated, .excTerminated], [100, 101], some (-9), some 0) := by decide +kernel

/-! ### the excluded case is reachable: D5 by the manager's own SIGKILL -/

def schedDC5 : List (Actor × Variant) :=
  [(.U 0, .ok), (.U 0, .ok), (.U 0, .ok), (.U 0, .ok), (.U 0, .ok), (.U 0, .ok), (.U 0, .ok), (.U 0, .ok), (.W 100, .ok),
   (.W 100, .ok), (.U 0, .ok), (.W 100, .timeout), (.W 100, .ok), (.W 101, .ok), (.U 0, .ok), (.W 100, .fail),
   (.W 100, .ok), (.M, .ok), (.W 101, .timeout), (.W 101, .fail), (.W 101, .timeout), (.M, .ok), (.U 0, .ok), (.M, .ok),
   (.U 0, .ok), (.F, .ok), (.F, .ok), (.F, .ok), (.W 100, .ok), (.W 100, .ok), (.U 0, .ok), (.W 101, .ok), (.M, .ok),
   (.U 0, .ok), (.F, .ok), (.U 0, .ok), (.W 100, .ok), (.M, .ok), (.W 100, .ok), (.W 100, .crash), (.M, .ok), (.U 0, .ok),
   (.M, .fail), (.M, .ok), (.M, .fail), (.U 0, .ok), (.M, .ok), (.M, .ok), (.M, .ok), (.U 0, .ok), (.U 0, .ok),
   (.U 0, .ok), (.U 0, .ok), (.M, .ok), (.M, .ok), (.U 0, .ok), (.U 0, .ok), (.U 0, .ok), (.M, .ok), (.U 0, .ok),
   (.U 0, .ok)]

/-- **D5, manager-kill form** (witness, same configuration): worker 100 dies inside a task body (the only crash step, at
    a `lockFree` point); worker 101, idle, has just taken the management lock non-blocking; the manager flags the pool
    broken and SIGKILLs 101 inside that window; `join_executor_internals` then blocks on the lock for ever and
    `shutdown(wait=True)` never returns.  The run is a `ReachableLF` run of a dynamic pool: only `mgmtOrphan` tells it
    apart. -/
theorem C07_crash_D5_kill_witness :
    (run (init cfgDC) schedDC5).map (fun s => (stuckBad s, mgmtOrphan s, s.mpc, s.oMgmt, s.mgmt)) =
      some (true, true, .jAcq1, some (.W 101), 0) := by decide +kernel
example : (schedDC5.filter fun av => av.2 == Variant.crash) = [(.W 100, .crash)] := by decide
example : (run (init cfgDC) (schedDC5.take 39)).map (fun s => (s.w 100, lockFree (s.w 100))) = some (.task 0 0, true) := by
  decide +kernel

end LokyModel.Exec
