import LokyModel.Reusable
/-!
# C10 — resizing preserves surviving workers and terminates

Theorems over the `_resize` plan of `LokyModel.Reusable` (a started, healthy executor, no time-out or
death during the call) and over its final wait.  "Every task submitted before the resize still completes"
is enforced in the code by waiting for `_pending_work_items` to drain *before* anything else is done
(checked on the real code by E1: the reuse family resizes with work in flight); termination when workers
time out or die during the call is the fixed defect D6 below and otherwise part of C01.
-/
namespace LokyModel.Reusable

/-- The call returns with exactly the requested number of workers. -/
theorem C10_size_at_return (alive new : Nat) : sizeAfter alive new = new := by
  unfold sizeAfter survivors resizePlan; simp only []; omega

/-- `min(old, new)` of the previous workers are kept — never restarted. -/
theorem C10_survivors (alive new : Nat) : survivors alive new = min alive new := by
  unfold survivors resizePlan; simp only []; omega

/-- growing never stops a worker; shrinking never starts one -/
theorem C10_grow_keeps_all (alive new : Nat) (h : alive ≤ new) :
    (resizePlan alive new).sentinels = 0 ∧ (resizePlan alive new).spawns = new - alive := by
  simp only [resizePlan]; constructor <;> omega

theorem C10_shrink_spawns_none (alive new : Nat) (h : new ≤ alive) :
    (resizePlan alive new).spawns = 0 ∧ (resizePlan alive new).sentinels = alive - new := by
  refine ⟨?_, rfl⟩
  show new - (alive - (alive - new)) = 0
  omega

/-- The final wait is left as soon as every *currently registered* worker is alive, or the executor is
    flagged broken or shut down. -/
theorem C10_final_wait_exits (b sd : Bool) (reg : List Bool) :
    finalWaitDone b sd reg = true ↔ (b = true ∨ sd = true ∨ ∀ x ∈ reg, x = true) := by
  unfold finalWaitDone; simp [Bool.or_eq_true, or_assoc]

/-- In particular a worker that left during the call (idle time-out, announced, un-registered by the
    manager) no longer holds the caller back … -/
theorem C10_departed_worker_does_not_block (b sd : Bool) (reg : List Bool) :
    finalWaitDone b sd (reg.filter id) = true := by
  unfold finalWaitDone; simp

/-- … whereas the loop this replaced (defect D6, fixed in /repo) examined a *snapshot* taken before the
    wait: once a snapshotted worker had exited it could never be left again, whatever happened to the
    registry afterwards. -/
def oldFinalWaitDone (snapshotAlive : List Bool) : Bool := snapshotAlive.all id

theorem C10_old_loop_spins (snapshot : List Bool) (h : false ∈ snapshot) : oldFinalWaitDone snapshot = false := by
  unfold oldFinalWaitDone
  cases hc : snapshot.all id with
  | false => rfl
  | true => rw [List.all_eq_true] at hc; exact absurd (hc false h) (by simp)

example : sizeAfter 3 5 = 5 ∧ survivors 3 5 = 3 ∧ sizeAfter 4 1 = 1 ∧ survivors 4 1 = 1 := by decide

end LokyModel.Reusable
