import LokyModel.Reusable
/-!
# C09 — `get_reusable_executor` returns a live, correctly configured singleton

Theorems over the decision model `LokyModel.Reusable` for arbitrary histories of calls interleaved with
breakages, explicit shutdowns and starts.  The whole body of the real function runs under one re-entrant
lock, so concurrent callers are some sequential order of calls (linearisation is checked on the real
code by E1 with 1–2 caller threads); that the inner `shutdown(wait=True)` returns is C01.
-/
namespace LokyModel.Reusable

/-- The returned executor is never one that was broken or shut down when the call began. -/
theorem C09_not_dead_at_begin (s : St) (a : Args) (r : Action) (s' : St) (h : getReusable s a = (r, s'))
    (hr : r ≠ .valueError) : ∃ e, s'.exec = some e ∧ e.broken = false ∧ e.shutdown = false := by
  unfold getReusable at h
  cases hw : wantedMax s a with
  | none => simp [hw] at h; exact absurd h.1.symm hr
  | some mw =>
    simp only [hw] at h
    cases he : s.exec with
    | none => simp [he, fresh] at h; obtain ⟨_, rfl⟩ := h; exact ⟨_, rfl, rfl, rfl⟩
    | some e =>
      simp only [he] at h
      split at h
      · simp [fresh] at h; obtain ⟨_, rfl⟩ := h; exact ⟨_, rfl, rfl, rfl⟩
      · rename_i hc
        simp at h; obtain ⟨_, rfl⟩ := h
        simp at hc
        exact ⟨_, rfl, hc.1.1, hc.1.2⟩

/-- Identity rule: the previous instance is returned iff it is healthy and reuse allows it
    (`reuse=True`, or `reuse='auto'` with unchanged arguments). -/
theorem C09_identity_iff (s : St) (a : Args) (e : Exec) (mw : Nat) (he : s.exec = some e)
    (hw : wantedMax s a = some mw) :
    (∃ s', getReusable s a = (.reused e.id e.maxWorkers mw, s')) ↔
      (e.broken = false ∧ e.shutdown = false ∧ allowed e a = true) := by
  unfold getReusable
  simp only [hw, he]
  constructor
  · rintro ⟨s', h⟩
    split at h
    · simp [fresh] at h
    · rename_i hc; simp at hc; exact ⟨hc.1.1, hc.1.2, hc.2⟩
  · rintro ⟨h1, h2, h3⟩
    simp [h1, h2, h3]

/-- Otherwise the previous instance is shut down (with the requested `kill_workers`) before a fresh one,
    built from the new arguments and carrying a strictly larger id, is returned. -/
theorem C09_replaced_otherwise (s : St) (a : Args) (e : Exec) (mw : Nat) (he : s.exec = some e)
    (hw : wantedMax s a = some mw) (hid : e.id < s.nextId)
    (hbad : e.broken = true ∨ e.shutdown = true ∨ allowed e a = false) :
    ∃ s' e', getReusable s a = (.replaced e.id a.killWorkers e'.id, s') ∧ s'.exec = some e' ∧
      e'.id > e.id ∧ e'.maxWorkers = mw ∧ e'.kwargs = a.kwargs ∧ e'.broken = false ∧ e'.shutdown = false := by
  unfold getReusable
  simp only [hw, he]
  have : (e.broken || e.shutdown || !allowed e a) = true := by
    rcases hbad with h | h | h <;> simp [h]
  simp only [this, if_true, fresh]
  exact ⟨_, { id := s.nextId, maxWorkers := mw, kwargs := a.kwargs }, rfl, rfl, hid, rfl, rfl, rfl, rfl⟩

/-- The returned executor has the requested size. -/
theorem C09_size (s : St) (a : Args) (r : Action) (s' : St) (mw : Nat) (h : getReusable s a = (r, s'))
    (hw : wantedMax s a = some mw) : ∃ e, s'.exec = some e ∧ e.maxWorkers = mw := by
  unfold getReusable at h
  simp only [hw] at h
  cases he : s.exec with
  | none => simp [he, fresh] at h; obtain ⟨_, rfl⟩ := h; exact ⟨_, rfl, rfl⟩
  | some e =>
    simp only [he] at h
    split at h
    · simp [fresh] at h; obtain ⟨_, rfl⟩ := h; exact ⟨_, rfl, rfl⟩
    · simp at h; obtain ⟨_, rfl⟩ := h; exact ⟨_, rfl, rfl⟩

/-- a non-positive `max_workers` is rejected and changes nothing -/
theorem C09_value_error (s : St) (a : Args) (h : a.maxWorkers = some 0) : getReusable s a = (.valueError, s) := by
  simp [getReusable, wantedMax, h]

/-- invariant of histories: the current executor's id is below the next id -/
def Wf (s : St) : Prop := ∀ e, s.exec = some e → e.id < s.nextId

theorem wf_step (s : St) (ev : Ev) (h : Wf s) : Wf (stepEv s ev).2 := by
  cases ev with
  | call a =>
    simp only [stepEv]
    unfold getReusable
    cases hw : wantedMax s a with
    | none => simpa using h
    | some mw =>
      simp only []
      cases he : s.exec with
      | none => intro e' h'; simp [fresh] at h'; subst h'; simp [fresh]
      | some e =>
        simp only []
        split
        · intro e' h'; simp [fresh] at h'; subst h'; simp [fresh]
        · intro e' h'; simp at h'; subst h'; exact h e he
  | breakIt => intro e' h'; simp [stepEv] at h'; obtain ⟨e, he, rfl⟩ := h'; exact h e he
  | shutIt => intro e' h'; simp [stepEv] at h'; obtain ⟨e, he, rfl⟩ := h'; exact h e he
  | start ps => intro e' h'; simp [stepEv] at h'; obtain ⟨e, he, rfl⟩ := h'; exact h e he

theorem nextId_mono (s : St) (ev : Ev) : s.nextId ≤ (stepEv s ev).2.nextId := by
  cases ev with
  | call a =>
    simp only [stepEv]; unfold getReusable
    cases wantedMax s a with
    | none => simp
    | some mw =>
      simp only []
      cases s.exec with
      | none => simp [fresh]
      | some e => simp only []; split <;> simp [fresh]
  | _ => simp [stepEv]

/-- Ids are issued strictly increasingly over any history: every id handed out by a later creation or
    replacement is larger than every id handed out before. -/
theorem C09_id_strict_mono (evs : List Ev) (s : St) (h : Wf s) :
    ∀ a ∈ (runEvs s evs).1, match a with
      | .created i => s.nextId ≤ i
      | .replaced _ _ i => s.nextId ≤ i
      | _ => True := by
  induction evs generalizing s with
  | nil => simp [runEvs]
  | cons ev rest ih =>
    intro a ha
    simp only [runEvs] at ha
    have hwf := wf_step s ev h
    have hmono := nextId_mono s ev
    have hrest := ih (stepEv s ev).2 hwf
    cases hr : (stepEv s ev).1 with
    | none =>
      simp only [hr] at ha
      have := hrest a ha
      cases a <;> simp_all <;> omega
    | some r =>
      simp only [hr, List.mem_cons] at ha
      rcases ha with rfl | ha
      · -- the action of this very step
        cases ev with
        | call args =>
          simp only [stepEv] at hr
          unfold getReusable at hr
          cases hw : wantedMax s args with
          | none => simp [hw] at hr; subst hr; trivial
          | some mw =>
            simp only [hw] at hr
            cases he : s.exec with
            | none => simp [he, fresh] at hr; subst hr; simp
            | some e =>
              simp only [he] at hr
              split at hr
              · simp [fresh] at hr; subst hr; simp
              · simp at hr; subst hr; trivial
        | breakIt => simp [stepEv] at hr
        | shutIt => simp [stepEv] at hr
        | start ps => simp [stepEv] at hr
      · have := hrest a ha
        cases a <;> simp_all <;> omega

/-! non-vacuity -/
example : (runEvs {} [.call ⟨some 2, 7, .auto, false⟩, .call ⟨some 3, 7, .auto, false⟩, .breakIt,
                      .call ⟨some 3, 7, .auto, false⟩, .call ⟨some 3, 8, .auto, true⟩]).1
    = [.created 0, .reused 0 2 3, .replaced 0 false 1, .replaced 1 true 2] := by decide

end LokyModel.Reusable

namespace LokyModel.Reusable

/-- **A fresh instance is built from the arguments of the call that creates it** (first creation and replacement alike,
    whatever `reuse` says and whatever the previous instance was built from), and that is what the module remembers. -/
theorem C09_fresh_built_from_call (s : St) (a : Args) (r : Action) (s' : St) (h : getReusable s a = (r, s'))
    (hfresh : match r with | .created _ => True | .replaced _ _ _ => True | _ => False) :
    ∃ e, s'.exec = some e ∧ e.kwargs = a.kwargs ∧ e.started = false ∧ e.pids = [] := by
  unfold getReusable at h
  cases hw : wantedMax s a with
  | none => simp [hw] at h; obtain ⟨rfl, _⟩ := h; simp at hfresh
  | some mw =>
    simp only [hw] at h
    cases he : s.exec with
    | none => simp [he, fresh] at h; obtain ⟨_, rfl⟩ := h; exact ⟨_, rfl, rfl, rfl, rfl⟩
    | some e =>
      simp only [he] at h
      split at h
      · simp [fresh] at h; obtain ⟨_, rfl⟩ := h; exact ⟨_, rfl, rfl, rfl, rfl⟩
      · simp at h; obtain ⟨rfl, _⟩ := h; simp at hfresh

/-- A reused instance keeps the configuration it was built with: `reuse=True` with different arguments resizes the live
    instance and changes nothing else. -/
theorem C09_reuse_keeps_configuration (s : St) (a : Args) (e : Exec) (i o n : Nat) (s' : St) (he : s.exec = some e)
    (h : getReusable s a = (.reused i o n, s')) :
    ∃ e', s'.exec = some e' ∧ e'.id = e.id ∧ e'.kwargs = e.kwargs ∧ e'.pids = e.pids := by
  unfold getReusable at h
  cases hw : wantedMax s a with
  | none => simp [hw] at h
  | some mw =>
    simp only [hw, he] at h
    split at h
    · simp [fresh] at h
    · simp at h; obtain ⟨_, rfl⟩ := h; exact ⟨_, rfl, rfl, rfl, rfl⟩

/-- non-vacuity: `reuse=True` with changed arguments on a broken instance replaces it by one built from the new arguments -/
example : (getReusable { exec := some { id := 0, maxWorkers := 2, kwargs := 1, broken := true, shutdown := true }, nextId := 1 }
            { maxWorkers := none, kwargs := 2, reuse := .yes }).2.exec.map (·.kwargs) = some 2 := by decide

end LokyModel.Reusable
