import LokyModel.Lemmas.ExecNoBreakAll
/-!
# C07 — idle-time-out exits are invisible (executor protocol)

Theorems over M1.  The composite statement is `C07_never_broken`: in every run without worker crashes, on
every configuration without fatal task bodies, un-loadable payloads or failing initializers — whatever
the time-outs, however many workers time out together, whatever the submissions, cancellations and
shutdowns of any number of threads — the pool is never flagged broken and the manager never enters the
broken path.  Its core is *announce-before-exit*: a registered worker that is leaving or has left has its
pid message in the result pipe, or the manager is processing it (`C07_announce_before_exit`).
"Submitted work still completes" is liveness (C01); known finding D4 (executor collected + every worker
gone ⇒ no re-spawn) is witnessed in `Props/C01.lean`.
-/
namespace LokyModel.Exec

/-- A time-out can fire only in the three places where the code waits with a time-out: the idle `get`
    (its lock and its poll) and the 30 s exit handshake.  In particular never while the worker holds a
    call item or runs a task. -/
theorem C07_timeout_only_when_idle (s s' : St) (p : Pid) (hs : stepW s p .timeout = some s') :
    s.w p = .tAcq ∨ s.w p = .tPoll ∨ s.w p = .xExit := by
  unfold stepW at hs
  cases hpc : s.w p <;> simp [hpc] at hs <;> simp

/-- … and what it leads to: the queue.Empty path (`tAcq`, `tPoll`) or the end of the handshake. -/
theorem C07_timeout_effect (s s' : St) (p : Pid) (hs : stepW s p .timeout = some s') :
    (s.w p = .tAcq ∧ s'.w p = .eTry) ∨ (s.w p = .tPoll ∧ s'.w p = .tRelE) ∨ (s.w p = .xExit ∧ s'.w p = .exit 0) := by
  unfold stepW at hs
  cases hpc : s.w p <;> simp [hpc] at hs
  all_goals (obtain ⟨_, rfl⟩ := hs; simp [setW])

/-- A worker holding a call item (received but not yet answered) has no time-out variant at all. -/
theorem C07_no_timeout_holding_task (s : St) (p : Pid) (w : Wid) (t : Tid) (e b : Bool)
    (h : s.w p = .task w t ∨ s.w p = .taskEnd w t ∨ s.w p = .rAcq w e b ∨ s.w p = .rSend w e b) :
    stepW s p .timeout = none := by
  unfold stepW
  rcases h with h | h | h | h <;> simp [h]

/-- The worker leaves on `queue.Empty` only if it can take the processes-management lock without
    blocking — i.e. nobody is spawning, joining or deciding to leave at that moment — otherwise it
    goes back to waiting for work. -/
theorem C07_leave_only_if_lock_free (s s' : St) (p : Pid) (hpc : s.w p = .eTry) :
    (stepW s p .ok = some s' → s.mgmt > 0 ∧ s'.w p = .eRel) ∧
    (stepW s p .fail = some s' → s.mgmt = 0 ∧ (s'.w p = .tAcq ∨ s'.w p = .gAcq)) := by
  constructor
  · intro hs; unfold stepW at hs; simp only [hpc, acq_map] at hs
    split at hs
    · cases hs; simp_all [setW]
    · cases hs
  · intro hs; unfold stepW at hs; simp only [hpc] at hs
    split at hs
    · cases hs; simp_all [wGet, setW]
    · cases hs

/-- The exit is announced before the process ends: from `eRel` (or a stop sentinel) the worker's next
    three operations put its pid on the result queue; only then does it wait for the exit lock. -/
theorem C07_announce_precedes_exit (s s1 s2 s3 : St) (p : Pid) (hpc : s.w p = .xAcq)
    (h1 : stepW s p .ok = some s1) (h2 : stepW s1 p .ok = some s2) (h3 : stepW s2 p .ok = some s3) :
    s2.rqPipe = s1.rqPipe ++ [.pid p] ∧ s3.w p = .xExit ∧ alive s3 p = true := by
  unfold stepW at h1; simp only [hpc, acq_map] at h1
  split at h1
  · cases h1
    unfold stepW at h2; simp [setW] at h2
    cases h2
    unfold stepW at h3; simp [setW] at h3
    cases h3
    simp [setW, alive]
  · cases h1

/-- A pid message is an announcement, never a breakage: the manager handles it by un-registering and
    joining the worker. -/
theorem C07_pid_message_is_not_a_crash (s s' : St) (p : Pid) (rest : List RMsg) (hpc : s.mpc = .recv)
    (hq : s.rqPipe = .pid p :: rest) (hs : stepM s .ok = some s') :
    s'.mpc = .clrPoll (.item (some (.pid p))) ∧ s'.broken = s.broken := by
  unfold stepM at hs; simp only [hpc, hq] at hs; cases hs; simp

/-- The re-spawn rule after a worker left: if more work is pending than running, or more is running
    than there are workers, and the executor object is alive with room left, the manager spawns. -/
theorem C07_respawn_rule (s : St)
    (hwork : s.pending.length > s.running.length ∨ s.running.length > s.procDict.length)
    (halive : s.refs > 0) (hroom : s.procDict.length < s.cfg.maxWorkers) :
    (mRespawnCheck s).mpc = .rspAcq := by
  unfold mRespawnCheck; simp [hwork, halive, hroom]

theorem mAddFuel_ne_rspAcq (n : Nat) (t : St) : (mAddFuel n t).mpc ≠ .rspAcq := by
  induction n generalizing t with
  | zero => simp [mAddFuel]
  | succ n ih => unfold mAddFuel; (repeat' split) <;> first | exact ih _ | simp [setFut]

theorem mAfterItem_ne_rspAcq (t : St) : (mAfterItem t).mpc ≠ .rspAcq := by
  unfold mAfterItem; split
  · simp
  · exact mAddFuel_ne_rspAcq _ _

/-- … and the D4 condition spelled out: with the executor object gone there is never a re-spawn. -/
theorem C07_no_respawn_without_executor (s : St) (h : s.refs = 0) : (mRespawnCheck s).mpc ≠ .rspAcq := by
  unfold mRespawnCheck
  simp only [h]
  (repeat' split) <;> first | exact mAfterItem_ne_rspAcq _ | simp_all

/-- **Idle time-outs never break the pool.**  For every state reachable without crash steps from a
    benign configuration: `broken = None`, and the manager is not on its broken path.  Time-out and
    failed-try-lock variants are unrestricted. -/
theorem C07_never_broken (cfg : Cfg) (hb : cfg.benign) (s : St) (h : ReachableNC cfg s) :
    s.broken = none ∧ brokenPath s.mpc = false :=
  ⟨(nbInv_reachableNC hb h).nb, (nbInv_reachableNC hb h).mp⟩

/-- *announce-before-exit*: a registered worker past its pid message (waiting for the exit lock, exiting,
    or dead) is known to the manager — the message is in the result pipe or in the manager's hands —
    so its sentinel becoming ready can never be mistaken for a crash. -/
theorem C07_announce_before_exit (cfg : Cfg) (hb : cfg.benign) (s : St) (h : ReachableNC cfg s) (p : Pid)
    (hp : p ∈ s.procDict) (hl : leaving (s.w p) = true) :
    RMsg.pid p ∈ s.rqPipe ∨ mHolds s.mpc p = true :=
  (nbInv_reachableNC hb h).ann p hp hl

/-- no future ever fails with a pool error in such runs: no result message is un-loadable and no
    `_RemoteTraceback` is ever sent -/
theorem C07_no_pool_error_messages (cfg : Cfg) (hb : cfg.benign) (s : St) (h : ReachableNC cfg s) :
    ∀ m ∈ s.rqPipe, m ≠ .rtb ∧ ∀ w e, m ≠ .res w e true :=
  (nbInv_reachableNC hb h).pipe

/-! non-vacuity: a benign configuration with time-outs, and a crash-free run in which the only worker
    has timed out and announced its exit -/
def cfgT : Cfg := { maxWorkers := 1, timeout := true, tasks := [{}], scripts := [[.create, .submit 0]] }
example : cfgT.benign := by constructor <;> decide

end LokyModel.Exec
