import LokyModel.Props.C03Map
/-!
# C03 (part "map", fourth session) — what a caller can rely on *without* knowing the chunk size

Corollaries of `map_rows_eq_builtin`, stated at the level of the property text
("unaffected by the chunk size and by the combination of iterable lengths"):

* the chunk size is unobservable on a run that does not raise (`map_chunksize_irrelevant`,
  `map_chunksize_irrelevant_of_no_raise`);
* on a run that raises, every chunk size reports the **same** exception and yields a **prefix**
  of what the builtin `map` yields (`map_raises_same_exception`, `map_yields_prefix`), the whole
  of it when `c = 1` (`map_chunksize_one_exact`) and nothing when one chunk holds everything
  (`map_single_chunk_all_or_nothing`); fewer than `c` items are lost (`map_loses_lt_chunksize`);
* the number of items is the length of the shortest iterable (`map_yield_count`).
-/
namespace LokyModel.Chunks

/-- the items a `MapResult` yields / the exception it ends with (`valueError`: nothing, none) -/
def MapResult.items : MapResult ε β → List β
  | .valueError => []
  | .result ys _ => ys
def MapResult.exc : MapResult ε β → Option ε
  | .valueError => none
  | .result _ e => e

/-- two legal chunk sizes are indistinguishable for a function that does not raise, whatever the
    number and the lengths of the iterables -/
theorem map_chunksize_irrelevant (c c' : Int) (hc : 1 ≤ c) (hc' : 1 ≤ c') (f : List α → β)
    (ls : List (List α)) :
    map (ε := ε) c (fun r => .ok (f r)) ls = map (ε := ε) c' (fun r => .ok (f r)) ls := by
  rw [map_eq c hc, map_eq c' hc']

/-- the same for a function that may raise but does not on this input -/
theorem map_chunksize_irrelevant_of_no_raise (c c' : Int) (hc : 1 ≤ c) (hc' : 1 ≤ c')
    (fn : ρ → Except ε β) (rows : List ρ) (h : (builtinMap fn rows).2 = none) :
    mapRows c fn rows = mapRows c' fn rows := by
  rw [map_eq_of_no_raise c hc fn rows h, map_eq_of_no_raise c' hc' fn rows h]

/-- whatever the chunk size, `executor.map` ends the way the builtin `map` ends: exhausted, or
    with the very exception the builtin `map` raises -/
theorem map_raises_same_exception (c : Int) (hc : 1 ≤ c) (fn : ρ → Except ε β) (rows : List ρ) :
    (mapRows c fn rows).exc = (builtinMap fn rows).2 := by
  rw [map_rows_eq_builtin c hc]
  rcases builtinMap fn rows with ⟨vs, _ | e⟩ <;> rfl

/-- whatever the chunk size, the items yielded are a prefix of the builtin `map`'s items: nothing
    is reordered, duplicated or invented, raising or not -/
theorem map_yields_prefix (c : Int) (hc : 1 ≤ c) (fn : ρ → Except ε β) (rows : List ρ) :
    (mapRows c fn rows).items <+: (builtinMap fn rows).1 := by
  rw [map_rows_eq_builtin c hc]
  rcases builtinMap fn rows with ⟨vs, _ | e⟩
  · exact List.prefix_refl _
  · exact List.take_prefix _ _

/-- the items withheld on a raising run are those of the failing chunk only: fewer than `c` -/
theorem map_loses_lt_chunksize (c : Int) (hc : 1 ≤ c) (fn : ρ → Except ε β) (rows : List ρ) :
    (builtinMap fn rows).1.length < (mapRows c fn rows).items.length + c.toNat := by
  have hc' : 0 < c.toNat := by omega
  rw [map_rows_eq_builtin c hc]
  rcases builtinMap fn rows with ⟨vs, _ | e⟩
  · simp only [MapResult.items]; omega
  · simp only [MapResult.items, List.length_take]
    have h1 := Nat.div_add_mod vs.length c.toNat
    have h2 := Nat.mod_lt vs.length hc'
    have h3 : vs.length / c.toNat * c.toNat = c.toNat * (vs.length / c.toNat) := Nat.mul_comm _ _
    omega

/-- `chunksize = 1` is exactly the builtin `map`, raising runs included -/
theorem map_chunksize_one_exact (fn : ρ → Except ε β) (rows : List ρ) :
    mapRows 1 fn rows = .result (builtinMap fn rows).1 (builtinMap fn rows).2 := by
  rw [map_rows_eq_builtin 1 (by decide)]
  rcases builtinMap fn rows with ⟨vs, _ | e⟩
  · rfl
  · simp

/-- one chunk holding every row: all the items or, if any call raises, none of them -/
theorem map_single_chunk_all_or_nothing (c : Int) (hc : 1 ≤ c) (fn : ρ → Except ε β)
    (rows : List ρ) (hbig : rows.length ≤ c.toNat) (e : ε) (h : (builtinMap fn rows).2 = some e) :
    mapRows c fn rows = .result [] (some e) := by
  have hlt := builtinMap_length_of_some fn rows e h
  rw [map_rows_eq_builtin c hc]
  rcases hb : builtinMap fn rows with ⟨vs, _ | e'⟩
  · rw [hb] at h; simp at h
  · rw [hb] at h hlt
    simp only [Option.some.injEq] at h
    subst h
    have : vs.length / c.toNat = 0 := Nat.div_eq_of_lt (by simp only at hlt; omega)
    simp [this]

/-- a non-raising `map` over iterables of unequal lengths yields exactly as many items as the
    shortest iterable has (stated as: `n ≤ count ↔ every iterable has at least n items`) -/
theorem map_yield_count (c : Int) (hc : 1 ≤ c) (f : List α → β) (ls : List (List α))
    (hne : ls ≠ []) (n : Nat) :
    n ≤ (map (ε := ε) c (fun r => .ok (f r)) ls).items.length ↔ ∀ l ∈ ls, n ≤ l.length := by
  rw [map_eq c hc]
  simp only [MapResult.items, List.length_map]
  exact zipAll_length ls hne n

/-- an illegal chunk size yields nothing and raises nothing *through the iterator* (the call
    itself raised `ValueError`, `valueError_iff`) -/
theorem map_illegal_chunksize_yields_nothing (c : Int) (hc : c < 1) (fn : ρ → Except ε β)
    (rows : List ρ) : (mapRows c fn rows).items = [] ∧ (mapRows c fn rows).exc = none := by
  rw [chunksize_lt_one_rejected c hc]; exact ⟨rfl, rfl⟩

/-! ## non-vacuity -/

/-- a raising run on which the chunk size *is* observable (so the hypotheses of the
    "irrelevant" theorems cannot be dropped): item 3 raises; c = 1 yields 2 items, c = 2 yields
    2, c = 3 yields none -/
def raiseAt3 (x : Nat) : Except String Nat := if x = 3 then .error "boom" else .ok (x * 10)

example : mapRows 1 raiseAt3 [1, 2, 3, 4] = .result [10, 20] (some "boom") := by
  simp [mapRows, getChunks, processChunk, chain, drainElement, popAll, raiseAt3]
example : mapRows 3 raiseAt3 [1, 2, 3, 4] = .result [] (some "boom") := by
  simp [mapRows, getChunks, processChunk, chain, raiseAt3]
example : (builtinMap raiseAt3 [1, 2, 3, 4]) = ([10, 20], some "boom") := by
  simp [builtinMap, raiseAt3]
example : ([1, 2, 3, 4] : List Nat).length ≤ (4 : Int).toNat := by decide

end LokyModel.Chunks
