import LokyModel.Props.C10
/-!
# C10 (fourth session) — the resize plan is minimal, and sequences of resizes

* `C10_plan_never_both`: a resize never both stops and starts workers;
* `C10_plan_noop`: the same size stops and starts nobody;
* `C10_plan_minimal`: any plan that keeps `k` old workers and reaches the requested size spawns at least as many
  workers as the real plan and keeps no more of the old ones than there were — the real plan restarts nothing;
* `C10_resize_sequence`: after any non-empty sequence of resizes the pool has the size of the *last* request,
  whatever the sizes in between (also through 0 → grow again);
* `C10_total_churn`: along a sequence, workers started − workers stopped = final size − initial size.
-/
namespace LokyModel.Reusable

theorem C10_plan_never_both (alive new : Nat) :
    (resizePlan alive new).sentinels = 0 ∨ (resizePlan alive new).spawns = 0 := by
  simp only [resizePlan]; omega

theorem C10_plan_noop (n : Nat) : resizePlan n n = { sentinels := 0, spawns := 0 } := by
  simp only [resizePlan]
  congr 1 <;> omega

/-- among all ways to reach `new` workers by keeping `k ≤ alive` old ones and spawning `sp`, the plan keeps the most
    and spawns the fewest -/
theorem C10_plan_minimal (alive new k sp : Nat) (hk : k ≤ alive) (hk' : k ≤ new) (hsz : k + sp = new) :
    k ≤ survivors alive new ∧ (resizePlan alive new).spawns ≤ sp := by
  unfold survivors; simp only [resizePlan]; omega

/-- the size after a sequence of resize requests, each planned from the size the previous one left -/
def resizeSeq (alive : Nat) : List Nat → Nat
  | [] => alive
  | n :: rest => resizeSeq (sizeAfter alive n) rest

theorem C10_resize_sequence (alive : Nat) (reqs : List Nat) (hne : reqs ≠ []) :
    resizeSeq alive reqs = reqs.getLast hne := by
  induction reqs generalizing alive with
  | nil => exact absurd rfl hne
  | cons n rest ih =>
    cases rest with
    | nil => simp [resizeSeq, C10_size_at_return]
    | cons m rest' =>
      simp only [resizeSeq] at ih ⊢
      rw [List.getLast_cons (by simp)]
      exact ih _ (by simp)

/-- (workers started, workers stopped) summed over a sequence of resizes -/
def churn (alive : Nat) : List Nat → Nat × Nat
  | [] => (0, 0)
  | n :: rest =>
    let p := resizePlan alive n
    let r := churn (sizeAfter alive n) rest
    (p.spawns + r.1, p.sentinels + r.2)

theorem C10_total_churn (alive : Nat) (reqs : List Nat) :
    alive + (churn alive reqs).1 = resizeSeq alive reqs + (churn alive reqs).2 := by
  induction reqs generalizing alive with
  | nil => simp [churn, resizeSeq]
  | cons n rest ih =>
    simp only [churn, resizeSeq]
    have h := ih (sizeAfter alive n)
    have hs := C10_size_at_return alive n
    rw [hs] at h ⊢
    simp only [resizePlan]
    omega

example : resizeSeq 4 [2, 0, 7, 3] = 3 := by decide
example : churn 4 [2, 0, 7, 3] = (7, 8) := by decide

end LokyModel.Reusable
