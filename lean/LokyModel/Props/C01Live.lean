import LokyModel.Lemmas.ExecLiveAll
import LokyModel.Props.C01
/-!
# C01 — deadlock freedom of static pools (the liveness half of C01, for the configurations in which it is true)

`Props/C01.lean` proves, by kernel evaluation of concrete schedules, that the full property is false of the model (and of
the code): D4, D5, D7 are reachable states in which nothing can move while something is left undone.  This file proves
that for **static pools** no such state exists, whatever the schedule:

* *static pool* (`Cfg.staticPool`, executable): no idle time-out, no memory-leak exit, no failing initializer, no task
  whose body kills its worker or whose payload fails to un-pickle, no `shutdown(kill_workers=True)`, `max_workers ≥ 1`.
  Everything else is arbitrary: number of workers, tasks, user threads and their scripts (`submit`, `cancel`,
  `shutdown(wait=True/False)`, dropping the last reference, interpreter exit, idling), raising tasks, unpicklable and
  oversized arguments, an initializer, every interleaving of every actor.
* runs *without crash steps* (`ReachableNC`): no worker dies other than through loky's own exit handshake.

The excluded configurations are exactly where the listed findings live (time-out + dropped executor: D4; a death while a
lock is held: D5, D7) plus worker respawn, whose liveness is still decided by the E1 oracle only.

What is proved in this file is deadlock freedom — no reachable quiescent state is a bad one.  Termination (no crash-free
run of a static pool is infinite, with an explicit bound, under ANY scheduler) is `Props/C01Term.lean`; together: every
maximal crash-free run ends, after at most `mu (init cfg)` steps, in a good state.  (The `queue.Full` back-off of
`shutdown_workers` can end the manager thread with an exception; that state is not a bad one either: every future is
resolved and every call returns.)
-/
namespace LokyModel.Exec

/-- **C01, static pools: a quiescent state is a good one.**  In every state that a static pool reaches without crash
    steps, if no actor has an enabled step (other than a crash), then every future is resolved and every user thread has
    finished its script — in particular every `shutdown(wait=True)` and every interpreter-exit hook has returned. -/
theorem C01_static_pool_no_deadlock (cfg : Cfg) (hc : cfg.staticPool = true) (s : St) (h : ReachableNC cfg s)
    (hq : enabledNC s = []) : good s = true := by
  have hr := h.reachable
  have L := liveInv_reachableNC hc h
  have hcfg := cfg_reachable hr
  have hmw : 0 < s.cfg.maxWorkers := by
    rw [hcfg]
    unfold Cfg.staticPool at hc
    simp only [Bool.and_eq_true, decide_eq_true_eq] at hc
    exact hc.1.1.2
  refine stuck_good s (pidsInv_reachable hr) (flagInv_reachable hr) (slotOk_of_slotOk' s L.slot)
    (holderOk_of_ok'' L.holder) (staticOk_of_inv L.static) (wakeOk_of_wakeOk' s L.wake) (consOk_of_consOk' s L.cons)
    (joinOk_of_joinOk' s L.join) ?_ ?_ hmw hq
  · intro i hi hd
    apply Decidable.byContradiction
    intro hm
    have := (futInv_reachable hr).resolved i hi hm
    rw [hd] at this; cases this
  · intro k hk
    exact (shutInv_reachable hr).acc k (by simp [accU, hk])

/-- `anyEnabled` (the predicate of the witness theorems D4/D5/D7) and `enabledNC` say the same -/
theorem anyEnabled_false_iff (s : St) : anyEnabled s = false ↔ enabledNC s = [] := by
  unfold anyEnabled enabledNC actorsOf
  simp only [List.flatMap_eq_nil_iff, List.map_eq_nil_iff, List.filter_eq_nil_iff]
  constructor
  · intro h a ha v hv
    rw [List.any_eq_false] at h
    have h1 := h a ha
    have h1' : ([Variant.ok, .timeout, .fail].any fun v => (step s a v).isSome) = false := by simpa using h1
    rw [List.any_eq_false] at h1'
    exact h1' v hv
  · intro h
    rw [List.any_eq_false]
    intro a ha
    have : ([Variant.ok, .timeout, .fail].any fun v => (step s a v).isSome) = false := by
      rw [List.any_eq_false]
      intro v hv
      exact h a ha v hv
    simp [this]

/-- … hence, in the vocabulary of the witness theorems of `Props/C01.lean`: **no reachable state of a static pool is
    `stuckBad`** (nothing can move and a future is unresolved or a user thread has not finished). -/
theorem C01_static_pool_never_stuck_bad (cfg : Cfg) (hc : cfg.staticPool = true) (s : St) (h : ReachableNC cfg s) :
    stuckBad s = false := by
  unfold stuckBad
  cases he : anyEnabled s with
  | true => simp
  | false =>
    have hg := C01_static_pool_no_deadlock cfg hc s h ((anyEnabled_false_iff s).1 he)
    unfold good at hg
    simp only [Bool.and_eq_true] at hg
    simp only [Bool.not_false, Bool.true_and, Bool.or_eq_false_iff]
    constructor
    · rw [List.any_eq_false]
      intro f hf
      have := List.all_eq_true.1 hg.1 f hf
      simp [this]
    · rw [List.any_eq_false]
      intro k hk
      have := List.all_eq_true.1 hg.2 k hk
      simpa using this

/-- every ingredient, for every state a static pool reaches without crash steps -/
theorem C01_static_pool_ingredients (cfg : Cfg) (hc : cfg.staticPool = true) (s : St) (h : ReachableNC cfg s) :
    slotOk s = true ∧ holderOk s = true ∧ staticOk s = true ∧ wakeOk s = true ∧ consOk s = true ∧ joinOk s = true := by
  have L := liveInv_reachableNC hc h
  exact ⟨slotOk_of_slotOk' s L.slot, holderOk_of_ok'' L.holder, staticOk_of_inv L.static, wakeOk_of_wakeOk' s L.wake,
         consOk_of_consOk' s L.cons, joinOk_of_joinOk' s L.join⟩

/-- **no lost wake-up** (the invariant whose statement exposed D21), spelled out: while the manager of a static pool
    waits, if the executor is shutting down with nothing pending, or work ids are queued, then something is going to
    wake it. -/
theorem C01_no_lost_wakeup (cfg : Cfg) (hc : cfg.staticPool = true) (s : St) (h : ReachableNC cfg s) (sn : List Pid)
    (hm : s.mpc = .wait sn) (hneed : mustExit s = true ∨ s.workIds ≠ []) : willWake s = true := by
  have hw := (C01_static_pool_ingredients cfg hc s h).2.2.2.1
  unfold wakeOk at hw
  simp only [hm] at hw
  rcases hneed with h1 | h1
  · simpa [h1] using hw
  · have : s.workIds.isEmpty = false := by cases hq : s.workIds <;> simp_all
    simpa [this] using hw

/-! ### non-vacuity: a static pool, a run without crash steps to a quiescent state -/

theorem reachableNC_of_run {cfg : Cfg} : ∀ (sched : List (Actor × Variant)) (s0 s : St), ReachableNC cfg s0 →
    (∀ av ∈ sched, av.2 ≠ .crash) → run s0 sched = some s → ReachableNC cfg s := by
  intro sched
  induction sched with
  | nil => intro s0 s h0 _ hr; simp [run] at hr; subst hr; exact h0
  | cons x xs ih =>
    intro s0 s h0 hnc hr
    obtain ⟨a, v⟩ := x
    simp only [run] at hr
    cases hs : step s0 a v with
    | none => simp [hs] at hr
    | some s1 =>
      simp only [hs, Option.bind_some] at hr
      exact ih s1 s (.step h0 (hnc (a, v) (by simp)) hs) (fun av hav => hnc av (by simp [hav])) hr

/-- two workers, two user threads; a plain task, a raising one (cancelled in time), one whose arguments cannot be pickled;
    `shutdown(wait=True)` -/
def cfgLive : Cfg :=
  { maxWorkers := 2, timeout := false, tasks := [{}, { body := .raises }, { args := .unpicklable }],
    scripts := [[.create, .submit 0, .submit 1, .cancel 1, .submit 2, .shutdown true false], [.submit 1]] }
def schedLive : List (Actor × Variant) :=
  [(.U 1, .ok), (.U 1, .ok), (.U 0, .ok), (.U 0, .ok), (.U 0, .ok), (.U 0, .ok), (.U 0, .ok), (.U 0, .ok),
   (.U 0, .ok), (.U 0, .ok), (.W 100, .ok), (.W 100, .ok), (.U 0, .ok), (.W 101, .ok), (.U 0, .ok), (.U 0, .ok),
   (.M, .ok), (.M, .ok), (.M, .ok), (.F, .ok), (.F, .ok), (.F, .ok), (.U 0, .ok), (.U 0, .ok), (.M, .ok),
   (.M, .ok), (.M, .ok), (.F, .ok), (.W 100, .ok), (.W 100, .ok), (.W 101, .ok), (.U 0, .ok), (.M, .fail),
   (.U 0, .ok), (.U 0, .ok), (.W 100, .ok), (.W 100, .ok), (.W 100, .ok), (.U 0, .ok), (.U 0, .ok), (.W 100, .ok),
   (.U 0, .ok), (.M, .ok), (.M, .ok), (.M, .ok), (.U 0, .ok), (.W 100, .ok), (.U 0, .ok), (.W 100, .ok),
   (.M, .fail), (.U 0, .ok), (.M, .ok), (.U 0, .ok), (.M, .ok), (.U 0, .ok), (.U 0, .ok), (.U 0, .ok), (.M, .ok),
   (.M, .ok), (.U 0, .ok), (.M, .fail), (.M, .ok), (.U 0, .ok), (.F, .ok), (.U 0, .ok), (.F, .ok), (.F, .ok),
   (.F, .ok), (.M, .ok), (.F, .ok), (.M, .ok), (.M, .ok), (.U 0, .ok), (.M, .fail), (.U 0, .ok), (.U 0, .ok),
   (.M, .ok), (.U 0, .ok), (.M, .ok), (.M, .ok), (.M, .ok), (.M, .ok), (.M, .ok), (.M, .ok), (.M, .ok), (.M, .ok),
   (.M, .ok), (.M, .ok), (.M, .ok), (.F, .ok), (.F, .ok), (.F, .ok), (.W 101, .ok), (.M, .ok), (.M, .ok),
   (.W 101, .ok), (.M, .ok), (.W 100, .ok), (.F, .ok), (.W 101, .ok), (.W 101, .ok), (.F, .ok), (.F, .ok),
   (.W 101, .ok), (.F, .ok), (.W 101, .ok), (.W 101, .ok), (.W 100, .ok), (.W 100, .ok), (.W 101, .ok), (.M, .ok),
   (.W 100, .ok), (.W 100, .ok), (.W 100, .ok), (.W 100, .ok), (.W 100, .ok), (.W 100, .ok), (.M, .ok), (.M, .ok),
   (.U 0, .ok), (.U 0, .ok)]

example : cfgLive.staticPool = true := by decide
example : schedLive.all (fun av => av.2 != .crash) = true := by decide
/-- the run ends in a quiescent state, which — as the theorem says — is a good one: futures `value`, `cancelled`,
    `excFeeder` (PicklingError), both scripts finished -/
example : (run (init cfgLive) schedLive).map (fun s => ((enabledNC s).isEmpty, good s, s.futs)) =
    some (true, true, [.value, .cancelled, .excFeeder]) := by decide +kernel

end LokyModel.Exec
