import LokyModel.Props.C17
/-!
# C17 (fourth session) — what the min/ceil formula implies for a caller

Corollaries over the same model `LokyModel.CpuCount`, all configurations:

* the logical count never exceeds any applicable limit that is itself at least 1
  (`logical_le_os`, `logical_le_affinity`, `logical_le_cgroup`, `logical_le_override`) and is
  attained by one of them or is the floor 1 (`logical_is_a_limit_or_one`);
* tightening the override or the affinity mask never increases it (`logical_mono_override`,
  `logical_mono_affinity`); an override above the machine changes nothing
  (`override_above_machine_ignored`); 0 / negative overrides give 1 (`override_nonpositive_gives_one`);
* cgroup v1 and v2 layouts with the same numbers give the same count (`cgroup_layout_irrelevant`);
  a `max` / `-1` / zero quota or a non-positive period imposes no limit (`cgroup_no_limit`);
* a fractional quota rounds *up*: at least 1, exact on multiples (`quota_ge_one`, `quota_exact_multiple`).
-/
namespace LokyModel.CpuCount

/-- the logical count as a function of the configuration (`none`: malformed override) -/
def logical (c : Cfg) : Option Int :=
  match (cpuCount { c with phys := false } .empty).1 with
  | .value v _ => some v
  | .valueError => none

theorem logical_eq (c : Cfg) (e : Int) (he : envCount c = some e) :
    logical c = some (max 1 (min (osCount c) (min (affinityCount (osCount c) c.aff)
                (min (cgroupCount (osCount c) c.cg) e)))) := by
  have he' : envCount { c with phys := false } = some e := by simpa [envCount, osCount] using he
  have := cpu_count_eq { c with phys := false } .empty e rfl he'
  simp only [logical, this]
  rfl

theorem osCount_ge_one (c : Cfg) : 1 ≤ osCount c := by
  unfold osCount
  cases c.os with
  | none => simp
  | some n =>
    cases n with
    | zero => simp
    | succ n => simp; omega

theorem logical_le_os (c : Cfg) (e : Int) (he : envCount c = some e) (v : Int)
    (hv : logical c = some v) : v ≤ osCount c := by
  rw [logical_eq c e he] at hv
  have := osCount_ge_one c
  injection hv with hv; omega

theorem logical_le_affinity (c : Cfg) (e : Int) (he : envCount c = some e) (n : Nat)
    (ha : c.aff = some n) (hn : 1 ≤ n) (v : Int) (hv : logical c = some v) : v ≤ n := by
  rw [logical_eq c e he] at hv
  simp only [ha, affinityCount] at hv
  injection hv with hv; omega

theorem logical_le_cgroup (c : Cfg) (e : Int) (he : envCount c = some e)
    (hcg : 1 ≤ cgroupCount (osCount c) c.cg) (v : Int) (hv : logical c = some v) :
    v ≤ cgroupCount (osCount c) c.cg := by
  rw [logical_eq c e he] at hv
  injection hv with hv; omega

theorem logical_le_override (c : Cfg) (e : Int) (he : c.env = .int e) (h1 : 1 ≤ e) (v : Int)
    (hv : logical c = some v) : v ≤ e := by
  rw [logical_eq c e (by simp [envCount, he])] at hv
  injection hv with hv; omega

/-- the value is one of the four limits, or the floor 1 -/
theorem logical_is_a_limit_or_one (c : Cfg) (e : Int) (he : envCount c = some e) (v : Int)
    (hv : logical c = some v) :
    v = 1 ∨ v = osCount c ∨ v = affinityCount (osCount c) c.aff ∨
      v = cgroupCount (osCount c) c.cg ∨ v = e := by
  rw [logical_eq c e he] at hv
  injection hv with hv; omega

/-- a tighter override never gives a larger count -/
theorem logical_mono_override (c : Cfg) (e e' : Int) (hle : e ≤ e') (v v' : Int)
    (hv : logical { c with env := .int e } = some v) (hv' : logical { c with env := .int e' } = some v') :
    v ≤ v' := by
  rw [logical_eq _ e (by simp [envCount])] at hv
  rw [logical_eq _ e' (by simp [envCount])] at hv'
  injection hv with hv; injection hv' with hv'
  have h1 : osCount { c with env := .int e } = osCount c := rfl
  have h2 : osCount { c with env := .int e' } = osCount c := rfl
  simp only [h1, h2] at hv hv'
  omega

/-- a smaller affinity mask never gives a larger count -/
theorem logical_mono_affinity (c : Cfg) (e : Int) (he : envCount c = some e) (n n' : Nat)
    (hle : n ≤ n') (v v' : Int)
    (hv : logical { c with aff := some n } = some v) (hv' : logical { c with aff := some n' } = some v') :
    v ≤ v' := by
  have he1 : envCount { c with aff := some n } = some e := by simpa [envCount, osCount] using he
  have he2 : envCount { c with aff := some n' } = some e := by simpa [envCount, osCount] using he
  rw [logical_eq _ e he1] at hv
  rw [logical_eq _ e he2] at hv'
  injection hv with hv; injection hv' with hv'
  have h1 : osCount { c with aff := some n } = osCount c := rfl
  have h2 : osCount { c with aff := some n' } = osCount c := rfl
  simp only [h1, h2, affinityCount] at hv hv'
  omega

/-- an override at or above the OS count is the same as no override -/
theorem override_above_machine_ignored (c : Cfg) (e : Int) (hbig : osCount c ≤ e) :
    logical { c with env := .int e } = logical { c with env := .absent } := by
  rw [logical_eq _ e (by simp [envCount]), logical_eq _ (osCount c) (by simp [envCount, osCount])]
  have h1 : osCount { c with env := .int e } = osCount c := rfl
  have h2 : osCount { c with env := .absent } = osCount c := rfl
  simp only [h1, h2]
  congr 1
  omega

/-- `LOKY_MAX_CPU_COUNT=0` or negative: the count is 1 (never 0, never an error) -/
theorem override_nonpositive_gives_one (c : Cfg) (e : Int) (h0 : e ≤ 0) :
    logical { c with env := .int e } = some 1 := by
  rw [logical_eq _ e (by simp [envCount])]
  congr 1
  omega

/-- the v1 and the v2 file layout with the same numbers are indistinguishable -/
theorem cgroup_layout_irrelevant (c : Cfg) (q : Quota) (p : Int) (cache : Cache) :
    cpuCount { c with cg := .v1 q p } cache = cpuCount { c with cg := .v2 q p } cache := rfl

/-- no limit from the cgroup: `max`, a quota ≤ 0 (v1 writes -1) or a period ≤ 0 -/
theorem cgroup_no_limit (os : Int) (q p : Int) (h : q ≤ 0 ∨ p ≤ 0) :
    cgroupCount os (.v1 (.val q) p) = os ∧ cgroupCount os (.v2 (.val q) p) = os ∧
    cgroupCount os (.v1 .max p) = os ∧ cgroupCount os (.v2 .max p) = os ∧ cgroupCount os .absent = os := by
  have : ¬ (q > 0 ∧ p > 0) := by omega
  simp [cgroupCount, quotaCount, this]

/-- a positive quota, however small against the period, still grants one CPU -/
theorem quota_ge_one (q p : Int) (hq : 0 < q) (hp : 0 < p) : 1 ≤ ceilDiv q p := by
  have h := (ceilDiv_is_ceiling q p hp).1
  rcases Int.lt_or_le (ceilDiv q p) 1 with hlt | hge
  · have h0 : ceilDiv q p ≤ 0 := by omega
    have : ceilDiv q p * p ≤ 0 := Int.mul_nonpos_of_nonpos_of_nonneg h0 (by omega)
    omega
  · exact hge

/-- `quota = k · period` grants exactly `k` CPUs (no spurious rounding up) -/
theorem quota_exact_multiple (k p : Int) (hp : 0 < p) : ceilDiv (k * p) p = k := by
  have ⟨h1, h2⟩ := ceilDiv_is_ceiling (k * p) p hp
  have hle : ceilDiv (k * p) p ≤ k := h2 k (Int.le_refl _)
  have hge : k ≤ ceilDiv (k * p) p := Int.le_of_mul_le_mul_right h1 hp
  omega

/-- one unit above a multiple already rounds up to the next CPU -/
theorem quota_rounds_up (k p : Int) (hp : 1 < p) : ceilDiv (k * p + 1) p = k + 1 := by
  have hp0 : 0 < p := by omega
  have ⟨h1, h2⟩ := ceilDiv_is_ceiling (k * p + 1) p hp0
  have hle : ceilDiv (k * p + 1) p ≤ k + 1 := h2 (k + 1) (by rw [Int.add_mul]; omega)
  have hge : k < ceilDiv (k * p + 1) p := by
    apply Int.lt_of_mul_lt_mul_right (a := p) _ (by omega)
    omega
  omega

/-! ## non-vacuity -/

def sampleCfg : Cfg :=
  { os := some 16, aff := some 8, cg := .v2 (.val 250000) 100000, env := .int 5, phys := false, probe := .ok 4 }

example : logical sampleCfg = some 3 := by decide
example : logical { sampleCfg with env := .int 2 } = some 2 := by decide
example : logical { sampleCfg with env := .int 0 } = some 1 := by decide
example : logical { sampleCfg with env := .bad } = none := by decide
example : logical { sampleCfg with cg := .v1 (.val (-1)) 100000, env := .absent } = some 8 := by decide
example : ceilDiv 1 100000 = 1 ∧ ceilDiv 200000 100000 = 2 ∧ ceilDiv 200001 100000 = 3 := by decide

end LokyModel.CpuCount
