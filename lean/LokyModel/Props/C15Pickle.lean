import LokyModel.Lemmas.Pickle
/-!
# C15 (part "pickle") — serialisation customisation is scoped and faithful

Property theorems only (heap/frame lemmas in `Lemmas/Pickle.lean`).  Stated over the model
`LokyModel.Pickle`: for **all** contents of the three process-wide registries, all reducer maps,
all histories of `set_loky_pickler` / pickler creation / `register` on an instance / `dumps` /
queue creation / `put` / executor creation, both back-ends; and for all object graphs built from
atoms, importable globals, instances, bound methods, class methods, method descriptors and
`functools.partial` (pickle itself is trusted on the leaves).

The clause "the pickler selected when a task is submitted is the one its worker uses" belongs to
the executor part (model M1), not to this file.
-/
namespace LokyModel.Pickle

/-! ## the table of a `CustomizablePickler` -/

/-- `effective_table_eq` (later wins): a look-up in the specified table is answered by the user's
reducers (last entry for the type), else by loky's registry, else — under cloudpickle — by
cloudpickle's class-level table, else by `copyreg.dispatch_table`. -/
theorem effective_table_eq (g : Globals) (b : Backend) (reducers : Table) (ty : Ty) :
    (effectiveTable g b reducers).lookup ty =
      (reducers.reverse.lookup ty).or ((g.loky.lookup ty).or
        (match b with
         | .cloudpickle => (g.cloud.lookup ty).or (g.copyreg.lookup ty)
         | .pickle => g.copyreg.lookup ty)) := by
  cases b <;> simp [effectiveTable, List.lookup_append]

/-- the code builds exactly that table — in a **fresh** dict: `CustomizablePickler(reducers)`
allocates a new cell, and no existing dict (registry or other pickler) is written. -/
theorem created_table_eq (s : State) (hs : Wf s) (reducers : Table) :
    let r := createPickler s reducers
    readCell r.1 r.2 = effectiveTable (globals s) s.backend reducers ∧
    s.cells.length ≤ r.2 ∧
    ∀ j, j < s.cells.length → readCell r.1 j = readCell s j := by
  obtain ⟨e1, _, e3, e4, _⟩ := createPickler_spec s hs.1 reducers
  simp only at e1 e3 e4 ⊢
  exact ⟨by rw [e1]; exact e4, by rw [e1]; exact Nat.le_refl _, e3⟩

/-- a user reducer wins over everything registered for the same type … -/
theorem user_reducer_wins (g : Globals) (b : Backend) (reducers : Table) (ty : Ty) (r : Reducer)
    (h : reducers.reverse.lookup ty = some r) : (effectiveTable g b reducers).lookup ty = some r := by
  rw [effective_table_eq, h]; rfl

/-- … and a type the user did not mention is pickled as if no reducers had been given -/
theorem untouched_types (g : Globals) (b : Backend) (reducers : Table) (ty : Ty)
    (h : reducers.reverse.lookup ty = none) :
    (effectiveTable g b reducers).lookup ty = (effectiveTable g b []).lookup ty := by
  rw [effective_table_eq, effective_table_eq, h]; rfl

example : ([(7, 1)] : Table).reverse.lookup 7 = some 1 ∧ ([(7, 1)] : Table).reverse.lookup 8 = none := by decide

/-- loky's own registry: what `import loky.backend.reduction` registers (POSIX) -/
theorem loky_registry :
    lokyInit.lookup tyMethod = some rMethod ∧
    lokyInit.lookup tyMethodDescriptor = some rMethodDescriptor ∧
    lokyInit.lookup tyWrapperDescriptor = some rMethodDescriptor ∧
    lokyInit.lookup tyPartial = some rPartial ∧
    lokyInit.lookup tySocket = some rSocket ∧ lokyInit.lookup tyCSocket = some rSocket ∧
    lokyInit.lookup tyConnection = some rConnection ∧
    ∀ ty, 8 ≤ ty → lokyInit.lookup ty = none := by
  refine ⟨rfl, rfl, rfl, rfl, rfl, rfl, rfl, ?_⟩
  intro ty h
  have ne : ∀ k : Nat, k < 8 → (ty == k) = false := by
    intro k hk
    have h' : (8 : Nat) ≤ ty := h
    have : ty ≠ k := fun e => by
      have h8 : (8 : Nat) ≤ k := e ▸ h'
      omega
    simpa using this
  have h1 : (ty == 1) = false := ne 1 (by decide)
  have h2 : (ty == 2) = false := ne 2 (by decide)
  have h3 : (ty == 3) = false := ne 3 (by decide)
  have h4 : (ty == 4) = false := ne 4 (by decide)
  have h5 : (ty == 5) = false := ne 5 (by decide)
  have h6 : (ty == 6) = false := ne 6 (by decide)
  have h7 : (ty == 7) = false := ne 7 (by decide)
  simp [lokyInit, tset, List.lookup, tyMethod, tyMethodDescriptor, tyWrapperDescriptor, tyPartial, tySocket,
    tyCSocket, tyConnection, h1, h2, h3, h4, h5, h6, h7]

/-! ## non-interference -/

/-- `globals_unchanged` (frame theorem): no history of pickler creations, instance-level
`register`s, `dumps`, queue/executor creations, `put`s and back-end switches — with any reducer
maps — changes `copyreg.dispatch_table`, cloudpickle's table or loky's registry. -/
theorem globals_unchanged (s : State) (hs : Wf s) (ops : List Op) : globals (run s ops) = globals s := by
  induction ops generalizing s with
  | nil => rfl
  | cons op ops ih =>
    show globals (run (step s op) ops) = _
    obtain ⟨hw, _, hfr, _⟩ := step_frame s hs op
    rw [ih _ hw]
    have h3 := hs.1
    have hne : ∀ j, j < 3 → ∀ ty r, op = .register j ty r → j ∉ s.picklers := by
      intro j hj _ _ _ hc
      have := (hs.2 j hc).1
      omega
    simp only [globals, copyregCell, cloudCell, lokyCell]
    rw [hfr 0 (by omega) (hne 0 (by omega)), hfr 1 (by omega) (hne 1 (by omega)),
      hfr 2 (by omega) (hne 2 (by omega))]

/-- from the initial state: whatever the history, the registries are what they were at the start -/
theorem globals_unchanged_init (g : Globals) (b : Backend) (ops : List Op) :
    globals (run (initState g b) ops) = g :=
  globals_unchanged _ (wf_init g b) ops

/-- `other_picklers_unaffected`: the table of a pickler is a function of the registries, the
back-end current at its creation and **its own** reducers only — whatever was created, registered
or dumped before (`pre`) or afterwards (`post`, which may do anything except `register` on this very
pickler).  In particular reducers given to any other pickler, queue or executor never show up. -/
theorem other_picklers_unaffected (g : Globals) (b0 : Backend) (pre post : List Op) (r : Option Table)
    (hno : ∀ op ∈ post, ∀ ty rd, op ≠ .register (run (initState g b0) pre).cells.length ty rd) (ty : Ty) :
    let s := run (initState g b0) pre
    picklerLookup (run (step s (.newPickler r)) post) s.cells.length ty =
      (effectiveTable g s.backend (orEmpty r)).lookup ty := by
  intro s
  have hs : Wf s := run_wf _ (wf_init g b0) pre
  have hg : globals s = g := globals_unchanged_init g b0 pre
  obtain ⟨_, e2, _, e4, _⟩ := createPickler_spec s hs.1 (orEmpty r)
  have hw1 : Wf (step s (.newPickler r)) := (step_frame s hs _).1
  have hlen : s.cells.length < (step s (.newPickler r)).cells.length := by
    show s.cells.length < (createPickler s (orEmpty r)).1.cells.length
    omega
  have h0 : readCell (step s (.newPickler r)) s.cells.length = effectiveTable g s.backend (orEmpty r) := by
    rw [← hg]; exact e4
  -- the cell is never written by `post`
  have key : ∀ (ops : List Op) (t : State), Wf t → s.cells.length < t.cells.length →
      (∀ op ∈ ops, ∀ ty rd, op ≠ .register s.cells.length ty rd) →
      readCell (run t ops) s.cells.length = readCell t s.cells.length := by
    intro ops
    induction ops with
    | nil => intros; rfl
    | cons op ops ih =>
      intro t ht hl hn
      obtain ⟨hw, hle, hfr, _⟩ := step_frame t ht op
      show readCell (run (step t op) ops) _ = _
      rw [ih _ hw (by omega) (fun o ho => hn o (List.mem_cons_of_mem _ ho))]
      exact hfr _ hl (fun ty rd e => absurd e (hn op (List.mem_cons_self) ty rd))
  unfold picklerLookup
  rw [key post _ hw1 hlen hno, h0]

/-- non-vacuity of the side condition: a history of other picklers, dumps and queue traffic -/
example : ∀ op ∈ [Op.dumps (some [(9, 9)]), .newPickler (some [(9, 8)]), .register 4 9 7, .setPickler .pickle, .put 0],
    ∀ ty rd, op ≠ Op.register 3 ty rd := by
  intro op h ty rd
  simp at h
  rcases h with h | h | h | h | h <;> subst h <;> simp

/-- `dumps(obj, reducers=r)` pickles with exactly the specified table, for the back-end current at the call -/
theorem dumps_table (s : State) (hs : Wf s) (r : Option Table) :
    let s' := step s (.dumps r)
    ∃ c, s'.last = some c ∧ readCell s' c = effectiveTable (globals s) s.backend (orEmpty r) := by
  obtain ⟨_, _, _, e4, _, _, _, e8⟩ := createPickler_spec s hs.1 (orEmpty r)
  exact ⟨_, e8, e4⟩

/-- a queue pickles what is `put` with the reducers it was created with (`None` ⇒ none), and with
the back-end current at the `put` -/
theorem queue_put_table (s : State) (hs : Wf s) (i : Nat) (q : Option Table) (hq : s.queues[i]? = some q) :
    let s' := step s (.put i)
    ∃ c, s'.last = some c ∧ readCell s' c = effectiveTable (globals s) s.backend (orEmpty q) := by
  obtain ⟨_, _, _, e4, _, _, _, e8⟩ := createPickler_spec s hs.1 (orEmpty q)
  have hst : step s (.put i) = (createPickler s (orEmpty q)).1 := by simp only [step, hq]
  simp only [hst]
  exact ⟨_, e8, e4⟩

/-! ## executors -/

/-- an executor's call queue gets the job reducers, its result queue the result reducers -/
theorem executor_queues (s : State) (j r : Option Table) :
    (step s (.newExecutor j r)).queues = s.queues ++ [j, resultReducers j r] := rfl

/-- `result_reducers_default`: `result_reducers=None` ⇒ the job reducers (also when those are `None`);
given result reducers are used as they are -/
theorem result_reducers_default (j : Option Table) (r : Table) :
    resultReducers j none = j ∧ resultReducers j (some r) = some r := ⟨rfl, rfl⟩

/-! ## the reusable executor carries the reducers of the latest request -/

/-- **one request**: if the test for "the arguments have not changed" only accepts requests whose
reducer maps, initializer, initargs and env are the stored ones, the executor returned for a request is
usable and pickles tasks with that request's job reducers and results with its result reducers (the job
reducers when none are given), runs that request's initializer in its workers — whether it is the
previous executor (reused, resized) or a new one, whatever happened before. -/
theorem request_carries (same : Kwargs → Kwargs → Bool)
    (hsame : ∀ a b, same a b = true → a.job = b.job ∧ a.res = b.res ∧ a.init = b.init ∧ a.initargs = b.initargs ∧ a.env = b.env)
    (s : RState) (hs : s.Consistent) (w : Nat) (k : Kwargs) :
    ∃ e, (request same s w k).1.cur = some e ∧ e.usable = true ∧ e.maxWorkers = w ∧ e.jobq = k.job
      ∧ e.resq = resultReducers k.job k.res ∧ e.init = k.init ∧ e.initargs = k.initargs ∧ e.env = k.env := by
  unfold request
  split
  · exact ⟨_, rfl, by simp [newRExec]⟩
  · rename_i e0 h0
    split
    · rename_i hc
      simp only [Bool.and_eq_true] at hc
      obtain ⟨hj, hr, hi, ha, he⟩ := hsame _ _ hc.2
      obtain ⟨c1, c2, c3, c4, c5⟩ := hs e0 h0
      exact ⟨_, rfl, hc.1, rfl, by simp [c1, hj], by simp [c2, hj, hr], by simp [c3, hi], by simp [c4, ha], by simp [c5, he]⟩
    · exact ⟨_, rfl, by simp [newRExec]⟩

/-- the test of the code (`kwargs == _executor_kwargs`, identity of every reducer) is such a test -/
theorem sameKwargs_sound (a b : Kwargs) (h : sameKwargs a b = true) :
    a.job = b.job ∧ a.res = b.res ∧ a.init = b.init ∧ a.initargs = b.initargs ∧ a.env = b.env := by
  have : a = b := by simpa [sameKwargs] using h
  subst this; simp

/-- **all histories**: after any history of requests and shutdowns on the singleton that ends with a
request, the singleton carries exactly that last request's reducers, initializer and environment. -/
theorem reuse_carries_latest (pre : List ROp) (w : Nat) (k : Kwargs) :
    ∃ e, (rrun sameKwargs ⟨0, none⟩ (pre ++ [.req w k])).cur = some e ∧ e.usable = true ∧ e.jobq = k.job
      ∧ e.resq = resultReducers k.job k.res ∧ e.init = k.init ∧ e.initargs = k.initargs ∧ e.env = k.env := by
  have hc : (rrun sameKwargs ⟨0, none⟩ pre).Consistent :=
    rrun_consistent _ pre _ (by intro e he; simp at he)
  obtain ⟨e, h1, h2, _, h3⟩ := request_carries sameKwargs sameKwargs_sound _ hc w k
  refine ⟨e, ?_, h2, h3⟩
  simpa [rrun, List.foldl_append, rstep] using h1

/-- the executor is reused exactly when it is usable and every compared argument is identical -/
theorem reused_iff (s : RState) (w : Nat) (k : Kwargs) :
    (request sameKwargs s w k).2 = true ↔ ∃ e, s.cur = some e ∧ e.usable = true ∧ e.kwargs = k := by
  unfold request
  split
  · simp_all
  · rename_i e0 h0
    by_cases hc : (e0.usable && sameKwargs k e0.kwargs) = true
    · rw [if_pos hc]
      simp only [Bool.and_eq_true, sameKwargs, decide_eq_true_eq] at hc
      simp [h0, hc.1, hc.2]
    · rw [if_neg hc]
      simp only [Bool.and_eq_true, sameKwargs, decide_eq_true_eq] at hc
      simp only [Bool.false_eq_true, h0, Option.some.injEq, false_iff, not_exists, not_and]
      intro e he hu hk
      subst he
      exact hc ⟨hu, hk.symm⟩

/-- **witness**: a test that compares reducers "by implementation" (two closures of one factory, two
instances of one class: same key) is not such a test — the second request gets the first one's reducers -/
theorem same_by_code_stale :
    let code : Reducer → Nat := fun r => r / 100
    let k1 : Kwargs := ⟨10, some [(30, 701)], none, none, [], none⟩
    let k2 : Kwargs := ⟨10, some [(30, 702)], none, none, [], none⟩
    ∃ e, (rrun (sameByCode code) ⟨0, none⟩ [.req 1 k1, .req 1 k2]).cur = some e ∧ e.jobq ≠ k2.job ∧ e.jobq = k1.job := by
  decide

/-- non-vacuity: a history in which the executor is reused, replaced for changed reducers, shut down by
the user and replaced again -/
example :
    ((rrun sameKwargs ⟨0, none⟩
        [.req 1 ⟨10, some [(30, 701)], none, none, [], none⟩, .req 2 ⟨10, some [(30, 701)], none, none, [], none⟩,
         .req 2 ⟨10, some [(30, 702)], some [], some 5, [1], some [(1, 2)]⟩, .shutdown,
         .req 2 ⟨10, some [(30, 702)], some [], some 5, [1], some [(1, 2)]⟩]).cur.map
      (fun e => (e.id, e.maxWorkers, e.jobq, e.resq, e.usable))) = some (2, 2, some [(30, 702)], some [], true) := by
  rfl

/-! ## built-in reducers round-trip -/

/-- `partial_roundtrip`: reducing and rebuilding a partial gives back the same `func`, `args`
(any number, any values) and `keywords` (any, including none) -/
theorem partial_roundtrip (w : World) (f : V) (a : List V) (k : List (Nat × V)) (hf : f.isPartial = false) :
    (reducePartial (.part f a k)).bind (applyRed w) = some (.part f a k) := by
  cases f <;> simp_all [reducePartial, applyRed, mkPartial, V.isPartial]

example : (V.glob 0).isPartial = false := rfl

/-- if an unpickled `func` were itself a plain partial, `functools.partial` would flatten it:
positional arguments concatenated, keywords merged with the outer ones winning -/
theorem partial_rebuild_flattens (w : World) (f : V) (a a' : List V) (k k' : List (Nat × V)) :
    applyRed w (.rebuildPartial (.part f a k) a' k') = some (.part f (a ++ a') (mergeKw k k')) := rfl

/-- `method_roundtrip`: a bound method comes back as the same function bound to the same receiver,
provided the function is reachable on the receiver under its own `__name__` -/
theorem method_roundtrip (w : World) (self : V) (f : Nat)
    (h : getattrV w self (w.fname f) = some (.bound self f)) :
    (reduceMethod w (.bound self f)).bind (applyRed w) = some (.bound self f) := by
  simpa [reduceMethod, applyRed] using h

/-- instances: the class has `f` under the name `f.__name__` -/
theorem instance_method_roundtrip (w : World) (c st f : Nat) (h : w.member c (w.fname f) = some (.func f)) :
    rtV w (.bound (.inst c st) f) = some (.bound (.inst c st) f) := by
  simp [rtV, applyRed, getattrV, h]

/-- class methods (`__self__` is the class), fetched from the class or from an instance -/
theorem classmethod_roundtrip (w : World) (c f : Nat) (h : w.member c (w.fname f) = some (.cmeth f)) :
    rtV w (.bound (.glob c) f) = some (.bound (.glob c) f) := by
  simp [rtV, applyRed, getattrV, h]

/-- method / wrapper descriptors (`str.upper`, `int.__add__`): `getattr(__objclass__, __name__)` -/
theorem method_descriptor_roundtrip (w : World) (c n : Nat) (h : w.member c n = some .descr) :
    (reduceMethodDescriptor (.descr c n)).bind (applyRed w) = some (.descr c n) ∧
    rtV w (.descr c n) = some (.descr c n) := by
  simp [reduceMethodDescriptor, rtV, applyRed, getattrV, h]

/-- the side condition of `method_roundtrip` is needed: a function stored under another name
(`class C: g = f`) does not come back (`AttributeError`) — as with CPython's own pickling of methods -/
theorem method_alias_witness :
    let w : World := ⟨fun _ => 8, fun c n => if c = 0 ∧ n = 7 then some (.func 1) else none⟩
    getattrV w (.inst 0 0) 7 = some (.bound (.inst 0 0) 1) ∧ rtV w (.bound (.inst 0 0) 1) = none := by
  constructor <;> simp [rtV, applyRed, getattrV]

mutual
/-- whole graphs: every well-formed value — partials of methods of instances, partials as arguments
or keyword values of partials, … to any depth — round-trips to itself -/
theorem roundtrip_id (w : World) : ∀ v, wfV w v → rtV w v = some v
  | .atom _, _ => rfl
  | .glob _, _ => rfl
  | .inst _ _, _ => rfl
  | .bound self f, h => by
    obtain ⟨h1, h2⟩ := h
    simp only [rtV, roundtrip_id w self h1, applyRed, h2]
  | .descr c n, h => by
    have h : w.member c n = some .descr := h
    simp [rtV, applyRed, getattrV, h]
  | .part f a k, h => by
    obtain ⟨h1, h2, h3, h4⟩ := h
    simp only [rtV, roundtrip_id w f h1, roundtrip_list_id w a h3, roundtrip_kw_id w k h4]
    exact partial_roundtrip w f a k h2
theorem roundtrip_list_id (w : World) : ∀ l, wfList w l → rtList w l = some l
  | [], _ => rfl
  | x :: xs, h => by
    obtain ⟨h1, h2⟩ := h
    simp only [rtList, roundtrip_id w x h1, roundtrip_list_id w xs h2]
theorem roundtrip_kw_id (w : World) : ∀ l, wfKw w l → rtKw w l = some l
  | [], _ => rfl
  | (n, x) :: xs, h => by
    obtain ⟨h1, h2⟩ := h
    simp only [rtKw, roundtrip_id w x h1, roundtrip_kw_id w xs h2]
end

/-- non-vacuity: `partial(obj.f, 1, partial(str.upper), k=C.cm)` is well-formed in a matching world -/
example :
    let w : World := ⟨id, fun c n => if c = 0 ∧ n = 1 then some (.func 1) else if c = 0 ∧ n = 2 then some (.cmeth 2)
      else if c = 5 ∧ n = 3 then some .descr else none⟩
    wfV w (.part (.bound (.inst 0 9) 1) [.atom 1, .part (.descr 5 3) [] []] [(4, .bound (.glob 0) 2)]) := by
  simp [wfV, wfList, wfKw, getattrV, V.isPartial]

end LokyModel.Pickle
