import LokyModel.Lemmas.SemLock
import LokyModel.Lemmas.CondD8
/-!
# C14 — synchronisation primitives keep their contracts under every interleaving

Property theorems only (helper lemmas and the inductive invariant live in `LokyModel/Lemmas/`).

* Part 1 is about the sequential model `LokyModel.SemLock` of `_multiprocessing.SemLock` as wrapped by
  `Lock`, `RLock`, `Semaphore`, `BoundedSemaphore`: statements over **all** operation traces by
  any number of threads.
* Part 2 is about the transition system `LokyModel.Cond` (`Condition.wait/notify/notify_all`,
  `Event.set/clear/wait/is_set` exactly as loky/backend/synchronize.py implements them): statements
  over **all** numbers of threads, **all** scripts and **all** interleavings, with a time-out allowed
  to fire at any instant at which the timed acquire is blocked.
* The clause "notify does wake one if some waiter's time-out is not expiring" is **false** of the
  code (finding D8): `notify_wakes_one_counterexample` is the witness, `notify_wakes_one_partial`
  the strongest version that holds.
-/

/-! ## Part 1 — `SemLock` -/
namespace LokyModel.SemLock
open LokyModel.Cond (LInv isMine_iff isMine_false_iff canAcquire_iff release_of_mine
  release_rlock_not_mine acquired_mine)

/-- `Lock` / `RLock` give mutual exclusion: after any trace of operations by any threads the
    kernel value is 0 or 1 (at most one un-released acquisition: `lock_holders`), and an acquire
    that succeeds while the lock is held can only be the re-entrant acquire of an `RLock` by its
    owner. -/
theorem lock_mutex (s0 : SL) (h0 : s0 = mkLock ∨ s0 = mkRLock) (ops : List Op) (t : Nat) :
    (exec s0 ops).value ≤ 1 ∧
    ((exec s0 ops).value = 0 → (tryAcquire (exec s0 ops) t).2 = true →
      s0 = mkRLock ∧ isMine (exec s0 ops) t = true) := by
  rcases h0 with rfl | rfl
  · have h := linv_exec _ _ ops linv_mkLock
    refine ⟨h.vle, fun hv ha => ?_⟩
    exfalso
    simp only [tryAcquire] at ha
    split at ha
    · rename_i hc
      rw [canAcquire_iff _ _ t h] at hc
      have := h.free
      rcases hc with ⟨hk, _⟩ | hc
      · cases hk
      · omega
    · cases ha
  · have h := linv_exec _ _ ops linv_mkRLock
    refine ⟨h.vle, fun hv ha => ⟨rfl, ?_⟩⟩
    simp only [tryAcquire] at ha
    split at ha
    · rename_i hc
      rw [canAcquire_iff _ _ t h] at hc
      have := h.free
      rcases hc with ⟨_, hm⟩ | hc
      · exact hm
      · omega
    · cases ha

/-- for a `Lock`, the number of holders (successful acquires minus successful releases) is
    `1 - value`, hence 0 or 1 -/
theorem lock_holders (ops : List Op) :
    outstanding mkLock ops = 1 - ((exec mkLock ops).value : Int) ∧
    0 ≤ outstanding mkLock ops ∧ outstanding mkLock ops ≤ 1 := by
  have h1 := sem_conservation mkLock rfl ops
  have h2 := (linv_exec _ _ ops linv_mkLock).vle
  have h3 : ((mkLock.value : Nat) : Int) = 1 := rfl
  omega

/-- `RLock` is re-entrant for its owner only.  In every reachable state `s` of an `RLock`:
    it is free iff its recursion count is 0; the owner's acquire always succeeds and increments the
    count; while it is held, any other thread's non-blocking acquire fails and any other thread's
    release is rejected (`AssertionError`, state unchanged); the owner's release decrements the
    count and frees the lock exactly when the count was 1. -/
theorem rlock_reentrant_owner_only (ops : List Op) (t u : Nat) :
    let s := exec mkRLock ops
    (s.value = 1 ↔ s.count = 0) ∧ 0 ≤ s.count ∧
    (isMine s t = true →
        tryAcquire s t = ({ s with count := s.count + 1 }, true) ∧
        (release s t).2 = .ok ∧ (release s t).1.count = s.count - 1 ∧
        ((release s t).1.value = 1 ↔ s.count = 1)) ∧
    (isMine s t = true → u ≠ t →
        tryAcquire s u = (s, false) ∧ release s u = (s, .notOwner)) := by
  intro s
  have h : LInv .recursiveMutex s := linv_exec _ _ ops linv_mkRLock
  refine ⟨h.free, h.cnn, fun hm => ?_, fun hm hu => ?_⟩
  · have hc : canAcquire s t = true := (canAcquire_iff _ _ t h).2 (Or.inl ⟨rfl, hm⟩)
    have hr := release_of_mine _ _ _ h hm
    have hm' := (isMine_iff s t).1 hm
    refine ⟨?_, hr.1, hr.2.2.1, ?_⟩
    · simp [tryAcquire, hc, acquired, h.kind, hm]
    · have := hr.2.1.free; rw [hr.2.2.1] at this; omega
  · have hm' := (isMine_iff s t).1 hm
    have hnu : isMine s u = false := by rw [isMine_false_iff]; omega
    have hc : canAcquire s u = false := by
      cases hcu : canAcquire s u with
      | false => rfl
      | true =>
        exfalso
        rcases (canAcquire_iff _ _ u h).1 hcu with ⟨_, hmu⟩ | hc0
        · rw [hnu] at hmu; cases hmu
        · omega
    exact ⟨by simp [tryAcquire, hc], release_rlock_not_mine s u h.kind hnu⟩

/-- `Semaphore(n)` never admits more than `n` holders: along every trace (hence at every prefix)
    successful acquires minus successful releases is at most `n`; more precisely it is
    `n - value`. -/
theorem sem_le_n (n : Nat) (ops : List Op) :
    outstanding (mkSemaphore n) ops ≤ n ∧
    outstanding (mkSemaphore n) ops = n - ((exec (mkSemaphore n) ops).value : Int) := by
  have h := sem_conservation (mkSemaphore n) rfl ops
  have h3 : (mkSemaphore n).value = n := rfl
  omega

/-- `BoundedSemaphore(n)` refuses over-release: its value never exceeds `n`, equivalently releases
    never outnumber acquires, and a release at value `n` raises `ValueError` and changes nothing. -/
theorem bounded_over_release_rejected (n : Nat) (ops : List Op) (t : Nat) :
    (exec (mkBounded n) ops).value ≤ n ∧ 0 ≤ outstanding (mkBounded n) ops ∧
    ((exec (mkBounded n) ops).value = n →
      release (exec (mkBounded n) ops) t = (exec (mkBounded n) ops, .tooMany)) := by
  have h := sem_conservation (mkBounded n) rfl ops
  have hv := sem_value_le_max (mkBounded n) rfl (Nat.le_refl n) ops
  have hk : (exec (mkBounded n) ops).kind = .semaphore ∧ (exec (mkBounded n) ops).maxvalue = n := by
    clear h hv
    suffices ∀ s : SL, s.kind = .semaphore → s.maxvalue = n →
        (exec s ops).kind = .semaphore ∧ (exec s ops).maxvalue = n from this _ rfl rfl
    induction ops with
    | nil => intro s h1 h2; exact ⟨h1, h2⟩
    | cons o os ih =>
      intro s h1 h2
      rw [exec_cons]
      have := stepOp_kind s o
      exact ih _ (this.1.trans h1) (this.2.trans h2)
  have h3 : (mkBounded n).value = n := rfl
  have h4 : (mkBounded n).maxvalue = n := rfl
  refine ⟨by omega, by omega, fun he => ?_⟩
  simp [release, hk.1, hk.2, he]

/-! non-vacuity -/
example : (run mkRLock [.tryAcq 0, .tryAcq 0, .tryAcq 1, .rel 1, .rel 0, .rel 0, .rel 0]).2 =
    [.acq true, .acq true, .acq false, .rel .notOwner, .rel .ok, .rel .ok, .rel .notOwner] := by decide
example : (run (mkBounded 1) [.rel 0, .tryAcq 0, .tryAcq 1, .rel 1, .rel 1]).2 =
    [.rel .tooMany, .acq true, .acq false, .rel .ok, .rel .tooMany] := by decide
example : outstanding (mkSemaphore 2) [.tryAcq 0, .tryAcq 1, .tryAcq 2] = 2 := by decide

end LokyModel.SemLock

/-! ## Part 2 — `Condition` and `Event` -/
namespace LokyModel.Cond
open LokyModel.SemLock

/-- No internal assertion ever trips (`assert not self._wait_semaphore.acquire(False)`,
    `assert res` — whatever the interleaving and wherever time-outs fire), and no `release()`
    performed *inside* `wait` / `Event.*` ever fails: the only operation that can report
    "not owner" / "released too many times" is a scripted `cond.release()` by a thread that does
    not hold the lock. -/
theorem asserts_never_trip (cfg : Cfg) (hwf : cfg.wf) (s : State) (hr : Reachable cfg s)
    (t : Nat) (ht : t < cfg.n) (o : Op) (r : Ret) (hm : (o, r) ∈ (s.th t).rets) :
    r ≠ .tripped ∧ ((r = .notOwner ∨ r = .tooMany) → o = .rel) ∧
    (r = .mustAcquire → o.isEvent = false) :=
  let h := ((inv_reachable cfg hwf s hr).thr t ht).rets o r hm
  ⟨h.1, h.2.1, h.2.2⟩

/-- The counting invariant of the protocol: `_sleeping_count` plus the tokens notifiers have taken
    from it but not yet matched (`sumD`) equals `_woken_count` plus the threads registered as
    sleepers that have not yet announced their wake-up (`sumA`: at `w2`, `w3`, `w4`) plus the
    notifiers half-way through a re-zeroing pair (`sumB`). -/
theorem cond_counts (cfg : Cfg) (hwf : cfg.wf) (s : State) (hr : Reachable cfg s) :
    s.sleeping + sumD s cfg.n = s.woken + sumA s cfg.n + sumB s cfg.n :=
  (inv_reachable cfg hwf s hr).cnt

/-- When `notify_all` reaches its final re-zeroing loop (`a7`) — and hence when it returns — every
    thread that had registered as a sleeper has left the sleep *and* announced it: no thread is at
    `w2`/`w3`/`w4`, `_woken_count` and `_sleeping_count` are 0.  (New sleepers cannot register in
    between: the notifier holds the lock.)  So every waiter that was asleep before `notify_all`
    and has not timed out was woken by it. -/
theorem notify_all_wakes_every_sleeper (cfg : Cfg) (hwf : cfg.wf) (s : State) (hr : Reachable cfg s)
    (t : Nat) (ht : t < cfg.n) (hpc : (s.th t).pc = .a7) :
    s.sleeping = 0 ∧ s.woken = 0 ∧ ∀ u, u < cfg.n → wA (s.th u).pc = 0 :=
  no_sleeper_at_a7 cfg s t (inv_reachable cfg hwf s hr) ht hpc

/-- the same at the return of `notify_all` (from `a7`, or from `a4 0` when there was no sleeper) -/
theorem notify_all_return (cfg : Cfg) (hwf : cfg.wf) (s s' : State) (hr : Reachable cfg s)
    (t : Nat) (v : Variant) (hs : step cfg s t v = some s')
    (hin : (s.th t).pc = .a7 ∨ ∃ k, (s.th t).pc = .a4 k)
    (hout : (s'.th t).pc = .idle ∨ (s'.th t).pc = .eRel .none) :
    ∀ u, u < cfg.n → wA (s'.th u).pc = 0 :=
  no_sleeper_at_return cfg s s' t v (inv_reachable cfg hwf s hr) hs hin hout

/-- `notify` wakes at most one waiter: while a thread is inside `notify` (past its entry
    assertion) at most one waiter has taken a token of `_wait_semaphore` since that assertion
    (`wakes ≤ 1`), at most one token exists (`waitsem + wakes ≤ 1`), and outside the posting part
    of a notifier no token exists at all — so no waiter can resume except by a notifier's post. -/
theorem notify_wakes_at_most_one (cfg : Cfg) (hwf : cfg.wf) (s : State) (hr : Reachable cfg s)
    (t : Nat) (ht : t < cfg.n)
    (hpc : (s.th t).pc = .n2 ∨ (s.th t).pc = .n3 ∨ (s.th t).pc = .n4 ∨ (s.th t).pc = .n5 ∨
           (s.th t).pc = .n6 ∨ (s.th t).pc = .n7) :
    s.waitsem + s.wakes ≤ 1 :=
  wakes_le_one cfg s t (inv_reachable cfg hwf s hr) ht hpc

/-- tokens of `_wait_semaphore` exist only while the lock holder is in the posting part of a
    notifier (`n6`, `n7`, `a4`–`a7`); in particular the entry assertion of the next notifier holds
    and a waiter never resumes without a notification -/
theorem no_stray_token (cfg : Cfg) (hwf : cfg.wf) (s : State) (hr : Reachable cfg s)
    (hq : 0 < s.waitsem) : 0 < s.lock.count ∧ inPost (s.th s.lock.lastTid).pc = true :=
  (inv_reachable cfg hwf s hr).post hq

/-- `wait` returns holding the lock, re-acquired to the recursion depth it had on entry
    (`c`, saved before the lock was released) -/
theorem wait_returns_with_lock (cfg : Cfg) (hwf : cfg.wf) (s s' : State) (hr : Reachable cfg s)
    (t : Nat) (v : Variant) (c k : Nat) (r : Bool) (hpc : (s.th t).pc = .w5 c k r) (hk : k ≤ 1)
    (hs : step cfg s t v = some s') :
    isMine s'.lock t = true ∧ s'.lock.count = c ∧ 1 ≤ c :=
  wait_exit_owns cfg s s' t v c k r (inv_reachable cfg hwf s hr) hpc hk hs

/-- `wait` reports `False` only after its time-out expired.  The flag `r` carried by the program
    counters `w4 c r` / `w5 c k r` is what `wait` returns (`wait_result_carried`); it is set by the
    step that leaves the sleep `w3`, to `true` by the `ok` variant and to `false` only by the
    `timeout` variant, which exists only for a timed wait whose semaphore is 0. -/
theorem wait_false_only_after_timeout (cfg : Cfg) (s s' : State) (t : Nat) (v : Variant) (c : Nat)
    (hpc : (s.th t).pc = .w3 c) (hs : step cfg s t v = some s') :
    (v = .ok ∧ (s'.th t).pc = .w4 c true ∧ 0 < s.waitsem) ∨
    (v = .timeout ∧ (s'.th t).pc = .w4 c false ∧ (s.th t).timed = true ∧ s.waitsem = 0) :=
  leave_sleep cfg s s' t v c hpc hs

/-- the result flag is carried unchanged from `w4` to the return of `wait`, where it becomes the
    returned value (for `Event.wait` the value is discarded and the flag is re-read) -/
theorem wait_result_carried (cfg : Cfg) (s s' : State) (t : Nat) (v : Variant) (c : Nat) (r : Bool)
    (hpc : (s.th t).pc = .w4 c r ∨ ∃ k, (s.th t).pc = .w5 c k r)
    (hs : step cfg s t v = some s') :
    (∃ k, (s'.th t).pc = .w5 c k r) ∨ (s'.th t).pc = .eFlag2 ∨
    (∃ o rest, (s.th t).script = o :: rest ∧ (s'.th t).rets = (o, .bool r) :: (s.th t).rets) ∨
    (s.th t).script = [] :=
  result_carried cfg s s' t v c r hpc hs

/-- no burst of waits, time-outs and notifications leaves the condition unusable: whenever all
    threads are outside the methods, `_sleeping_count = _woken_count` (time-outs not yet
    subtracted are matched one to one and are removed by the next notifier's re-zeroing loop),
    `_wait_semaphore = 0`, the lock object is consistent and the flag is 0 or 1 — the invariant
    from which every theorem above applies to any continuation. -/
theorem never_unusable (cfg : Cfg) (hwf : cfg.wf) (s : State) (hr : Reachable cfg s)
    (hq : ∀ t, t < cfg.n → (s.th t).pc = .idle) :
    s.sleeping = s.woken ∧ s.waitsem = 0 ∧ (s.lock.value = 1 ↔ s.lock.count = 0) ∧ s.flag ≤ 1 :=
  quiescent_balanced cfg hwf s hr hq

/-- `Event.wait` / `Event.is_set` return `True` iff the event is set when they return: at the
    step that returns `b` (the `__exit__` of `with self._cond`) the flag semaphore is `1` iff
    `b`, and nobody can change it in between because every flag operation is done under the lock. -/
theorem wait_true_iff_set_at_return (cfg : Cfg) (hwf : cfg.wf) (s s' : State) (hr : Reachable cfg s)
    (t : Nat) (v : Variant) (b : Bool) (hpc : (s.th t).pc = .eRel (.bool b))
    (hs : step cfg s t v = some s') :
    (s'.flag = 1 ↔ b = true) ∧ s'.flag ≤ 1 ∧ (s'.th t).pc = .idle ∧
    (∀ o rest, (s.th t).script = o :: rest → (s'.th t).rets = (o, .bool b) :: (s.th t).rets) :=
  event_return cfg s s' t v b (inv_reachable cfg hwf s hr) hpc hs

/-! ### the clause that is false of the code (finding D8)

Full statement, *not* provable:

    theorem notify_wakes_one : Reachable cfg s → step cfg s t v = some s' →
        (s.th t).pc = .n7 →                       -- notify returns, having grabbed a sleeper
        (∃ u, u < cfg.n ∧ ∃ c, (s.th u).pc = .w3 c ∧ (s.th u).timed = false) →   -- an untimed waiter sleeps
        s'.wakes = 1                               -- … somebody was woken

A waiter whose time-out has fired but which has not yet done `_woken_count.release()` satisfies the
notifier's `_woken_count.acquire()`; the notifier's re-zeroing `_wait_semaphore.acquire(False)`
then takes the token back before the sleeper it was meant for has run. -/

/-- three threads: t0 `with cond: wait(timeout)`, t1 `with cond: wait()`, t2 `with cond: notify()` -/
def d8Cfg : Cfg :=
  ⟨.recursiveMutex, 3, fun t =>
    if t = 0 then [.acq, .wait true, .rel] else if t = 1 then [.acq, .wait false, .rel]
    else if t = 2 then [.acq, .notify, .rel] else []⟩

/-- both waiters go to sleep; the notifier takes the lock, passes its assertions, grabs one
    sleeper; t0's time-out fires; the notifier posts the token; t0 announces its wake-up, which the
    notifier consumes; the notifier takes the token back and returns -/
def d8Sched : List (Nat × Variant) :=
  [(0, .ok), (0, .ok), (0, .ok), (0, .ok), (0, .ok),
   (1, .ok), (1, .ok), (1, .ok), (1, .ok), (1, .ok),
   (2, .ok), (2, .ok), (2, .ok), (2, .fail), (2, .fail), (2, .ok),
   (0, .timeout), (2, .ok), (0, .ok), (2, .ok), (2, .ok)]

/-- **Witness (D8).**  After `d8Sched`, `notify()` has returned (`None`), the untimed waiter t1 is
    still asleep at `_wait_semaphore.acquire()`, no token is left and nobody was woken. -/
theorem notify_wakes_one_counterexample :
    (runSched d8Cfg (init d8Cfg) d8Sched).map (fun s =>
        ((s.th 2).rets, (s.th 1).pc, (s.th 1).timed, s.waitsem, s.wakes, (s.th 0).pc)) =
      some ([(.notify, .none), (.acq, .bool true)], .w3 1, false, 0, 0, .w5 1 1 false) := by
  decide

/-- **Partial version that holds.**  If, when the notifier found `_woken_count` empty, no waiter
    was in flight between leaving the sleep and `_woken_count.release()`, and no time-out has fired
    since (`clean`), then a `notify` that grabbed a sleeper returns only after exactly one waiter
    has taken its token. -/
theorem notify_wakes_one_partial (cfg : Cfg) (hwf : cfg.wf) (s : State) (hr : Reachable cfg s)
    (t : Nat) (ht : t < cfg.n) (hpc : (s.th t).pc = .n7) (hc : s.clean = true) :
    s.wakes = 1 ∧ s.waitsem = 0 :=
  clean_notify_woke_one cfg s t (inv2_reachable cfg hwf s hr) ht hpc hc

/-- and a `notify` that finds no sleeper to grab (`n4` fails) really has nobody to wake -/
theorem notify_no_sleeper (cfg : Cfg) (hwf : cfg.wf) (s : State) (hr : Reachable cfg s)
    (t : Nat) (ht : t < cfg.n) (hpc : (s.th t).pc = .n4) (hs : s.sleeping = 0) :
    ∀ u, u < cfg.n → wA (s.th u).pc = 0 :=
  (no_sleeper_of_zero cfg s t (inv_reachable cfg hwf s hr) ht
    (by have := ((inv_reachable cfg hwf s hr).thr t ht).pc; rw [hpc] at this; exact this)
    (by rw [hpc]; rfl) hs).2

/-! ### non-vacuity: the hypotheses of the theorems above are met by reachable states -/

theorem d8Cfg_wf : d8Cfg.wf := by intro h; cases h

/-- every state reached by a schedule is `Reachable` (so the examples below are about reachable states) -/
example (sched : List (Nat × Variant)) (s : State) (h : runSched d8Cfg (init d8Cfg) sched = some s) :
    Reachable d8Cfg s := reachable_runSched _ _ _ _ .init h

/-- the witness schedule's final state: t0 is at `w5 1 1 false` (hypothesis of
    `wait_returns_with_lock`), its wait timed out (`wait_false_only_after_timeout`) -/
example : (runSched d8Cfg (init d8Cfg) (d8Sched ++ [(2, .ok), (2, .ok), (0, .ok)])).map
    (fun s => ((s.th 0).rets.head?, isMine s.lock 0, s.lock.count)) =
    some (some (.wait true, .bool false), true, 1) := by decide

def nvCfg : Cfg :=
  ⟨.recursiveMutex, 2, fun t =>
    if t = 0 then [.acq, .wait false, .rel] else if t = 1 then [.acq, .notify, .notifyAll, .rel] else []⟩

/-- a clean `notify` (no time-out anywhere) at `n7`: hypothesis of `notify_wakes_one_partial` -/
example : (runSched nvCfg (init nvCfg)
    [(0, .ok), (0, .ok), (0, .ok), (0, .ok), (0, .ok), (1, .ok), (1, .ok), (1, .ok), (1, .fail), (1, .fail),
     (1, .ok), (1, .ok), (0, .ok), (0, .ok), (1, .ok)]).map
    (fun s => ((s.th 1).pc, s.clean, s.wakes, s.waitsem)) = some (.n7, true, 1, 0) := by decide

/-- `notify_all` at `a7` with a sleeper woken: hypothesis of `notify_all_wakes_every_sleeper` -/
def nvCfg2 : Cfg :=
  ⟨.recursiveMutex, 2, fun t =>
    if t = 0 then [.acq, .wait true, .rel] else if t = 1 then [.acq, .notifyAll, .rel] else []⟩
example : (runSched nvCfg2 (init nvCfg2)
    [(0, .ok), (0, .ok), (0, .ok), (0, .ok), (0, .ok), (1, .ok), (1, .ok), (1, .ok), (1, .fail), (1, .fail),
     (1, .ok), (1, .ok), (1, .fail), (0, .ok), (0, .ok), (1, .ok)]).map
    (fun s => ((s.th 1).pc, (s.th 0).pc, s.woken)) = some (.a7, .w5 1 1 true, 0) := by decide

/-- a quiescent state in which the semaphores are *not* back to 0: a lone timed-out wait leaves
    `_sleeping_count = _woken_count = 1` (hypothesis and conclusion of `never_unusable`) -/
def nvCfg3 : Cfg := ⟨.recursiveMutex, 1, fun t => if t = 0 then [.acq, .wait true, .rel] else []⟩
example : (runSched nvCfg3 (init nvCfg3)
    [(0, .ok), (0, .ok), (0, .ok), (0, .ok), (0, .ok), (0, .timeout), (0, .ok), (0, .ok), (0, .ok), (0, .ok)]).map
    (fun s => ((s.th 0).pc, (s.th 0).script, s.sleeping, s.woken, s.waitsem, s.lock.count)) =
    some (.idle, [], 1, 1, 0, 0) := by decide

/-- `Event`: a waiter that found the flag clear, slept, was woken by `set()` and returns `True`
    (hypothesis of `wait_true_iff_set_at_return`); `Event` configurations satisfy `Cfg.wf` -/
def nvCfg4 : Cfg := ⟨.semaphore, 2, fun t => if t = 0 then [.eWait false] else if t = 1 then [.eSet] else []⟩
theorem nvCfg4_wf : nvCfg4.wf := by
  intro _ t o ho
  simp only [nvCfg4] at ho
  split at ho
  · simp at ho; subst ho; rfl
  · split at ho
    · simp at ho; subst ho; rfl
    · simp at ho
example : (runSched nvCfg4 (init nvCfg4)
    [(0, .ok), (0, .ok), (0, .fail), (0, .ok), (0, .ok), (1, .ok), (1, .ok), (1, .fail), (1, .ok),
     (1, .fail), (1, .fail), (1, .ok), (1, .ok), (1, .fail), (0, .ok), (0, .ok), (1, .ok), (1, .fail),
     (1, .ok), (0, .ok), (0, .ok), (0, .ok)]).map
    (fun s => ((s.th 0).pc, s.flag)) = some (.eRel (.bool true), 1) := by decide

end LokyModel.Cond
