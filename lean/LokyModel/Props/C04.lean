import LokyModel.Props.C02
import LokyModel.Lemmas.ExecNoBreakAll
/-!
# C04 — task-level failures are contained to their own future (executor protocol)

Decision-logic theorems over M1: what each error path touches.  "The pool stays unbroken" in whole
runs is `C04_pool_stays_unbroken` (the never-broken-without-a-death invariant of `Lemmas/ExecNoBreak*`).
-/
namespace LokyModel.Exec

/-- A call item whose arguments cannot be pickled never reaches the pipe: the feeder goes straight to
    its error path … -/
theorem C04_unpicklable_not_sent (s : St) (w : Wid) (t : Tid) (rest : List CMsg)
    (hb : s.cqBuf = .call w t :: rest) (ha : (specOf s t).args = .unpicklable) :
    (fNext s).fpc = .errSem w ∧ (fNext s).cqPipe = s.cqPipe := by
  unfold fNext; simp [hb, ha]

/-- … and so does one that is too large for `send_bytes`, after the failed send released the write lock. -/
theorem C04_too_large_not_sent (s s1 s2 s3 : St) (w : Wid) (hpc : s.fpc = .acqBig w)
    (h1 : stepF s .ok = some s1) (h2 : stepF s1 .ok = some s2) (h3 : stepF s2 .ok = some s3) :
    s3.fpc = .errSem w ∧ s3.cqPipe = s.cqPipe ∧ s3.cqWlock = s.cqWlock := by
  unfold stepF at h1; simp only [hpc, acq_map] at h1
  split at h1
  · cases h1
    unfold stepF at h2; simp at h2; cases h2
    unfold stepF at h3; simp at h3; cases h3
    simp; omega
  · cases h1

/-- The feeder's error path: the queue slot is given back, the item is forgotten (`pending`,
    `running`), its own future — and only it — fails, the pool's flags are untouched. -/
theorem C04_feeder_error_effect (s s' : St) (w : Wid) (hpc : s.fpc = .errSem w) (hw : w ∈ s.pending)
    (hs : stepF s .ok = some s') :
    s'.cqSem = s.cqSem + 1 ∧ s'.futs = s.futs.set w .excFeeder ∧ s'.pending = s.pending.erase w ∧
    s'.running = s.running.erase w ∧ s'.broken = s.broken ∧ s'.shutdownFlag = s.shutdownFlag ∧
    s'.fpc = .errAcq := by
  unfold stepF at hs; simp only [hpc] at hs
  cases hs; simp [hw, setFut]

/-- every other future is left alone by the feeder's error path -/
theorem C04_feeder_error_others (s s' : St) (w j : Wid) (hpc : s.fpc = .errSem w) (hj : j ≠ w)
    (hs : stepF s .ok = some s') : s'.futs.getD j .pending = s.futs.getD j .pending := by
  unfold stepF at hs; simp only [hpc] at hs
  cases hs
  by_cases hw : w ∈ s.pending
  · simp [hw, setFut, List.getD_eq_getElem?_getD, List.getElem?_set, Ne.symm hj]
  · simp [hw]

/-- A task body that raises (any exception, `SystemExit` and `KeyboardInterrupt` included, or whose
    result / exception cannot be pickled) makes its worker send an ordinary result item carrying the
    exception — the worker stays alive and goes on serving. -/
theorem C04_raise_is_a_result (s s' : St) (p : Pid) (w : Wid) (t : Tid) (hpc : s.w p = .taskEnd w t)
    (hb : (specOf s t).body = .raises) (hs : stepW s p .ok = some s') :
    s'.w p = .rAcq w true false ∧ alive s' p = true := by
  unfold stepW at hs; simp only [hpc] at hs
  simp [hb] at hs
  cases hs; split <;> simp [setW, alive]

/-- The manager resolves exactly the future named by the result item, with the item's outcome,
    forgets the item, and goes on with its loop; the pool's flags are not touched by a result. -/
theorem C04_result_step (s : St) (i : Wid) (e : Bool) (hi : i ∈ s.pending) :
    mProcess s (some (.res i e false)) =
      mAfterItem (setFut { s with pending := s.pending.erase i, running := s.running.erase i } i
                    (if e then .excWorker else .value)) := by
  unfold mProcess; simp [hi]

/-- a result for an item the manager no longer knows (the pool broke meanwhile) is dropped -/
theorem C04_unknown_result_dropped (s : St) (i : Wid) (e : Bool) (hi : i ∉ s.pending) :
    mProcess s (some (.res i e false)) = mAfterItem s := by
  unfold mProcess; simp [hi]

theorem C04_result_keeps_flags (s : St) (i : Wid) (e : Bool) :
    (mProcess s (some (.res i e false))).broken = s.broken ∧
    (mProcess s (some (.res i e false))).shutdownFlag = s.shutdownFlag ∧
    (mProcess s (some (.res i e false))).killFlag = s.killFlag := by
  simp

/-- **The pool stays unbroken.**  Whatever mix of task-level failures — bodies that raise anything,
    arguments that cannot be pickled or are too large, results or exceptions that cannot be pickled —
    at whatever positions, under whatever schedule, time-outs, cancellations and shutdowns: as long as
    no worker process dies and no payload fails to *un*-pickle, the pool is never flagged broken. -/
theorem C04_pool_stays_unbroken (cfg : Cfg) (hb : cfg.benign) (s : St) (h : ReachableNC cfg s) :
    s.broken = none := (nbInv_reachableNC hb h).nb

/-- the hypothesis covers every task-level failure kind of the property: raising bodies and
    un-picklable / over-sized arguments are benign -/
def cfgContain : Cfg :=
  { maxWorkers := 2, timeout := true, tasks := [{ body := .raises }, { args := .unpicklable }, { args := .toolarge }, { body := .raises, args := .ok }], scripts := [[.create, .submit 0, .submit 1, .submit 2, .submit 3]] }
example : cfgContain.benign := by constructor <;> decide

end LokyModel.Exec
