import LokyModel.Lemmas.ExecPoolAll
import LokyModel.Props.C01
/-!
# C08 — parallelism never exceeds `max_workers`

Theorems over M1 (`LokyModel.Exec`): every reachable state of one executor, for every
`max_workers`, every task list, every number of user threads and scripts, every schedule with
time-outs, failed try-locks and worker crashes anywhere.

Scope note (kept visible): the clause "max_workers of them do run simultaneously" (delivery) is
decided by the E1 saturation runs (`harness/simengine`, families `saturate*`) and not by a theorem;
resizes (`_resize`) are outside M1, so `max_workers` is constant here.
-/
namespace LokyModel.Exec

/-- At no time are more than `max_workers` workers registered. -/
theorem C08_registered_le (cfg : Cfg) (s : St) (h : Reachable cfg s) :
    s.procDict.length ≤ cfg.maxWorkers := by
  have := (spawnInv_reachable h).le
  rwa [cfg_reachable h] at this

/-- A thread about to start a process (a submitting user thread inside `_adjust_process_count`, or
    the manager re-spawning after a worker left) has re-checked the bound and there is still room:
    the spawn it is committed to cannot overshoot. -/
theorem C08_spawn_has_room (cfg : Cfg) (s : St) (h : Reachable cfg s) :
    (∀ k, s.upc k = .subPStart → s.procDict.length < cfg.maxWorkers) ∧
    (s.mpc = .rspStart → s.procDict.length < cfg.maxWorkers) := by
  have hi := spawnInv_reachable h
  rw [← cfg_reachable h]
  exact ⟨fun k hk => hi.u k (by simp [hk, spawningU]), fun hm => hi.m (by simp [hm, spawningU, spawningM])⟩

/-- Spawning is mutually exclusive: the processes-management lock has at most one holder, so two
    threads are never inside `_adjust_process_count` together, and an idle worker deciding to leave
    (`acquire(block=False)` succeeded) excludes both. -/
theorem C08_spawners_exclusive (cfg : Cfg) (s : St) (h : Reachable cfg s) :
    (∀ j k, inMgmtU (s.upc j) = true → inMgmtU (s.upc k) = true → j = k) ∧
    (∀ k, inMgmtU (s.upc k) = true → inMgmtM s.mpc = false) ∧
    (∀ k p, inMgmtU (s.upc k) = true → inMgmtW (s.w p) = false) ∧
    (∀ p, inMgmtM s.mpc = true → inMgmtW (s.w p) = false) := by
  have hi := mgmtInv_reachable h
  refine ⟨?_, ?_, ?_, ?_⟩
  · intro j k hj hk
    have h1 := hi.u j hj; have h2 := hi.u k hk
    rw [h1] at h2; injection h2 with h2; injection h2
  · intro k hk
    cases hm : inMgmtM s.mpc with
    | false => rfl
    | true => have h1 := hi.u k hk; have h2 := hi.m hm; rw [h1] at h2; cases h2
  · intro k p hk
    cases hw : inMgmtW (s.w p) with
    | false => rfl
    | true => have h1 := hi.u k hk; have h2 := hi.w p hw; rw [h1] at h2; cases h2
  · intro p hm
    cases hw : inMgmtW (s.w p) with
    | false => rfl
    | true => have h1 := hi.m hm; have h2 := hi.w p hw; rw [h1] at h2; cases h2

/-- The lock's value is exactly "free or held by the recorded owner" — it is never released by a
    non-holder and never over-released. -/
theorem C08_mgmt_binary (cfg : Cfg) (s : St) (h : Reachable cfg s) :
    s.mgmt = if s.oMgmt.isSome then 0 else 1 := (mgmtInv_reachable h).val

/-! non-vacuity: a reachable state with two registered workers and a user still inside the spawn loop -/
example : ∃ s, Reachable { maxWorkers := 3, timeout := false, tasks := [{}], scripts := [[.create, .submit 0]] } s ∧
    s.procDict.length = 2 ∧ s.upc 0 = .subExit := by
  refine ⟨_, (reachable_iff_run _ _).2 ⟨[(.U 0, .ok), (.U 0, .ok), (.U 0, .ok), (.U 0, .ok), (.U 0, .ok),
    (.U 0, .ok), (.U 0, .ok), (.U 0, .ok), (.U 0, .ok)], rfl⟩, ?_, ?_⟩ <;> rfl


/-- **At no time do more than `max_workers` tasks execute concurrently.**  In every reachable state the number of
    workers inside a task body is at most `max_workers`: every worker that has not announced its exit is
    registered in the pool — or is the single one the manager has just un-registered in order to kill / join it —
    and no worker is started while the manager is in that phase (`PoolInv`, with `AnnInv`: an exit announcement is
    only in flight while its worker is past taking tasks). -/
theorem C08_executing_le (cfg : Cfg) (s : St) (h : Reachable cfg s) :
    (s.allPids.filter (fun p => busy (s.w p))).length ≤ cfg.maxWorkers := by
  have := executing_le s (poolInv_reachable h) (tokInv_reachable h).pids_nodup
  rw [cfg_reachable h] at this
  exact this

/-- Every worker that could still take or run a task is registered (or is being killed / joined by the manager). -/
theorem C08_live_workers_are_registered (cfg : Cfg) (s : St) (h : Reachable cfg s) (p : Pid) (hp : p ∈ s.allPids)
    (ha : announced (s.w p) = false) : p ∈ s.procDict ∨ mPop s.mpc = some p :=
  (poolInv_reachable h).pre p hp ha

/-- non-vacuity: in the D7 witness run of `Props/C01` a worker is inside a task body at some point
    (prefix of 31 steps: a worker has received the call item and started the body) -/
example : (run (init cfgD7) (schedD7.take 31)).map (fun s => (s.allPids.filter (fun p => busy (s.w p))).length) = some 1 := by
  decide +kernel

end LokyModel.Exec
