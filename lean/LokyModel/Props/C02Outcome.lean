import LokyModel.Lemmas.ExecOutcomeCAll
import LokyModel.Lemmas.ExecOutcomeCKind
import LokyModel.Props.C02
import LokyModel.Props.C02Live
import LokyModel.Props.C02Term
import LokyModel.Props.C05Live
/-!
# C02, outcome half — an abrupt worker death fails the pool LOUDLY, and fabricates nothing

`Props/C02Live.lean` / `Props/C02Term.lean` prove that a static pool whose workers die (at any point at which the victim
holds no kernel lock, `ReachableLF`) never hangs: every maximal run is finite and ends with every future resolved.  This
file says *with what*:

* `C02_static_pool_crash_outcomes`: at the end of every maximal run every future is resolved and holds what
  `expectedFutC` (`LokyModel/ExecOutcomeCDef.lean`) allows — the outcome of its OWN task (its value, its own exception, the
  feeder's pickling error), the cancellation, or the error of the broken pool (`TerminatedWorkerError` /
  `BrokenProcessPool`).  Never `ShutdownExecutorError`, never the outcome of a task of another kind.
* `C02_pool_error_only_after_break`: a future holds a pool error only on a pool that is flagged broken — and then a
  worker has died, the shutdown flag is raised, the manager is past its main loop for good, and every later `submit`,
  whenever it happens, is refused and creates nothing.
* `C02_break_fails_every_unresolved_future`: the step of `terminate_broken` that fails the futures fails EVERY future that
  is not resolved at that moment with the pool error and leaves every resolved one alone; no later step changes any.
* `C02_no_fabricated_outcome_under_crashes`: a value / a task's exception on a future implies exactly one execution of the
  future's own work id, of a task whose specification produces exactly that outcome.
* `C02_static_pool_error_is_terminated_worker` / `C02_static_pool_crash_outcomes_sharp`: in a static pool (nothing fails
  to un-pickle) the pool error is always `TerminatedWorkerError` and the break is always of the `terminated` kind.
* `C02_unbroken_run_has_own_outcomes`: if the pool was never flagged broken (deaths or not), the stricter `expectedFut`
  holds: no pool error at all.

All of it rests on ONE state invariant, `OutInvC` (`Lemmas/ExecOutcomeC*.lean`), which holds in EVERY reachable state of
every benign configuration without forced shutdown — static pool or not, wherever workers die (the lock-free restriction of
`ReachableLF` matters for liveness only): `C02_every_resolved_future_own_outcome_or_pool_error` is stated in that
generality.  `Drivers/LiveCheckOutcomeC.lean` evaluates the executable forms (`outOkCB`, `ownOutcomesC`, `poolErrOk`) on
random walks with crash steps.
-/
namespace LokyModel.Exec
open StaticP

/-! ### what `expectedFutC` says -/

theorem expectedFutC_iff (sp : TaskSpec) (i : Wid) (f : Fut) :
    expectedFutC sp i f = true ↔ expectedFut sp i f = true ∨ f = .excTerminated ∨ f = .excBroken := by
  simp [expectedFutC, or_assoc]

/-- the pool errors are allowed for every kind of task; `ShutdownExecutorError` for none; everything else is what
    `expectedFut` says: the outcome of the task's own kind -/
theorem expectedFutC_cases (sp : TaskSpec) (i : Wid) :
    expectedFutC sp i .excTerminated = true ∧ expectedFutC sp i .excBroken = true ∧
    expectedFutC sp i .excShutdown = false ∧
    (expectedFutC sp i .value = true ↔ sp.args = .ok ∧ sp.body = .ok ∧ sp.res = .ok) ∧
    (expectedFutC sp i .excWorker = true ↔ sp.args = .ok ∧ sp.body = .raises) ∧
    (expectedFutC sp i .excFeeder = true ↔ sp.args = .unpicklable ∨ sp.args = .toolarge) := by
  refine ⟨rfl, rfl, rfl, ?_, ?_, ?_⟩
  · rw [← expectedFut_value sp i]; simp [expectedFutC]
  · rw [← expectedFut_excWorker sp i]; simp [expectedFutC]
  · rw [← expectedFut_excFeeder sp i]; simp [expectedFutC]

/-! ### every reachable state, every benign configuration without forced shutdown, any deaths -/

/-- **A resolved future holds the outcome of its own task, or the error of the broken pool — and the latter only on a
    pool that is flagged broken.**  Every reachable state (crash steps of any worker at any point included) of every
    benign configuration in which no script forces a shutdown. -/
theorem C02_every_resolved_future_own_outcome_or_pool_error (cfg : Cfg) (hb : cfg.benign) (hk : cfg.noKill = true)
    (s : St) (h : Reachable cfg s) (i : Wid) (hd : (futOf s i).done = true) :
    expectedFutC (specOf s (s.taskOf.getD i 0)) i (futOf s i) = true ∧
    ((futOf s i).poolErr = true → s.broken.isSome = true) ∧
    ((futOf s i).poolErr = false → expectedFut (specOf s (s.taskOf.getD i 0)) i (futOf s i) = true) := by
  have O := outInvC_reachable hb hk h
  have hfut := O.fut i
  have hval := (msgInv_reachable h).val i
  have hex : (futOf s i = .value ∨ futOf s i = .excWorker) → (specOf s (s.taskOf.getD i 0)).args = .ok := by
    intro hv
    have h1 := (futInv_reachable h).executed i hv
    have hm : i ∈ s.execW := List.count_pos_iff.mp (by omega)
    exact (O.ex i hm).2
  have key : (futOf s i).poolErr = false → expectedFut (specOf s (s.taskOf.getD i 0)) i (futOf s i) = true := by
    intro hp
    cases hf : futOf s i with
    | pending => rw [hf] at hd; cases hd
    | running => rw [hf] at hd; cases hd
    | cancelled => rfl
    | value =>
      have ha := hex (Or.inl hf)
      obtain ⟨h1, h2⟩ := hval.1 hf
      have h3 : (specOf s (s.taskOf.getD i 0)).res = .ok := by
        cases hq : (specOf s (s.taskOf.getD i 0)).res with
        | ok => rfl
        | badunpickle => exact absurd hq h2
      show ((specOf s (s.taskOf.getD i 0)).args == .ok && (specOf s (s.taskOf.getD i 0)).body == .ok &&
            (specOf s (s.taskOf.getD i 0)).res == .ok) = true
      rw [ha, h1, h3]; rfl
    | excWorker =>
      have ha := hex (Or.inr hf)
      have h1 := hval.2 hf
      show ((specOf s (s.taskOf.getD i 0)).args == .ok && (specOf s (s.taskOf.getD i 0)).body == .raises) = true
      rw [ha, h1]; rfl
    | excFeeder => rw [hf] at hfut; exact hfut
    | excBroken => rw [hf] at hp; cases hp
    | excTerminated => rw [hf] at hp; cases hp
    | excShutdown => rw [hf] at hfut; cases hfut
  refine ⟨?_, ?_, key⟩
  · cases hp : (futOf s i).poolErr with
    | false => rw [expectedFutC_iff]; exact Or.inl (key hp)
    | true =>
      rw [expectedFutC_iff]
      cases hf : futOf s i <;> rw [hf] at hp <;> first | exact Or.inr (Or.inl rfl) | exact Or.inr (Or.inr rfl) | cases hp
  · intro hp
    cases hf : futOf s i <;> rw [hf] at hp hfut <;> first | exact hfut | cases hp

/-- … in particular no future ever fails with `ShutdownExecutorError`, a death or not -/
theorem C02_no_shutdown_error_on_any_future (cfg : Cfg) (hb : cfg.benign) (hk : cfg.noKill = true) (s : St)
    (h : Reachable cfg s) (i : Wid) : futOf s i ≠ .excShutdown := by
  intro hf
  have := (outInvC_reachable hb hk h).fut i
  rw [hf] at this; cases this

/-- … and a future is cancelled exactly when a `cancel()` on it returned True, a death or not: the break does not
    touch cancelled futures, and cancels none -/
theorem C02_cancelled_only_by_cancel (cfg : Cfg) (hb : cfg.benign) (hk : cfg.noKill = true) (s : St)
    (h : Reachable cfg s) (i : Wid) : futOf s i = .cancelled ↔ i ∈ s.cancelOk := by
  constructor
  · intro hf
    have hfut := (outInvC_reachable hb hk h).fut i
    rw [hf] at hfut
    simpa [futArgOkC, futArgOk] using hfut
  · exact (tokInv_reachable h).cancelled i

/-! ### static pools, worker deaths at lock-free points: the end of every maximal run -/

/-- **C02, outcomes.**  In every state that a static pool reaches by ordinary steps and by deaths of workers that hold no
    kernel lock, and in which nothing but a further death is enabled (the end of a maximal run): every submitted future
    is resolved, and holds the outcome of its own task, the cancellation, or the error of the broken pool. -/
theorem C02_static_pool_crash_outcomes (cfg : Cfg) (hc : cfg.staticPool = true) (s : St) (h : ReachableLF cfg s)
    (hq : enabledNC s = []) :
    ∀ i, i < s.futs.length →
      (futOf s i).done = true ∧ expectedFutC (specOf s (s.taskOf.getD i 0)) i (futOf s i) = true := by
  intro i hi
  have hg := C02_static_pool_crash_no_deadlock cfg hc s h hq
  unfold good at hg
  simp only [Bool.and_eq_true, List.all_eq_true, List.mem_range, beq_iff_eq] at hg
  have hd : (futOf s i).done = true := by
    have e : futOf s i = s.futs[i] := by simp [futOf, List.getD_eq_getElem?_getD, hi]
    rw [e]; exact hg.1 _ (List.getElem_mem hi)
  exact ⟨hd, (C02_every_resolved_future_own_outcome_or_pool_error cfg (benign_of_staticPool cfg hc)
    (noKill_of_staticPool cfg hc) s h.reachable i hd).1⟩

/-- … together with termination (`Props/C02Term.lean`): every schedule from the initial state — deaths at lock-free
    points included — that cannot be extended by an ordinary step has at most `muC (init cfg)` steps, and in its last
    state every future is resolved with the outcome of its own task, the cancellation, or the pool error, and every user
    thread has returned from every call. -/
theorem C02_static_pool_crash_maximal_run_outcomes (cfg : Cfg) (hc : cfg.staticPool = true)
    (sched : List (Actor × Variant)) (s : St) (hrun : runLF (init cfg) sched = some s) (hmax : enabledNC s = []) :
    sched.length ≤ muC (init cfg) ∧
    (∀ i, i < s.futs.length →
      (futOf s i).done = true ∧ expectedFutC (specOf s (s.taskOf.getD i 0)) i (futOf s i) = true) ∧
    ∀ k, k < s.cfg.scripts.length → s.upc k = .done := by
  obtain ⟨h1, _, h3⟩ := C02_static_pool_crash_maximal_run_resolves cfg hc sched s hrun hmax
  exact ⟨h1, C02_static_pool_crash_outcomes cfg hc s (reachableLF_of_run sched _ s .init hrun) hmax, h3⟩

/-- **A pool error only after the break; the pool is then flagged for good.**  If a future of a static pool holds
    `TerminatedWorkerError` / `BrokenProcessPool`, then the pool is flagged broken; a worker has died; the shutdown flag
    is raised; the manager is past its main loop (releasing the lock of `terminate_broken`, in the kill loop, or in its
    final phase); and along every continuation whatsoever, every later `submit` is refused at its flag check and creates
    no future and queues nothing. -/
theorem C02_pool_error_only_after_break (cfg : Cfg) (hc : cfg.staticPool = true) (s : St) (h : ReachableLF cfg s)
    (i : Wid) (he : futOf s i = .excTerminated ∨ futOf s i = .excBroken) :
    s.broken.isSome = true ∧ anyDead s = true ∧ s.shutdownFlag = true ∧ mBrkLate s.mpc = true ∧
    ∀ (sched : List (Actor × Variant)) (s' s'' : St) (k : Nat) (t : Tid), run s sched = some s' →
      s'.upc k = .subAcqShut t → stepU s' k .ok = some s'' →
      s''.upc k = .subRelShut ∧ s''.futs = s'.futs ∧ s''.pending = s'.pending ∧ s''.workIds = s'.workIds := by
  have O := outInvC_reachableLF hc h
  have hb : s.broken.isSome = true := by
    have := O.fut i
    rcases he with e | e <;> rw [e] at this <;> exact this
  obtain ⟨f1, f2, f3, _⟩ := C02_static_pool_broken_facts cfg hc s h hb
  exact ⟨hb, f1, f2, f3, fun sched s' s'' k t hr hpc hs => C02_every_later_submit_raises s s' s'' sched k t hb hr hpc hs⟩

/-- the converse direction of the flag: while the pool is not flagged broken no future holds a pool error -/
theorem C02_no_pool_error_while_unbroken (cfg : Cfg) (hb : cfg.benign) (hk : cfg.noKill = true) (s : St)
    (h : Reachable cfg s) (hn : s.broken = none) (i : Wid) :
    futOf s i ≠ .excTerminated ∧ futOf s i ≠ .excBroken := by
  have O := outInvC_reachable hb hk h
  have := O.fut i
  constructor <;> (intro hf; rw [hf, hn] at this; cases this)

/-- **The break fails every future that is not resolved, and only those.**  At the step of `terminate_broken` that fails
    the futures (`brkRel`, any reachable state of any configuration): a future that is not resolved gets the error of the
    broken pool (`TerminatedWorkerError` for an unannounced death, `BrokenProcessPool` otherwise); a future that is
    resolved keeps what it holds; afterwards every future is resolved, and no step of any run changes any of them again. -/
theorem C02_break_fails_every_unresolved_future (cfg : Cfg) (s s' : St) (b : Broken) (h : Reachable cfg s)
    (hpc : s.mpc = .brkRel b) (hs : stepM s .ok = some s') (i : Wid) (hi : i < s.futs.length) :
    ((futOf s i).done = false → futOf s' i = (if b == .terminated then .excTerminated else .excBroken)) ∧
    ((futOf s i).done = true → futOf s' i = futOf s i) ∧
    ∀ (sched : List (Actor × Variant)) (s'' : St), run s' sched = some s'' → futOf s'' i = futOf s' i := by
  have F := futInv_reachable h
  have hr' : Reachable cfg s' := Reachable.step (a := .M) h (by simpa [step] using hs)
  have hs0 := hs
  rw [C02_brkRel_step s b hpc] at hs
  have e : futOf s' i = futOf (failAll { s with shut := s.shut + 1, oShut := none, pending := [] } s.pending
      (if b == .terminated then .excTerminated else .excBroken)) i := by
    cases hs; simp [futOf]
  have hlen : s'.futs.length = s.futs.length := by cases hs; simp
  refine ⟨?_, ?_, ?_⟩
  · intro hd
    have hp : i ∈ s.pending := by
      apply Decidable.byContradiction
      intro hn
      have := F.resolved i hi hn
      rw [hd] at this; cases this
    have hnc : s.futs.getD i .pending ≠ .cancelled := by
      intro hcn
      have : futOf s i = .cancelled := hcn
      rw [this] at hd; cases hd
    rw [e]
    exact C02_broken_fails_all_pending _ s.pending b i hp hi hnc
  · intro hd
    exact done_sticky_run [(.M, .ok)] s s' h (by simp [run, step, hs0]) i hd
  · intro sched s'' hrun
    have hd := (C02_after_break_all_resolved cfg s s' b h hpc hs0 i (by rw [hlen]; exact hi)).1
    exact done_sticky_run sched s' s'' hr' hrun i hd

/-- **Nothing is fabricated.**  In every state of a lock-free crash run of a static pool: a future that holds a value or
    a task's exception got it from exactly one execution of its own work id, and its own task is of the kind that produces
    exactly this outcome (a plain task for a value, a raising one for the exception) — before a death, after it, on a pool
    flagged broken or not. -/
theorem C02_no_fabricated_outcome_under_crashes (cfg : Cfg) (hc : cfg.staticPool = true) (s : St)
    (h : ReachableLF cfg s) (i : Wid) (hv : futOf s i = .value ∨ futOf s i = .excWorker) :
    s.execW.count i = 1 ∧ expectedFut (specOf s (s.taskOf.getD i 0)) i (futOf s i) = true := by
  have hr := h.reachable
  refine ⟨C02_no_fabricated_value cfg s hr i hv, ?_⟩
  have hd : (futOf s i).done = true := by rcases hv with e | e <;> rw [e] <;> rfl
  have hp : (futOf s i).poolErr = false := by rcases hv with e | e <;> rw [e] <;> rfl
  exact (C02_every_resolved_future_own_outcome_or_pool_error cfg (benign_of_staticPool cfg hc)
    (noKill_of_staticPool cfg hc) s hr i hd).2.2 hp

/-- **A run that never breaks the pool gives every future its own outcome** — deaths or not (a worker that dies
    unregistered-and-unwatched, or at the very end, may go unnoticed): at a quiescent state in which the pool is not
    flagged broken, every future is resolved and the stricter `expectedFut` of C04 / C05 holds: no pool error. -/
theorem C02_unbroken_run_has_own_outcomes (cfg : Cfg) (hc : cfg.staticPool = true) (s : St) (h : ReachableLF cfg s)
    (hq : enabledNC s = []) (hn : s.broken = none) :
    ∀ i, i < s.futs.length →
      (futOf s i).done = true ∧ expectedFut (specOf s (s.taskOf.getD i 0)) i (futOf s i) = true := by
  intro i hi
  have hb := benign_of_staticPool cfg hc
  have hk := noKill_of_staticPool cfg hc
  obtain ⟨hd, _⟩ := C02_static_pool_crash_outcomes cfg hc s h hq i hi
  refine ⟨hd, (C02_every_resolved_future_own_outcome_or_pool_error cfg hb hk s h.reachable i hd).2.2 ?_⟩
  obtain ⟨h1, h2⟩ := C02_no_pool_error_while_unbroken cfg hb hk s h.reachable hn i
  cases hf : futOf s i <;> first | rfl | exact absurd hf h1 | exact absurd hf h2

/-- **Which pool error**: in a static pool nothing fails to un-pickle, so the only way to break the pool is an
    unannounced death: no future ever holds `BrokenProcessPool`, and the pool is never flagged with that kind of break — the
    pool error of C02 is `TerminatedWorkerError`. -/
theorem C02_static_pool_error_is_terminated_worker (cfg : Cfg) (hc : cfg.staticPool = true) (s : St)
    (h : ReachableLF cfg s) : (∀ i, futOf s i ≠ .excBroken) ∧ (s.broken = none ∨ s.broken = some .terminated) :=
  ⟨noExcBroken_reachableLF hc h, broken_kind_reachableLF hc h⟩

/-- `C02_static_pool_crash_outcomes`, sharpened accordingly: at the end of a maximal run every future is resolved, with
    the outcome of its own task (or the cancellation) — or with `TerminatedWorkerError`, on a pool flagged broken by a
    death. -/
theorem C02_static_pool_crash_outcomes_sharp (cfg : Cfg) (hc : cfg.staticPool = true) (s : St) (h : ReachableLF cfg s)
    (hq : enabledNC s = []) :
    ∀ i, i < s.futs.length →
      (futOf s i).done = true ∧
      (expectedFut (specOf s (s.taskOf.getD i 0)) i (futOf s i) = true ∨
       (futOf s i = .excTerminated ∧ s.broken = some .terminated ∧ anyDead s = true)) := by
  intro i hi
  obtain ⟨hd, _⟩ := C02_static_pool_crash_outcomes cfg hc s h hq i hi
  refine ⟨hd, ?_⟩
  obtain ⟨_, h2, h3⟩ := C02_every_resolved_future_own_outcome_or_pool_error cfg (benign_of_staticPool cfg hc)
    (noKill_of_staticPool cfg hc) s h.reachable i hd
  cases hp : (futOf s i).poolErr with
  | false => exact Or.inl (h3 hp)
  | true =>
    right
    have hnb := noExcBroken_reachableLF hc h i
    have ht : futOf s i = .excTerminated := by
      cases hf : futOf s i <;> rw [hf] at hp <;> first | rfl | exact absurd hf hnb | cases hp
    have hbs := h2 hp
    refine ⟨ht, ?_, (C02_static_pool_broken_facts cfg hc s h hbs).1⟩
    rcases broken_kind_reachableLF hc h with e | e
    · rw [e] at hbs; cases hbs
    · exact e

/-- the executable forms evaluated by `Drivers/LiveCheckOutcomeC.lean` in every state of its random walks are theorems -/
theorem ownOutcomesC_reachable (cfg : Cfg) (hb : cfg.benign) (hk : cfg.noKill = true) (s : St) (h : Reachable cfg s) :
    ownOutcomesC s = true := by
  unfold ownOutcomesC
  rw [List.all_eq_true]
  intro i _
  cases hd : (futOf s i).done with
  | false => rfl
  | true =>
    obtain ⟨h1, h2, h3⟩ := C02_every_resolved_future_own_outcome_or_pool_error cfg hb hk s h i hd
    simp only [Bool.not_true, Bool.false_or, Bool.and_eq_true, Bool.or_eq_true]
    refine ⟨h1, ?_⟩
    cases hp : (futOf s i).poolErr with
    | true => exact Or.inl (h2 hp)
    | false => exact Or.inr (h3 hp)

theorem poolErrOk_reachableLF (cfg : Cfg) (hc : cfg.staticPool = true) (s : St) (h : ReachableLF cfg s) :
    poolErrOk s = true := by
  unfold poolErrOk
  rw [List.all_eq_true]
  intro i _
  cases hp : (futOf s i).poolErr with
  | false => rfl
  | true =>
    have he : futOf s i = .excTerminated ∨ futOf s i = .excBroken := by
      cases hf : futOf s i <;> rw [hf] at hp <;> first | exact Or.inl rfl | exact Or.inr rfl | cases hp
    obtain ⟨h1, h2, _⟩ := C02_pool_error_only_after_break cfg hc s h i he
    simp [h1, h2]

/-! ### non-vacuity -/

/-- the run of `Props/C02Live.lean` (worker 100 killed inside the first task, the second task still queued): both futures
    end with `TerminatedWorkerError`, which `expectedFutC` allows and `expectedFut` does not; the pool is flagged -/
theorem C02_witness_crash_outcomes :
    (runLF (init cfgCrash) schedCrash).map (fun s =>
        (((enabledNC s).isEmpty, s.futs, s.broken),
         (List.range s.futs.length).map (fun i => expectedFutC (specOf s (s.taskOf.getD i 0)) i (futOf s i)),
         (List.range s.futs.length).map (fun i => expectedFut (specOf s (s.taskOf.getD i 0)) i (futOf s i)))) =
    some ((true, [.excTerminated, .excTerminated], some .terminated), [true, true], [false, false]) := by
  decide +kernel

/-- the same pool and script; worker 100 runs the first task and its value is delivered; only then worker 101 is killed
    inside the body of the second task (step 53) -/
def schedValueThenCrash : List (Actor × Variant) :=
  [(.U 0, .ok), (.U 0, .ok), (.U 0, .ok), (.U 0, .ok), (.U 0, .ok), (.U 0, .ok), (.U 0, .ok), (.U 0, .ok),
   (.W 100, .ok), (.W 100, .ok), (.U 0, .ok), (.W 101, .ok), (.U 0, .ok), (.M, .ok), (.U 0, .ok), (.M, .ok),
   (.U 0, .ok), (.U 0, .ok), (.M, .ok), (.U 0, .ok), (.F, .ok), (.M, .ok), (.M, .ok), (.F, .ok), (.F, .ok),
   (.W 100, .ok), (.F, .ok), (.U 0, .ok), (.W 100, .ok), (.W 100, .ok), (.M, .ok), (.W 101, .ok), (.M, .fail),
   (.W 100, .ok), (.M, .ok), (.W 100, .ok), (.W 100, .ok), (.W 100, .ok), (.U 0, .ok), (.F, .ok), (.M, .ok),
   (.W 100, .ok), (.F, .ok), (.F, .ok), (.W 101, .ok), (.W 101, .ok), (.M, .ok), (.W 100, .ok), (.M, .fail),
   (.U 0, .ok), (.W 101, .ok), (.W 101, .ok), (.W 101, .crash), (.M, .ok), (.F, .ok), (.M, .fail), (.U 0, .ok),
   (.U 0, .ok), (.U 0, .ok), (.M, .ok), (.M, .ok), (.U 0, .ok), (.U 0, .ok), (.M, .ok), (.M, .ok), (.M, .ok),
   (.M, .ok), (.M, .ok), (.M, .ok), (.M, .ok), (.M, .ok), (.U 0, .ok), (.F, .ok), (.M, .ok), (.M, .ok), (.U 0, .ok),
   (.U 0, .ok), (.U 0, .ok), (.U 0, .ok)]

example : schedValueThenCrash.length = 79 ∧ schedValueThenCrash[52]? = some (.W 101, .crash) := by decide +kernel
/-- the state just before the death: the first future already holds its value, the second is running, worker 101 is
    inside the body of the second task (a lock-free point), the pool is not flagged -/
theorem C02_witness_value_before_death :
    (runLF (init cfgCrash) (schedValueThenCrash.take 52)).map (fun s =>
        (s.futs, s.w 101, lockFree (s.w 101), s.broken, anyDead s)) =
    some ([.value, .running], .taskEnd 1 1, true, none, false) := by decide +kernel

set_option synthInstance.maxSize 512 in
/-- **a future resolved before the death keeps its value; the unresolved one fails with the pool error**: the run ends
    quiescent and good; the first future still holds the value of its own task (one execution of work id 0), the second
    one `TerminatedWorkerError`; the pool is flagged broken; both are what `expectedFutC` allows, the first also what
    `expectedFut` allows -/
theorem C02_witness_value_kept_across_break :
    (runLF (init cfgCrash) schedValueThenCrash).map (fun s =>
        (((enabledNC s).isEmpty, good s, s.futs, s.broken), (s.execW, s.shutdownFlag),
         (List.range s.futs.length).map (fun i => expectedFutC (specOf s (s.taskOf.getD i 0)) i (futOf s i)),
         (List.range s.futs.length).map (fun i => expectedFut (specOf s (s.taskOf.getD i 0)) i (futOf s i)))) =
    some ((true, true, [.value, .excTerminated], some .terminated), ([0, 1], true), [true, true], [true, false]) := by
  decide +kernel

/-- the theorems apply to that run: its end state is a quiescent state of a lock-free crash run of a static pool -/
theorem C02_witness_value_kept_in_scope : ∃ s, runLF (init cfgCrash) schedValueThenCrash = some s ∧
    ReachableLF cfgCrash s ∧ enabledNC s = [] ∧ s.futs = [.value, .excTerminated] ∧ ownOutcomesC s = true ∧
    poolErrOk s = true := by
  have h : (runLF (init cfgCrash) schedValueThenCrash).map (fun s => ((enabledNC s).isEmpty, s.futs)) =
      some (true, [.value, .excTerminated]) := by decide +kernel
  cases hr : runLF (init cfgCrash) schedValueThenCrash with
  | none => rw [hr] at h; cases h
  | some s =>
    rw [hr] at h
    simp only [Option.map_some, Option.some.injEq, Prod.mk.injEq, List.isEmpty_iff] at h
    have hR := reachableLF_of_run schedValueThenCrash _ s .init hr
    have hc : cfgCrash.staticPool = true := by decide
    exact ⟨s, rfl, hR, h.1, h.2,
      ownOutcomesC_reachable cfgCrash (benign_of_staticPool _ hc) (noKill_of_staticPool _ hc) s hR.reachable,
      poolErrOk_reachableLF cfgCrash hc s hR⟩

/-- **the hypothesis "no forced shutdown" is needed** for the clause "never `ShutdownExecutorError`": the run of
    `Props/C05Live.lean` with `shutdown(kill_workers=True)` ends with that error on the future, which `expectedFutC` does
    not allow either -/
theorem C02_witness_forced_shutdown_excluded :
    (run (init cfgKillOutcome) schedKillOutcome).map
        (fun s => (s.futs, s.broken, cfgKillOutcome.noKill, ownOutcomesC s))
      = some ([.excShutdown], none, false, false) := by decide +kernel

end LokyModel.Exec
