import LokyModel.Lemmas.ExecTerm
import LokyModel.Lemmas.ExecStickyKill
import LokyModel.Props.C02
/-!
# C06 — forced shutdown is prompt, total and explicit (executor protocol)

Theorems over M1 about the `kill_workers=True` path.  "Time independent of how long the running tasks
would take" is stated as a statement about *which actors must move*: from the moment the manager has
seen the flag, every one of its operations up to `join_executor_internals` is enabled without any
step of a worker, a feeder or a user.  The E1 runs of the `kill` family additionally execute the real
code under a scheduler that never lets a task body finish.  Known finding D5 (a worker killed — by the
manager's own SIGKILL — while it holds the processes-management lock blocks the manager's final join)
is witnessed in `Props/C01.lean`.
-/
namespace LokyModel.Exec

/-- `shutdown(kill_workers=True)` records the request under the shutdown lock: from then on `submit`
    is refused and the manager will take the kill path. -/
theorem C06_shutdown_sets_flags (s s' : St) (k : Nat) (w : Bool) (hpc : s.upc k = .sdAcq1 w true)
    (hs : stepU s k .ok = some s') : s'.shutdownFlag = true ∧ s'.killFlag = true := by
  unfold stepU at hs; simp only [hpc, acq_map] at hs
  split at hs
  · cases hs; simp [setU]
  · cases hs

/-- `shutdown(wait, kill_workers)` in general: the request is OR-ed into the flag
    (`self.kill_workers = self.kill_workers or kill_workers`), it is not overwritten: a later
    `shutdown(kill_workers=False)` — e.g. the one `__exit__` or a second caller issues — does not withdraw a forced
    shutdown that the manager thread has not acted upon yet. -/
theorem C06_shutdown_ors_kill_request (s s' : St) (k : Nat) (w kl : Bool) (hpc : s.upc k = .sdAcq1 w kl)
    (hs : stepU s k .ok = some s') : s'.shutdownFlag = true ∧ s'.killFlag = (s.killFlag || kl) := by
  unfold stepU at hs; simp only [hpc, acq_map] at hs
  split at hs
  · cases hs; simp [setU]
  · cases hs

/-- **The kill request is sticky**: once `kill_workers` is recorded it stays recorded along every step of every actor,
    every variant (time-outs, failed try-locks, crashes) — in particular across any later `shutdown(kill_workers=False)`,
    garbage collection of the executor, interpreter exit. -/
theorem C06_kill_request_is_sticky {s s' : St} {a : Actor} {v : Variant} (hs : step s a v = some s')
    (hk : s.killFlag = true) : s'.killFlag = true :=
  stickyKill_step hs hk

/-- **A kill request issued at any time before the manager reads the flag is seen by the manager**: from a reachable
    state in which the request is recorded, every state of every continuation of the run still has it recorded … -/
theorem C06_kill_request_never_lost (cfg : Cfg) (s : St) (_h : Reachable cfg s) (hk : s.killFlag = true) :
    ∀ (sched : List (Actor × Variant)) (s' : St), run s sched = some s' → s'.killFlag = true :=
  fun sched s' hr => stickyKill_run sched s s' hr hk

/-- … so that whenever, later in the run, the manager thread leaves the lock section of `flag_executor_shutting_down`,
    it takes the kill path: it fails every unfinished future with the shutdown error and starts the kill loop. -/
theorem C06_kill_request_seen_by_manager (cfg : Cfg) (s : St) (_h : Reachable cfg s) (hk : s.killFlag = true)
    (sched : List (Actor × Variant)) (s' s'' : St) (hr : run s sched = some s') (hm : s'.mpc = .flagRel)
    (h1 : step s' .M .ok = some s'') :
    s'' = mKillNext (failAll { s' with shut := s'.shut + 1, oShut := none, pending := [] } s'.pending .excShutdown) := by
  have hk' : s'.killFlag = true := stickyKill_run sched s s' hr hk
  have hs : stepM s' .ok = some s'' := h1
  unfold stepM at hs
  rw [hm] at hs
  simp at hs
  rw [← hs]
  unfold mAfterFlag
  exact if_pos hk'

/-- The manager's reaction, part 1: every unfinished future that is not cancelled fails with
    `ShutdownExecutorError`; nothing stays pending; the kill loop starts. -/
theorem C06_flag_then_fail_all (s : St) (hk : s.killFlag = true) :
    mAfterFlag s = mKillNext (failAll { s with pending := [] } s.pending .excShutdown) := by
  unfold mAfterFlag; simp [hk]

theorem C06_unfinished_get_shutdown_error (s0 : St) (ws : List Wid) (i : Wid) (hi : i ∈ ws)
    (hlt : i < s0.futs.length) (hc : s0.futs.getD i .pending ≠ .cancelled) :
    (failAll s0 ws .excShutdown).futs.getD i .pending = .excShutdown := by
  rw [failAll_spec _ _ _ (by simp), if_pos ⟨hi, hlt, hc⟩]

/-- futures that were already resolved (or cancelled) keep their outcome -/
theorem C06_finished_keep_outcome (s0 : St) (ws : List Wid) (i : Wid)
    (h : i ∉ ws ∨ s0.futs.getD i .pending = .cancelled) :
    (failAll s0 ws .excShutdown).futs.getD i .pending = s0.futs.getD i .pending := by
  rw [failAll_spec _ _ _ (by simp)]
  split
  · rename_i h2; rcases h with h | h
    · exact absurd h2.1 h
    · exact absurd h h2.2.2
  · rfl

/-- Part 2: the kill loop runs to completion on the manager's own steps — two per registered worker —
    with no step of any other actor in between; afterwards no worker is registered, every formerly
    registered worker is dead, and the manager stands at `join_executor_internals`. -/
theorem C06_kill_loop_completes (n : Nat) : ∀ (s : St), s.procDict.length = n →
    ∃ s', mRun (2 * n) (mKillNext s) = some s' ∧ s'.mpc = .jAcq1 ∧ s'.procDict = [] ∧
      (∀ p ∈ s.procDict, isDead s' p = true) ∧ (∀ p, isDead s p = true → isDead s' p = true) ∧
      s'.futs = s.futs ∧ s'.pending = s.pending := by
  induction n with
  | zero =>
    intro s hl
    have : s.procDict = [] := List.eq_nil_of_length_eq_zero hl
    refine ⟨mKillNext s, rfl, ?_, ?_, ?_, ?_, ?_, ?_⟩ <;> simp [mKillNext, this, mJoinStart, isDead]
  | succ n ih =>
    intro s hl
    have hne : s.procDict ≠ [] := by intro h; simp [h] at hl
    obtain ⟨p, hp⟩ : ∃ p, s.procDict.getLast? = some p := by
      cases h : s.procDict.getLast? with
      | none => simp [List.getLast?_eq_none_iff] at h; exact absurd h hne
      | some p => exact ⟨p, rfl⟩
    -- first step: kill(p); second step: join(p)
    let s1 : St := { s with procDict := s.procDict.dropLast, mpc := .kill p }
    have hk : mKillNext s = s1 := by simp [mKillNext, hp, s1]
    let s2 : St := if alive s1 p = true then die { s1 with mpc := .killJoin p } p (-9) else { s1 with mpc := .killJoin p }
    have h1 : stepM s1 .ok = some s2 := by unfold stepM; simp [s1, s2]
    have hd2 : isDead s2 p = true := by
      simp only [s2]; split
      · simp [isDead, die, upd]
      · rename_i h; simpa [alive, isDead] using h
    have hm2 : s2.mpc = .killJoin p := by simp only [s2]; split <;> rfl
    have hpd2 : s2.procDict = s.procDict.dropLast := by simp only [s2]; split <;> rfl
    have h2 : stepM s2 .ok = some (mKillNext s2) := by unfold stepM; simp [hm2, hd2]
    have hl2 : s2.procDict.length = n := by rw [hpd2]; simp; omega
    obtain ⟨s', hr, hm, hpd, hdead, hmono, hf, hpe⟩ := ih s2 hl2
    have hw2 : ∀ q, isDead s q = true → isDead s2 q = true := by
      intro q hq; simp only [s2]; split
      · simp only [isDead, die, upd] at hq ⊢; split <;> simp_all [s1]
      · simpa [s1, isDead] using hq
    refine ⟨s', ?_, hm, hpd, ?_, ?_, ?_, ?_⟩
    · have : 2 * (n + 1) = (2 * n + 1) + 1 := by omega
      rw [this, hk]
      simp only [mRun, h1, Option.bind_some, h2]
      exact hr
    · intro q hq
      have hgl : s.procDict.getLast hne = p := by
        have := List.getLast?_eq_some_getLast hne; rw [hp] at this; injection this with this; exact this.symm
      have hsplit : s.procDict.dropLast ++ [p] = s.procDict := by rw [← hgl]; exact List.dropLast_concat_getLast hne
      rw [← hsplit] at hq
      rcases List.mem_append.1 hq with hq | hq
      · exact hdead q (by rw [hpd2]; exact hq)
      · simp at hq; subst hq; exact hmono q hd2
    · intro q hq; exact hmono q (hw2 q hq)
    · rw [hf]; simp only [s2]; split <;> rfl
    · rw [hpe]; simp only [s2]; split <;> rfl

/-- After the flag, `submit` is refused with `ShutdownExecutorError` (no future is created). -/
theorem C06_submit_after_kill_shutdown_raises (s s' : St) (k : Nat) (t : Tid)
    (hpc : s.upc k = .subAcqShut t) (hb : s.broken = none) (hf : s.shutdownFlag = true)
    (hs : stepU s k .ok = some s') : s'.upc k = .subRelShut ∧ s'.futs = s.futs ∧ s'.pending = s.pending := by
  unfold stepU at hs; simp only [hpc, acq_map] at hs
  split at hs
  · cases hs; simp [hb, hf, setU]
  · cases hs

/-! non-vacuity: two registered workers, kill loop: four manager steps -/
example : ∃ s', mRun 4 (mKillNext { (init { maxWorkers := 2, timeout := false, tasks := [], scripts := [] }) with
      procDict := [100, 101], allPids := [100, 101], w := fun p => if p = 100 ∨ p = 101 then .gAcq else .dead })
    = some s' ∧ s'.mpc = .jAcq1 ∧ s'.procDict = [] :=
  ⟨_, rfl, rfl, rfl⟩

/-! non-vacuity of the sticky kill request: `shutdown(wait=False, kill_workers=True)` followed by
    `shutdown(wait=False, kill_workers=False)` (what leaving a `with` block, or a second owner, does) before the manager
    thread has looked at the flag -/

/-- one worker, one task; a forced shutdown, then a plain one -/
def cfgKillThenPlain : Cfg :=
  { maxWorkers := 1, timeout := false, tasks := [{}],
    scripts := [[.create, .submit 0, .shutdown false true, .shutdown false false]] }

/-- the thread runs its whole script (23 steps) before the manager thread gets to run; the manager then finds the
    shutdown flag and enters `flag_executor_shutting_down` -/
def schedKillThenPlain : List (Actor × Variant) :=
  List.replicate 23 (.U 0, .ok) ++ List.replicate 10 (.M, .ok) ++ [(.M, .fail), (.M, .ok)]

/-- the manager is about to read the flag, both `shutdown` calls have returned, the task is unfinished — and the kill
    request of the FIRST call is still there -/
theorem C06_witness_kill_then_plain :
    (run (init cfgKillThenPlain) schedKillThenPlain).map
        (fun s => ((s.mpc, s.upc 0, s.shutdownFlag, s.killFlag), (s.futs.map Fut.done, s.pending)))
      = some ((.flagRel, .done, true, true), ([false], [0])) := by decide +kernel

/-- … the manager's next step fails the future with the shutdown error and starts the kill loop … -/
theorem C06_witness_kill_then_plain_seen :
    (run (init cfgKillThenPlain) (schedKillThenPlain ++ [(.M, .ok)])).map (fun s => (s.mpc, s.futs, s.pending))
      = some (.kill 100, [.excShutdown], []) := by decide +kernel

/-- … and the run ends with the worker killed, manager and feeder threads gone. -/
theorem C06_witness_kill_then_plain_ends :
    (run (init cfgKillThenPlain)
        (schedKillThenPlain ++ List.replicate 9 (.M, .ok) ++ List.replicate 4 (.F, .ok))).map
        (fun s => (s.mpc, s.fpc, s.w 100, s.futs))
      = some (.done, .done, .dead, [.excShutdown]) := by decide +kernel

/-- **Total**: from the moment the manager starts killing workers, every future of the executor is resolved
    (the unfinished ones with `ShutdownExecutorError`, `C06_unfinished_get_shutdown_error`) and none of them
    changes afterwards, whatever results are still in the pipes. -/
theorem C06_all_resolved_and_frozen (cfg : Cfg) (s s' : St) (sched : List (Actor × Variant)) (h : Reachable cfg s)
    (ht : mTerm s.mpc = true) (hr : run s sched = some s') (i : Wid) (hi : i < s.futs.length) :
    (futOf s i).done = true ∧ futOf s' i = futOf s i := by
  have hp := termInv_reachable h ht
  have hd := (futInv_reachable h).resolved i hi (by rw [hp]; simp)
  exact ⟨hd, done_sticky_run sched s s' h hr i hd⟩

end LokyModel.Exec
