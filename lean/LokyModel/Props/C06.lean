import LokyModel.Lemmas.ExecTerm
import LokyModel.Props.C02
/-!
# C06 — forced shutdown is prompt, total and explicit (executor protocol)

Theorems over M1 about the `kill_workers=True` path.  "Time independent of how long the running tasks
would take" is stated as a statement about *which actors must move*: from the moment the manager has
seen the flag, every one of its operations up to `join_executor_internals` is enabled without any
step of a worker, a feeder or a user.  The E1 runs of the `kill` family additionally execute the real
code under a scheduler that never lets a task body finish.  Known finding D5 (a worker killed — by the
manager's own SIGKILL — while it holds the processes-management lock blocks the manager's final join)
is witnessed in `Props/C01.lean`.
-/
namespace LokyModel.Exec

/-- `shutdown(kill_workers=True)` records the request under the shutdown lock: from then on `submit`
    is refused and the manager will take the kill path. -/
theorem C06_shutdown_sets_flags (s s' : St) (k : Nat) (w : Bool) (hpc : s.upc k = .sdAcq1 w true)
    (hs : stepU s k .ok = some s') : s'.shutdownFlag = true ∧ s'.killFlag = true := by
  unfold stepU at hs; simp only [hpc, acq_map] at hs
  split at hs
  · cases hs; simp [setU]
  · cases hs

/-- The manager's reaction, part 1: every unfinished future that is not cancelled fails with
    `ShutdownExecutorError`; nothing stays pending; the kill loop starts. -/
theorem C06_flag_then_fail_all (s : St) (hk : s.killFlag = true) :
    mAfterFlag s = mKillNext (failAll { s with pending := [] } s.pending .excShutdown) := by
  unfold mAfterFlag; simp [hk]

theorem C06_unfinished_get_shutdown_error (s0 : St) (ws : List Wid) (i : Wid) (hi : i ∈ ws)
    (hlt : i < s0.futs.length) (hc : s0.futs.getD i .pending ≠ .cancelled) :
    (failAll s0 ws .excShutdown).futs.getD i .pending = .excShutdown := by
  rw [failAll_spec _ _ _ (by simp), if_pos ⟨hi, hlt, hc⟩]

/-- futures that were already resolved (or cancelled) keep their outcome -/
theorem C06_finished_keep_outcome (s0 : St) (ws : List Wid) (i : Wid)
    (h : i ∉ ws ∨ s0.futs.getD i .pending = .cancelled) :
    (failAll s0 ws .excShutdown).futs.getD i .pending = s0.futs.getD i .pending := by
  rw [failAll_spec _ _ _ (by simp)]
  split
  · rename_i h2; rcases h with h | h
    · exact absurd h2.1 h
    · exact absurd h h2.2.2
  · rfl

/-- Part 2: the kill loop runs to completion on the manager's own steps — two per registered worker —
    with no step of any other actor in between; afterwards no worker is registered, every formerly
    registered worker is dead, and the manager stands at `join_executor_internals`. -/
theorem C06_kill_loop_completes (n : Nat) : ∀ (s : St), s.procDict.length = n →
    ∃ s', mRun (2 * n) (mKillNext s) = some s' ∧ s'.mpc = .jAcq1 ∧ s'.procDict = [] ∧
      (∀ p ∈ s.procDict, isDead s' p = true) ∧ (∀ p, isDead s p = true → isDead s' p = true) ∧
      s'.futs = s.futs ∧ s'.pending = s.pending := by
  induction n with
  | zero =>
    intro s hl
    have : s.procDict = [] := List.eq_nil_of_length_eq_zero hl
    refine ⟨mKillNext s, rfl, ?_, ?_, ?_, ?_, ?_, ?_⟩ <;> simp [mKillNext, this, mJoinStart, isDead]
  | succ n ih =>
    intro s hl
    have hne : s.procDict ≠ [] := by intro h; simp [h] at hl
    obtain ⟨p, hp⟩ : ∃ p, s.procDict.getLast? = some p := by
      cases h : s.procDict.getLast? with
      | none => simp [List.getLast?_eq_none_iff] at h; exact absurd h hne
      | some p => exact ⟨p, rfl⟩
    -- first step: kill(p); second step: join(p)
    let s1 : St := { s with procDict := s.procDict.dropLast, mpc := .kill p }
    have hk : mKillNext s = s1 := by simp [mKillNext, hp, s1]
    let s2 : St := if alive s1 p = true then die { s1 with mpc := .killJoin p } p (-9) else { s1 with mpc := .killJoin p }
    have h1 : stepM s1 .ok = some s2 := by unfold stepM; simp [s1, s2]
    have hd2 : isDead s2 p = true := by
      simp only [s2]; split
      · simp [isDead, die, upd]
      · rename_i h; simpa [alive, isDead] using h
    have hm2 : s2.mpc = .killJoin p := by simp only [s2]; split <;> rfl
    have hpd2 : s2.procDict = s.procDict.dropLast := by simp only [s2]; split <;> rfl
    have h2 : stepM s2 .ok = some (mKillNext s2) := by unfold stepM; simp [hm2, hd2]
    have hl2 : s2.procDict.length = n := by rw [hpd2]; simp; omega
    obtain ⟨s', hr, hm, hpd, hdead, hmono, hf, hpe⟩ := ih s2 hl2
    have hw2 : ∀ q, isDead s q = true → isDead s2 q = true := by
      intro q hq; simp only [s2]; split
      · simp only [isDead, die, upd] at hq ⊢; split <;> simp_all [s1]
      · simpa [s1, isDead] using hq
    refine ⟨s', ?_, hm, hpd, ?_, ?_, ?_, ?_⟩
    · have : 2 * (n + 1) = (2 * n + 1) + 1 := by omega
      rw [this, hk]
      simp only [mRun, h1, Option.bind_some, h2]
      exact hr
    · intro q hq
      have hgl : s.procDict.getLast hne = p := by
        have := List.getLast?_eq_some_getLast hne; rw [hp] at this; injection this with this; exact this.symm
      have hsplit : s.procDict.dropLast ++ [p] = s.procDict := by rw [← hgl]; exact List.dropLast_concat_getLast hne
      rw [← hsplit] at hq
      rcases List.mem_append.1 hq with hq | hq
      · exact hdead q (by rw [hpd2]; exact hq)
      · simp at hq; subst hq; exact hmono q hd2
    · intro q hq; exact hmono q (hw2 q hq)
    · rw [hf]; simp only [s2]; split <;> rfl
    · rw [hpe]; simp only [s2]; split <;> rfl

/-- After the flag, `submit` is refused with `ShutdownExecutorError` (no future is created). -/
theorem C06_submit_after_kill_shutdown_raises (s s' : St) (k : Nat) (t : Tid)
    (hpc : s.upc k = .subAcqShut t) (hb : s.broken = none) (hf : s.shutdownFlag = true)
    (hs : stepU s k .ok = some s') : s'.upc k = .subRelShut ∧ s'.futs = s.futs ∧ s'.pending = s.pending := by
  unfold stepU at hs; simp only [hpc, acq_map] at hs
  split at hs
  · cases hs; simp [hb, hf, setU]
  · cases hs

/-! non-vacuity: two registered workers, kill loop: four manager steps -/
example : ∃ s', mRun 4 (mKillNext { (init { maxWorkers := 2, timeout := false, tasks := [], scripts := [] }) with
      procDict := [100, 101], allPids := [100, 101], w := fun p => if p = 100 ∨ p = 101 then .gAcq else .dead })
    = some s' ∧ s'.mpc = .jAcq1 ∧ s'.procDict = [] :=
  ⟨_, rfl, rfl, rfl⟩


/-- **Total**: from the moment the manager starts killing workers, every future of the executor is resolved
    (the unfinished ones with `ShutdownExecutorError`, `C06_unfinished_get_shutdown_error`) and none of them
    changes afterwards, whatever results are still in the pipes. -/
theorem C06_all_resolved_and_frozen (cfg : Cfg) (s s' : St) (sched : List (Actor × Variant)) (h : Reachable cfg s)
    (ht : mTerm s.mpc = true) (hr : run s sched = some s') (i : Wid) (hi : i < s.futs.length) :
    (futOf s i).done = true ∧ futOf s' i = futOf s i := by
  have hp := termInv_reachable h ht
  have hd := (futInv_reachable h).resolved i hi (by rw [hp]; simp)
  exact ⟨hd, done_sticky_run sched s s' h hr i hd⟩

end LokyModel.Exec
