import LokyModel.Lemmas.ExecLiveMeasure
import LokyModel.Props.C01Live
/-!
# C01 — termination of static pools: crash-free runs are finite, and every maximal one ends in a good state

`Props/C01Live.lean` proves deadlock freedom (a quiescent state reached without crash steps is a good one).  This file
adds the other half of "every future resolves *in finite time*, every call returns": the executable measure
`mu : St → Nat` (`LokyModel/ExecLiveMeasureDef.lean`) strictly decreases on every step that a static pool takes from a
state reached without crash steps (`mu_decreases`, `Lemmas/ExecLiveMeasure.lean`).  Hence

* `C01_static_pool_runs_are_finite`: a crash-free schedule that runs from `init cfg` has at most `mu (init cfg)` steps;
* `C01_static_pool_no_infinite_run`: there is no infinite crash-free run — **whatever the scheduler**, fair or not: the
  model of a static pool has no polling loop (the `queue.Full` back-off of `shutdown_workers` is bounded by its own
  counter, the worker's try-lock retry exists only with idle time-outs);
* `C01_static_pool_terminates_good`: every *maximal* crash-free run from a reachable state `s` (one that ends where no
  step other than a crash is enabled) has at most `mu s` steps and ends in a `good` state: every future resolved, every
  user thread at the end of its script;
* `C01_static_pool_reaches_good`: every crash-free run can be extended — by at most `mu` steps, and, by the previous
  theorem, by ANY choice of enabled steps — to a good quiescent state.
-/
namespace LokyModel.Exec

/-- along a crash-free schedule the measure pays for every step -/
theorem mu_run {cfg : Cfg} (hc : cfg.staticPool = true) : ∀ (sched : List (Actor × Variant)) (s0 s : St),
    ReachableNC cfg s0 → (∀ av ∈ sched, av.2 ≠ .crash) → run s0 sched = some s → sched.length + mu s ≤ mu s0 := by
  intro sched
  induction sched with
  | nil => intro s0 s _ _ hr; simp [run] at hr; subst hr; simp
  | cons x xs ih =>
    intro s0 s h0 hnc hr
    obtain ⟨a, v⟩ := x
    simp only [run] at hr
    cases hs : step s0 a v with
    | none => simp [hs] at hr
    | some s1 =>
      simp only [hs, Option.bind_some] at hr
      have hv : v ≠ .crash := hnc (a, v) (by simp)
      have h1 := mu_decreases h0 hc hv hs
      have h2 := ih s1 s (.step h0 hv hs) (fun av hav => hnc av (by simp [hav])) hr
      simp only [List.length_cons]
      omega

/-- **C01, static pools: runs are finite.**  A schedule without crash steps that runs from the initial state has at
    most `mu (init cfg)` steps. -/
theorem C01_static_pool_runs_are_finite (cfg : Cfg) (hc : cfg.staticPool = true) (sched : List (Actor × Variant))
    (s : St) (hnc : ∀ av ∈ sched, av.2 ≠ .crash) (hrun : run (init cfg) sched = some s) :
    sched.length ≤ mu (init cfg) := by
  have := mu_run hc sched (init cfg) s .init hnc hrun
  omega

/-- … in the form of infinite runs: there is none, under any scheduler. -/
theorem C01_static_pool_no_infinite_run (cfg : Cfg) (hc : cfg.staticPool = true) (σ : Nat → St)
    (act : Nat → Actor × Variant) (h0 : σ 0 = init cfg)
    (hstep : ∀ n, (act n).2 ≠ .crash ∧ step (σ n) (act n).1 (act n).2 = some (σ (n + 1))) : False := by
  have key : ∀ n, ReachableNC cfg (σ n) ∧ n + mu (σ n) ≤ mu (σ 0) := by
    intro n
    induction n with
    | zero => exact ⟨h0 ▸ .init, by simp⟩
    | succ n ih =>
      have h1 := mu_decreases ih.1 hc (hstep n).1 (hstep n).2
      exact ⟨.step ih.1 (hstep n).1 (hstep n).2, by omega⟩
  have := (key (mu (σ 0) + 1)).2
  omega

/-- **C01, static pools: every maximal crash-free run is short and ends well.**  From any state `s0` that a static
    pool reaches without crash steps, a crash-free schedule that ends in a state where nothing but a crash is enabled
    has at most `mu s0` steps, and its last state is `good`: every future is resolved and every user thread has
    finished its script (every `submit`, `shutdown(wait=True)`, interpreter-exit hook has returned). -/
theorem C01_static_pool_terminates_good (cfg : Cfg) (hc : cfg.staticPool = true) (s0 : St) (h0 : ReachableNC cfg s0)
    (sched : List (Actor × Variant)) (s : St) (hnc : ∀ av ∈ sched, av.2 ≠ .crash) (hrun : run s0 sched = some s)
    (hmax : enabledNC s = []) : sched.length ≤ mu s0 ∧ good s = true := by
  constructor
  · have := mu_run hc sched s0 s h0 hnc hrun
    omega
  · exact C01_static_pool_no_deadlock cfg hc s (reachableNC_of_run sched s0 s h0 hnc hrun) hmax

/-- an element of `enabledNC` is an enabled step other than a crash -/
theorem mem_enabledNC {s : St} {a : Actor} {v : Variant} (h : (a, v) ∈ enabledNC s) :
    v ≠ .crash ∧ ∃ s', step s a v = some s' := by
  unfold enabledNC at h
  simp only [List.mem_flatMap, List.mem_map, List.mem_filter, Prod.mk.injEq] at h
  obtain ⟨a', _, v', ⟨hv, hen⟩, rfl, rfl⟩ := h
  constructor
  · intro e; subst e; simp at hv
  · exact Option.isSome_iff_exists.1 hen

/-- **C01, static pools: a good quiescent state is always within reach.**  From every state reached without crash
    steps there is a crash-free continuation of at most `mu s` steps to a quiescent, good state (and by
    `C01_static_pool_terminates_good` *every* way of continuing until nothing is enabled is such a continuation). -/
theorem C01_static_pool_reaches_good (cfg : Cfg) (hc : cfg.staticPool = true) (s : St) (h : ReachableNC cfg s) :
    ∃ (sched : List (Actor × Variant)) (s' : St), (∀ av ∈ sched, av.2 ≠ .crash) ∧ run s sched = some s' ∧
      sched.length ≤ mu s ∧ enabledNC s' = [] ∧ good s' = true := by
  generalize hn : mu s = n
  induction n using Nat.strongRecOn generalizing s with
  | _ n ih =>
    cases hen : enabledNC s with
    | nil =>
      exact ⟨[], s, by simp, rfl, by simp, hen, C01_static_pool_no_deadlock cfg hc s h hen⟩
    | cons x rest =>
      obtain ⟨a, v⟩ := x
      have hmem : (a, v) ∈ enabledNC s := by rw [hen]; simp
      obtain ⟨hv, s1, hs⟩ := mem_enabledNC hmem
      have hlt := mu_decreases h hc hv hs
      obtain ⟨sched, s', hnc, hrun, hlen, hq, hg⟩ := ih (mu s1) (by omega) s1 (.step h hv hs) rfl
      refine ⟨(a, v) :: sched, s', ?_, ?_, ?_, hq, hg⟩
      · intro av hav
        rcases List.mem_cons.1 hav with e | e
        · subst e; exact hv
        · exact hnc av e
      · simp [run, hs, hrun]
      · simp only [List.length_cons]; omega

/-- every crash-free run from the initial state can be extended to a good quiescent state, the whole run having at
    most `mu (init cfg)` steps -/
theorem C01_static_pool_run_extends_to_good (cfg : Cfg) (hc : cfg.staticPool = true) (sched : List (Actor × Variant))
    (s : St) (hnc : ∀ av ∈ sched, av.2 ≠ .crash) (hrun : run (init cfg) sched = some s) :
    ∃ (ext : List (Actor × Variant)) (s' : St), (∀ av ∈ sched ++ ext, av.2 ≠ .crash) ∧
      run (init cfg) (sched ++ ext) = some s' ∧ (sched ++ ext).length ≤ mu (init cfg) ∧ enabledNC s' = [] ∧
      good s' = true := by
  have hr := reachableNC_of_run sched (init cfg) s .init hnc hrun
  obtain ⟨ext, s', hnc', hrun', _, hq, hg⟩ := C01_static_pool_reaches_good cfg hc s hr
  have hall : ∀ av ∈ sched ++ ext, av.2 ≠ .crash := by
    intro av hav
    rcases List.mem_append.1 hav with e | e
    · exact hnc av e
    · exact hnc' av e
  have hrun2 : run (init cfg) (sched ++ ext) = some s' := by rw [run_append, hrun]; simpa using hrun'
  exact ⟨ext, s', hall, hrun2, C01_static_pool_runs_are_finite cfg hc _ s' hall hrun2, hq, hg⟩

/-! ### non-vacuity: the static pool and the run of `Props/C01Live.lean` -/

/-- the bound for `cfgLive` (two workers, two user threads, seven script operations) -/
example : mu (init cfgLive) = 1078 := by decide +kernel
/-- its run `schedLive` (121 steps, to a good quiescent state) is within the bound, and what is left of the measure at
    the end is the weight of messages that nobody will read (two `pid` messages, one wake-up byte) -/
example : schedLive.length = 121 ∧ schedLive.length ≤ mu (init cfgLive) := by decide +kernel
example : (run (init cfgLive) schedLive).map mu = some 19 := by decide +kernel
/-- the measure along the whole of that run: strictly decreasing -/
def muTrace (s : St) : List (Actor × Variant) → List Nat
  | [] => [mu s]
  | (a, v) :: rest => mu s :: (match step s a v with | some s' => muTrace s' rest | none => [])
example : (muTrace (init cfgLive) schedLive).length = 122 ∧ (muTrace (init cfgLive) schedLive).Pairwise (· > ·) := by
  decide +kernel

end LokyModel.Exec
