import LokyModel.Depth
/-!
# C19 (part "depth") — nesting depth is bounded exactly at `LOKY_MAX_DEPTH`

Property theorems only, over the model `LokyModel.Depth` (M9): all integers `MAX_DEPTH`
(0 / negative = unlimited), all depths, all start methods, chains of nested creations of any
length with any start method at every level.

"Raises instead of spawning" is, in this model, the shape of `createExecutor` (`.error` carries no
worker depth); that the real constructor raises before any process exists is checked on the
real code by the correspondence, and on the executor model (M1) by the coordinator's part.
-/
namespace LokyModel.Depth

/-! ## one creation -/

/-- creation succeeds ⇔ (not fork, or at depth 0) ∧ (unlimited, or depth < MAX_DEPTH) -/
theorem create_ok_iff (sm : StartMethod) (maxDepth : Int) (d : Nat) :
    checkMaxDepth sm maxDepth d = .ok ↔ (sm ≠ .fork ∨ d = 0) ∧ (maxDepth ≤ 0 ∨ (d : Int) < maxDepth) := by
  unfold checkMaxDepth
  grind

/-- otherwise `LokyRecursionError` is raised (there is no third outcome), for the stated reason -/
theorem create_error_iff (sm : StartMethod) (maxDepth : Int) (d : Nat) :
    (∃ why, checkMaxDepth sm maxDepth d = .recursionError why) ↔
      ¬ ((sm ≠ .fork ∨ d = 0) ∧ (maxDepth ≤ 0 ∨ (d : Int) < maxDepth)) := by
  rw [← create_ok_iff]
  cases h : checkMaxDepth sm maxDepth d with
  | ok => simp
  | recursionError why => simp

/-- the `fork` error: exactly a `fork` context at depth ≥ 1, whatever `MAX_DEPTH` -/
theorem fork_error_iff (sm : StartMethod) (maxDepth : Int) (d : Nat) :
    checkMaxDepth sm maxDepth d = .recursionError .fork ↔ sm = .fork ∧ 1 ≤ d := by
  unfold checkMaxDepth
  grind

/-- the limit error: exactly `1 ≤ MAX_DEPTH ≤ depth` (when the `fork` error does not pre-empt it) -/
theorem max_depth_error_iff (sm : StartMethod) (maxDepth : Int) (d : Nat) :
    checkMaxDepth sm maxDepth d = .recursionError .maxDepth ↔
      (sm ≠ .fork ∨ d = 0) ∧ 1 ≤ maxDepth ∧ maxDepth ≤ d := by
  unfold checkMaxDepth
  grind

/-- the workers of a successfully created executor run at exactly one more than their creator,
    and a failed creation has no workers -/
theorem worker_depth_succ (sm : StartMethod) (maxDepth : Int) (d : Nat) :
    createExecutor sm maxDepth d =
      if (sm ≠ .fork ∨ d = 0) ∧ (maxDepth ≤ 0 ∨ (d : Int) < maxDepth) then .ok (d + 1)
      else .error (if sm = .fork ∧ 1 ≤ d then .fork else .maxDepth) := by
  unfold createExecutor checkMaxDepth workerDepth shippedDepth
  grind

/-! ## `LOKY_MAX_DEPTH` -/

/-- `LOKY_MAX_DEPTH` unset: the limit is 10; set: the integer it holds; malformed: `ValueError` -/
theorem max_depth_default : parseMaxDepth .absent = some 10 := rfl

theorem max_depth_from_env (i : Int) : parseMaxDepth (.int i) = some i := rfl

theorem max_depth_malformed : parseMaxDepth .bad = none := rfl

/-! ## chains of nested creations -/

/-- one level of a chain: the creation at depth `cur` either fails (the chain stops, nothing deeper
    exists) or continues with workers at depth `cur + 1` -/
theorem nest_cons (maxDepth : Int) (cur : Nat) (sm : StartMethod) (rest : List StartMethod) :
    nest maxDepth cur (sm :: rest) =
      if (sm ≠ .fork ∨ cur = 0) ∧ (maxDepth ≤ 0 ∨ (cur : Int) < maxDepth) then nest maxDepth (cur + 1) rest
      else (cur, some (if sm = .fork ∧ 1 ≤ cur then .fork else .maxDepth)) := by
  simp only [nest, worker_depth_succ]
  by_cases hc : (sm ≠ .fork ∨ cur = 0) ∧ (maxDepth ≤ 0 ∨ (cur : Int) < maxDepth)
  · rw [if_pos hc, if_pos hc]
  · rw [if_neg hc, if_neg hc]

/-- Along any chain of nested creations started in a process at depth `cur`, level `i` is created
    by a process at depth `cur + i`; the whole chain succeeds — and then its innermost workers
    run at depth `cur + length` — iff every level passes the test of `create_ok_iff` at its own
    depth. -/
theorem chain_depth (maxDepth : Int) (cur : Nat) (sms : List StartMethod) :
    nest maxDepth cur sms = (cur + sms.length, none) ↔
      ∀ i (h : i < sms.length),
        (sms[i] ≠ .fork ∨ cur + i = 0) ∧ (maxDepth ≤ 0 ∨ ((cur + i : Nat) : Int) < maxDepth) := by
  induction sms generalizing cur with
  | nil => simp [nest]
  | cons sm rest ih =>
    rw [nest_cons]
    by_cases hc : (sm ≠ .fork ∨ cur = 0) ∧ (maxDepth ≤ 0 ∨ (cur : Int) < maxDepth)
    · rw [if_pos hc]
      have e : cur + (sm :: rest).length = cur + 1 + rest.length := by simp; omega
      rw [e, ih (cur + 1)]
      constructor
      · intro h i hi
        cases i with
        | zero => simpa using hc
        | succ i =>
          have := h i (by simpa using hi)
          have e2 : cur + 1 + i = cur + (i + 1) := by omega
          rw [e2] at this
          simpa using this
      · intro h i hi
        have := h (i + 1) (by simpa using hi)
        have e2 : cur + 1 + i = cur + (i + 1) := by omega
        rw [e2]
        simpa using this
    · rw [if_neg hc]
      constructor
      · intro h
        have := congrArg Prod.snd h
        simp at this
      · intro h
        have := h 0 (by simp)
        simp only [List.getElem_cons_zero, Nat.add_zero] at this
        exact absurd this hc

/-- whatever the chain, the depth reached never exceeds the number of levels, and a chain that
    is not stopped reaches exactly that depth: the `n`-th level of workers sees depth `n` -/
theorem chain_level_depth (maxDepth : Int) (cur : Nat) (sms : List StartMethod) :
    (nest maxDepth cur sms).1 ≤ cur + sms.length ∧ cur ≤ (nest maxDepth cur sms).1 ∧
      ((nest maxDepth cur sms).2 = none → (nest maxDepth cur sms).1 = cur + sms.length) := by
  induction sms generalizing cur with
  | nil => simp [nest]
  | cons sm rest ih =>
    rw [nest_cons]
    split
    · obtain ⟨h1, h2, h3⟩ := ih (cur + 1)
      simp only [List.length_cons]
      exact ⟨by omega, by omega, fun hn => by have := h3 hn; omega⟩
    · simp

/-- **the bound**: with `MAX_DEPTH ≥ 1`, no chain of nested creations — whatever its length and
    start methods — ever gets workers deeper than `MAX_DEPTH` -/
theorem depth_le_max (maxDepth : Int) (hM : 1 ≤ maxDepth) (cur : Nat) (hcur : (cur : Int) ≤ maxDepth)
    (sms : List StartMethod) : ((nest maxDepth cur sms).1 : Int) ≤ maxDepth := by
  induction sms generalizing cur with
  | nil => simpa [nest] using hcur
  | cons sm rest ih =>
    rw [nest_cons]
    split
    · rename_i h
      apply ih (cur + 1)
      have := h.2
      omega
    · simpa using hcur

/-- **exactness**: without `fork`, from the main process (depth 0), `n` nested creations succeed
    iff `n ≤ MAX_DEPTH`; a longer chain is stopped by `LokyRecursionError` exactly when its
    workers have reached depth `MAX_DEPTH`.  So the deepest reachable depth is exactly
    `MAX_DEPTH`. -/
theorem deepest_is_max (maxDepth : Int) (hM : 1 ≤ maxDepth) (sms : List StartMethod)
    (hnf : ∀ sm ∈ sms, sm ≠ .fork) :
    nest maxDepth 0 sms =
      if (sms.length : Int) ≤ maxDepth then (sms.length, none) else (maxDepth.toNat, some .maxDepth) := by
  suffices h : ∀ cur : Nat, (cur : Int) ≤ maxDepth →
      nest maxDepth cur sms =
        if ((cur + sms.length : Nat) : Int) ≤ maxDepth then (cur + sms.length, none)
        else (maxDepth.toNat, some .maxDepth) by
    simpa using h 0 (by omega)
  induction sms with
  | nil => intro cur hcur; simp [nest, hcur]
  | cons sm rest ih =>
    intro cur hcur
    have hsm : sm ≠ .fork := hnf sm (by simp)
    have ih := ih (fun s hs => hnf s (by simp [hs]))
    rw [nest_cons]
    by_cases hlt : (cur : Int) < maxDepth
    · have hc : (sm ≠ .fork ∨ cur = 0) ∧ (maxDepth ≤ 0 ∨ (cur : Int) < maxDepth) := ⟨Or.inl hsm, Or.inr hlt⟩
      rw [if_pos hc, ih (cur + 1) (by omega)]
      have e : cur + 1 + rest.length = cur + (sm :: rest).length := by simp; omega
      rw [e]
    · have hc : ¬ ((sm ≠ .fork ∨ cur = 0) ∧ (maxDepth ≤ 0 ∨ (cur : Int) < maxDepth)) := by
        intro h; have := h.2; omega
      have hgt : ¬ ((cur + (sm :: rest).length : Nat) : Int) ≤ maxDepth := by simp; omega
      have hcm : cur = maxDepth.toNat := by omega
      have hnf' : ¬ (sm = .fork ∧ 1 ≤ cur) := fun h => hsm h.1
      rw [if_neg hc, if_neg hgt, if_neg hnf', hcm]

/-- unlimited (`MAX_DEPTH ≤ 0`), without `fork`: every chain succeeds -/
theorem unlimited (maxDepth : Int) (hM : maxDepth ≤ 0) (cur : Nat) (sms : List StartMethod)
    (hnf : ∀ sm ∈ sms, sm ≠ .fork) : nest maxDepth cur sms = (cur + sms.length, none) := by
  rw [chain_depth]
  intro i hi
  exact ⟨Or.inl (hnf _ (List.getElem_mem hi)), Or.inl hM⟩

/-- under `fork` a worker can never create an executor: nothing runs deeper than 1 -/
theorem fork_depth_le_one (maxDepth : Int) (sms : List StartMethod) (hf : ∀ sm ∈ sms, sm = .fork) :
    (nest maxDepth 0 sms).1 ≤ 1 := by
  cases sms with
  | nil => simp [nest]
  | cons sm rest =>
    rw [nest_cons]
    split
    · cases rest with
      | nil => simp [nest]
      | cons sm' rest' =>
        have hsm' : sm' = .fork := hf sm' (by simp)
        rw [nest_cons]
        simp [hsm']
    · simp

/-! ## the depth is read when a worker is spawned, not when the executor is constructed -/

/-- every worker spawned by one event is given the depth global's value at that event, plus one -/
theorem life_step_shipped (s : Life) (op : LifeOp) :
    (∀ x ∈ (lifeStep s op).2, x = s.cur + 1) ∧
      (lifeStep s op).1.cur = (match op with | .setDepth d => d | _ => s.cur) := by
  cases op with
  | setDepth d => simp [lifeStep]
  | ensure =>
    simp only [lifeStep, adjust, shippedDepth]
    exact ⟨fun x hx => (List.mem_replicate.mp hx).2, trivial⟩
  | resize m =>
    simp only [lifeStep, adjust, shippedDepth]
    split
    · simp
    · split
      · exact ⟨fun x hx => (List.mem_replicate.mp hx).2, rfl⟩
      · simp
  | exit k =>
    simp only [lifeStep, adjust, shippedDepth]
    split
    · exact ⟨fun x hx => (List.mem_replicate.mp hx).2, rfl⟩
    · simp

/-- **every spawn path, any history**: whatever the value of the depth global when the executor
    was constructed, and however it changed afterwards, every worker spawned by event `i` (first
    submit, resize, respawn after an idle time-out) is given exactly the creating process's depth
    *at that event* plus one. -/
theorem life_shipped_eq (s : Life) (ops : List LifeOp) (i : Nat) (h : i < (lifeRun s ops).length) :
    ∀ x ∈ (lifeRun s ops)[i], x = curAt s.cur ops i + 1 := by
  induction ops generalizing s i with
  | nil => simp [lifeRun] at h
  | cons op rest ih =>
    cases i with
    | zero =>
      simp only [lifeRun, List.getElem_cons_zero]
      have := (life_step_shipped s op).1
      cases op <;> simpa [curAt] using this
    | succ i =>
      simp only [lifeRun, List.getElem_cons_succ]
      have hc := (life_step_shipped s op).2
      have h' : i < (lifeRun (lifeStep s op).1 rest).length := by simpa [lifeRun] using h
      have := ih (lifeStep s op).1 i h'
      cases op <;> simp only [curAt] <;> simpa [hc] using this

/-- the depth global's value at construction has no influence on workers spawned after the
    process has learnt its depth: only the guard of the constructor looks at it -/
theorem life_forgets_construction_depth (d0 d0' w d : Nat) (ops : List LifeOp) :
    lifeRun { cur := d0, maxWorkers := w, alive := 0, started := false } (.setDepth d :: ops) =
      lifeRun { cur := d0', maxWorkers := w, alive := 0, started := false } (.setDepth d :: ops) := by
  simp [lifeRun, lifeStep]

/-- a refused construction ships nothing; an accepted one is `lifeRun` from the constructor's state -/
theorem life_ok_iff (sm : StartMethod) (maxDepth : Int) (d0 w : Nat) (ops : List LifeOp) :
    (∃ r, life sm maxDepth d0 w ops = .ok r) ↔ (sm ≠ .fork ∨ d0 = 0) ∧ (maxDepth ≤ 0 ∨ (d0 : Int) < maxDepth) := by
  rw [← create_ok_iff]
  unfold life
  cases h : checkMaxDepth sm maxDepth d0 <;> simp

/-- tasks of a worker see the shipped depth … -/
theorem tasks_see_shipped_depth (fresh arg : Nat) : (workerStartup fresh arg).2 = arg := rfl

/-- **the initializer runs at the worker's depth** — "the depth a worker sees is exactly one more than that of the
    process that created its executor" holds at every moment user code runs in the worker, the initializer included
    (false of the pinned tree, where `_process_worker` ran the initializer before assigning `_CURRENT_DEPTH`: defect
    D28, repaired) -/
theorem initializer_sees_worker_depth (fresh arg : Nat) : (workerStartup fresh arg).1 = arg := rfl

/-- … hence an executor created inside an initializer is subject to the same bound as one created inside a task:
    at the limit it is refused. -/
theorem initializer_nesting_bounded (fresh d : Nat) (maxDepth : Int) (hm : 0 < maxDepth) (hd : maxDepth ≤ ((d + 1 : Nat) : Int)) :
    ∃ why, createExecutor .loky maxDepth (workerStartup fresh (d + 1)).1 = .error why := by
  simp only [workerStartup, workerDepth]
  unfold createExecutor checkMaxDepth
  have hc : 0 < maxDepth ∧ maxDepth < (d : Int) + 1 + 1 := ⟨hm, by omega⟩
  simp [hc]

/-! ## non-vacuity -/

example : checkMaxDepth .loky 10 9 = .ok := by decide
example : checkMaxDepth .loky 10 10 = .recursionError .maxDepth := by decide
example : checkMaxDepth .fork 10 1 = .recursionError .fork := by decide
example : checkMaxDepth .fork 10 0 = .ok := by decide
example : checkMaxDepth .spawn 0 1000 = .ok := by decide
example : checkMaxDepth .spawn (-3) 1000 = .ok := by decide
example : nest 3 0 [.loky, .spawn, .loky] = (3, none) := by decide
example : nest 3 0 [.loky, .spawn, .loky, .loky] = (3, some .maxDepth) := by decide
example : nest 3 0 [.fork, .fork] = (1, some .fork) := by decide
example : ∃ (M : Int) (sms : List StartMethod), 1 ≤ M ∧ (∀ sm ∈ sms, sm ≠ .fork) ∧ ¬ (sms.length : Int) ≤ M :=
  ⟨1, [.loky, .loky], by decide, by decide, by decide⟩
example : ∃ (M : Int) (cur : Nat), 1 ≤ M ∧ (cur : Int) ≤ M := ⟨10, 3, by decide, by decide⟩
example : ∃ sms : List StartMethod, sms ≠ [] ∧ ∀ sm ∈ sms, sm = .fork := ⟨[.fork], by decide, by decide⟩
example : ∃ (M : Int) (sms : List StartMethod), M ≤ 0 ∧ sms ≠ [] ∧ (∀ sm ∈ sms, sm ≠ .fork) :=
  ⟨0, [.loky], by decide, by decide, by decide⟩
example : lifeRun { cur := 0, maxWorkers := 2, alive := 0, started := false }
    [.setDepth 1, .ensure, .resize 3, .exit 2, .setDepth 5, .exit 1] = [[], [2, 2], [2], [2, 2], [], [6]] := by decide
example : life .loky 2 0 1 [.setDepth 1, .ensure] = .ok [[], [2]] := by rfl
example : life .loky 2 2 1 [.ensure] = .error .maxDepth := by rfl
example : ∃ (s : Life) (ops : List LifeOp) (i : Nat) (h : i < (lifeRun s ops).length), (lifeRun s ops)[i] ≠ [] :=
  ⟨{ cur := 3, maxWorkers := 1, alive := 0, started := false }, [.ensure], 0, by decide, by decide⟩

end LokyModel.Depth
