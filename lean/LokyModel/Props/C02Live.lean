import LokyModel.Lemmas.ExecLiveWatchOk
/-!
# C02 — an abrupt death is seen: the manager never waits on a stale list of sentinels

For EVERY reachable state of M1 — any configuration (idle time-outs, memory-leak exits, failing initializers, tasks that
kill their worker, `kill_workers`), any schedule, any placement of crashes: while the manager thread is parked in
`wait`, every registered worker is in the snapshot of sentinels it waits on, unless a wake-up is already in the pipe or
a thread that is (re-)spawning workers has not yet written its wake-up.  This is the invariant that defect D1 (`submit`
woke the manager *before* spawning) violated; it is what makes "is always detected" true of the protocol.
-/
namespace LokyModel.Exec

/-- **the manager watches every registered worker** (all reachable states, crashes included) -/
theorem C02_manager_watches_every_registered_worker (cfg : Cfg) (s : St) (h : Reachable cfg s) (sn : List Pid)
    (hm : s.mpc = .wait sn) :
    (∀ p ∈ s.procDict, p ∈ sn) ∨ 0 < s.wakeup ∨ ∃ k, k < s.cfg.scripts.length ∧ uSpawning (s.upc k) = true := by
  have hw := watchOk_reachable h
  unfold watchOk at hw
  simp only [hm, Bool.or_eq_true, decide_eq_true_eq] at hw
  rcases hw with (hw | hw) | hw
  · left
    intro p hp
    have := List.all_eq_true.1 hw p hp
    simpa using this
  · right; left; exact hw
  · right; right
    rw [List.any_eq_true] at hw
    obtain ⟨k, hk, hk2⟩ := hw
    exact ⟨k, List.mem_range.1 hk, hk2⟩

/-- **a death is seen**: whenever a registered worker is dead while the manager waits and no `submit` is in the middle
    of (re-)spawning, the manager can move — a message is in the result pipe, a wake-up is in the wake-up pipe, or a dead
    worker's sentinel is in its snapshot (and then its next step takes the broken path, `Props/C02.lean`). -/
theorem C02_death_is_seen (cfg : Cfg) (s : St) (h : Reachable cfg s) (sn : List Pid) (p : Pid)
    (hm : s.mpc = .wait sn) (hp : p ∈ s.procDict) (hd : isDead s p = true)
    (hno : ∀ k, k < s.cfg.scripts.length → uSpawning (s.upc k) = false) : (stepM s .ok).isSome = true :=
  watch_death_seen_reachable h sn p hm hp hd hno

end LokyModel.Exec
