import LokyModel.Lemmas.ExecLiveWatchOk
import LokyModel.Lemmas.ExecLiveCrashAll
import LokyModel.Props.C01Live
/-!
# C02 — an abrupt death is seen: the manager never waits on a stale list of sentinels

For EVERY reachable state of M1 — any configuration (idle time-outs, memory-leak exits, failing initializers, tasks that
kill their worker, `kill_workers`), any schedule, any placement of crashes: while the manager thread is parked in
`wait`, every registered worker is in the snapshot of sentinels it waits on, unless a wake-up is already in the pipe or
a thread that is (re-)spawning workers has not yet written its wake-up.  This is the invariant that defect D1 (`submit`
woke the manager *before* spawning) violated; it is what makes "is always detected" true of the protocol.
-/
namespace LokyModel.Exec

/-- **the manager watches every registered worker** (all reachable states, crashes included) -/
theorem C02_manager_watches_every_registered_worker (cfg : Cfg) (s : St) (h : Reachable cfg s) (sn : List Pid)
    (hm : s.mpc = .wait sn) :
    (∀ p ∈ s.procDict, p ∈ sn) ∨ 0 < s.wakeup ∨ ∃ k, k < s.cfg.scripts.length ∧ uSpawning (s.upc k) = true := by
  have hw := watchOk_reachable h
  unfold watchOk at hw
  simp only [hm, Bool.or_eq_true, decide_eq_true_eq] at hw
  rcases hw with (hw | hw) | hw
  · left
    intro p hp
    have := List.all_eq_true.1 hw p hp
    simpa using this
  · right; left; exact hw
  · right; right
    rw [List.any_eq_true] at hw
    obtain ⟨k, hk, hk2⟩ := hw
    exact ⟨k, List.mem_range.1 hk, hk2⟩

/-- **a death is seen**: whenever a registered worker is dead while the manager waits and no `submit` is in the middle
    of (re-)spawning, the manager can move — a message is in the result pipe, a wake-up is in the wake-up pipe, or a dead
    worker's sentinel is in its snapshot (and then its next step takes the broken path, `Props/C02.lean`). -/
theorem C02_death_is_seen (cfg : Cfg) (s : St) (h : Reachable cfg s) (sn : List Pid) (p : Pid)
    (hm : s.mpc = .wait sn) (hp : p ∈ s.procDict) (hd : isDead s p = true)
    (hno : ∀ k, k < s.cfg.scripts.length → uSpawning (s.upc k) = false) : (stepM s .ok).isSome = true :=
  watch_death_seen_reachable h sn p hm hp hd hno

/-!
# C02, liveness half — deadlock freedom of static pools whose workers may die

`Props/C01Live.lean` proves that a static pool never gets stuck in runs without crash steps.  Here the adversary may in
addition kill any worker, any number of times, at any point at which the victim holds no kernel lock
(`ReachableLF`, `lockFree`): anywhere in its start-up and initializer, while it waits for the call queue's read lock,
inside a task body, between a task and its result, while it waits for the result queue's write lock, inside the exit
handshake...  The excluded points — between taking and releasing the call queue's read lock, the result queue's write
lock, or the management lock of the exit path — are exactly where the listed findings D5 / D7 live (a death while a
kernel lock is held leaves the lock taken for ever; `Props/C01.lean` exhibits the stuck states).  The manager's own
`kill` steps are ordinary steps and may hit a worker anywhere.

As in C01 what is proved is deadlock freedom (no reachable quiescent state is a bad one), not termination.
-/

/-- **C02, static pools with worker deaths: a quiescent state is a good one.**  In every state that a static pool reaches
    by ordinary steps and by deaths of workers that hold no kernel lock, if no actor has an enabled step (other than a
    further death), then every future is resolved and every user thread has finished its script: after an abrupt death
    nothing hangs — no `result()`, no `shutdown(wait=True)`, no interpreter-exit hook. -/
theorem C02_static_pool_crash_no_deadlock (cfg : Cfg) (hc : cfg.staticPool = true) (s : St) (h : ReachableLF cfg s)
    (hq : enabledNC s = []) : good s = true :=
  stuck_good_LF cfg hc s h hq

/-- … in the vocabulary of the witness theorems of `Props/C01.lean`: **no state of a lock-free crash run of a static
    pool is `stuckBad`** (nothing can move and a future is unresolved or a user thread has not finished). -/
theorem C02_static_pool_crash_never_stuck_bad (cfg : Cfg) (hc : cfg.staticPool = true) (s : St)
    (h : ReachableLF cfg s) : stuckBad s = false := by
  unfold stuckBad
  cases he : anyEnabled s with
  | true => simp
  | false =>
    have hg := C02_static_pool_crash_no_deadlock cfg hc s h ((anyEnabled_false_iff s).1 he)
    unfold good at hg
    simp only [Bool.and_eq_true] at hg
    simp only [Bool.not_false, Bool.true_and, Bool.or_eq_false_iff]
    constructor
    · rw [List.any_eq_false]
      intro f hf
      have := List.all_eq_true.1 hg.1 f hf
      simp [this]
    · rw [List.any_eq_false]
      intro k hk
      have := List.all_eq_true.1 hg.2 k hk
      simpa using this

/-- every crash-aware ingredient, for every state of a lock-free crash run of a static pool -/
theorem C02_static_pool_crash_ingredients (cfg : Cfg) (hc : cfg.staticPool = true) (s : St) (h : ReachableLF cfg s) :
    staticC s = true ∧ smallOk s = true ∧ holderC s = true ∧ joinC s = true ∧ killedC s = true ∧ watchOk s = true :=
  ⟨staticC_reachableLF hc h, smallOk_reachableLF hc h, holderC_reachableLF hc h, joinC_reachableLF hc h,
   killedC_reachableLF hc h, watchOk_reachable h.reachable⟩

/-- **after a death, once nothing can move, everything is resolved**, spelled out: every future is done (with the value
    or exception it had before the death, or with the `TerminatedWorkerError` of the broken pool) and every user thread
    is at the end of its script. -/
theorem C02_after_death_quiescent_all_resolved (cfg : Cfg) (hc : cfg.staticPool = true) (s : St)
    (h : ReachableLF cfg s) (_hd : anyDead s = true) (hq : enabledNC s = []) :
    (∀ f ∈ s.futs, f.done = true) ∧ ∀ k, k < s.cfg.scripts.length → s.upc k = .done := by
  have hg := C02_static_pool_crash_no_deadlock cfg hc s h hq
  unfold good at hg
  simp only [Bool.and_eq_true, List.all_eq_true, List.mem_range, beq_iff_eq] at hg
  exact hg

/-- **a static pool is flagged broken only after a death, and then it is shut down and every worker gets killed**: if
    `broken` is set then some worker is dead, the shutdown flag is raised, the manager is past the flagging (releasing
    the shutdown lock, in the kill loop, or in its final phase), and once it is in its final phase every worker ever
    spawned is dead. -/
theorem C02_static_pool_broken_facts (cfg : Cfg) (hc : cfg.staticPool = true) (s : St) (h : ReachableLF cfg s)
    (hb : s.broken.isSome = true) :
    anyDead s = true ∧ s.shutdownFlag = true ∧ mBrkLate s.mpc = true ∧
    (mFinal s.mpc = true → ∀ p ∈ s.allPids, s.w p = .dead) := by
  have hk := killedC_reachableLF hc h
  have hci := StaticCP.ci_of_bool s (staticCInv_reachableLF hc h).1
  refine ⟨hci.bd ?_, (killedC_broken s hk hb).1, (killedC_broken s hk hb).2, fun hf => killedC_hkd s hk hf hb⟩
  intro e; rw [e] at hb; cases hb

/-! ### non-vacuity: a static pool, a worker killed inside a task, a quiescent state -/

/-- an ordinary step, or the crash of a worker that holds no lock (`StepLF`, executable) -/
def stepLFb (s : St) (a : Actor) (v : Variant) : Bool :=
  v != .crash || (match a with | .W p => lockFree (s.w p) | _ => false)

/-- run a schedule as `run` does, refusing crash steps of workers that hold a lock -/
def runLF (s : St) : List (Actor × Variant) → Option St
  | [] => some s
  | (a, v) :: rest => if stepLFb s a v then (step s a v).bind (runLF · rest) else none

theorem run_of_runLF : ∀ (sched : List (Actor × Variant)) (s0 s : St), runLF s0 sched = some s →
    run s0 sched = some s := by
  intro sched
  induction sched with
  | nil => intro s0 s hr; simpa [runLF, run] using hr
  | cons x xs ih =>
    intro s0 s hr
    obtain ⟨a, v⟩ := x
    simp only [runLF] at hr
    cases hcond : stepLFb s0 a v with
    | false => simp [hcond] at hr
    | true =>
      simp only [hcond, if_true] at hr
      simp only [run]
      cases hs : step s0 a v with
      | none => simp [hs] at hr
      | some s1 =>
        simp only [hs, Option.bind_some] at hr ⊢
        exact ih s1 s hr

theorem reachableLF_of_run {cfg : Cfg} : ∀ (sched : List (Actor × Variant)) (s0 s : St), ReachableLF cfg s0 →
    runLF s0 sched = some s → ReachableLF cfg s := by
  intro sched
  induction sched with
  | nil => intro s0 s h0 hr; simp [runLF] at hr; subst hr; exact h0
  | cons x xs ih =>
    intro s0 s h0 hr
    obtain ⟨a, v⟩ := x
    simp only [runLF] at hr
    cases hcond : stepLFb s0 a v with
    | false => simp [hcond] at hr
    | true =>
      simp only [hcond, if_true] at hr
      cases hs : step s0 a v with
      | none => simp [hs] at hr
      | some s1 =>
        simp only [hs, Option.bind_some] at hr
        refine ih s1 s ?_ hr
        by_cases hv : v = .crash
        · subst hv
          cases a with
          | W p => exact .crash h0 (by simpa [stepLFb] using hcond) hs
          | _ => simp [stepLFb] at hcond
        · exact .step h0 hv hs

/-- two workers, two plain tasks, `shutdown(wait=True)` -/
def cfgCrash : Cfg :=
  { maxWorkers := 2, timeout := false, tasks := [{}, {}],
    scripts := [[.create, .submit 0, .submit 1, .shutdown true false]] }
/-- worker 100 is killed while it runs the first task (step 26); the second task is still queued -/
def schedCrash : List (Actor × Variant) :=
  [(.U 0, .ok), (.U 0, .ok), (.U 0, .ok), (.U 0, .ok), (.U 0, .ok), (.U 0, .ok), (.U 0, .ok), (.U 0, .ok),
   (.W 100, .ok), (.W 100, .ok), (.U 0, .ok), (.U 0, .ok), (.M, .ok), (.U 0, .ok), (.M, .ok), (.M, .ok), (.F, .ok),
   (.F, .ok), (.W 101, .ok), (.F, .ok), (.F, .ok), (.W 100, .ok), (.W 100, .ok), (.W 101, .ok), (.W 100, .ok),
   (.W 100, .crash), (.M, .ok), (.M, .fail), (.U 0, .ok), (.U 0, .ok), (.U 0, .ok), (.U 0, .ok), (.U 0, .ok),
   (.U 0, .ok), (.U 0, .ok), (.U 0, .ok), (.U 0, .ok), (.U 0, .ok), (.U 0, .ok), (.M, .ok), (.M, .ok), (.M, .ok),
   (.M, .ok), (.M, .ok), (.M, .ok), (.U 0, .ok), (.M, .ok), (.U 0, .ok), (.M, .ok), (.U 0, .ok), (.F, .ok), (.M, .ok),
   (.U 0, .ok), (.M, .ok), (.M, .ok), (.M, .ok), (.U 0, .ok), (.U 0, .ok)]

example : cfgCrash.staticPool = true := by decide
example : schedCrash.any (fun av => av == (.W 100, .crash)) = true := by decide
/-- the state just before the death: worker 100 is inside the body of task 0 -/
example : (runLF (init cfgCrash) (schedCrash.take 25)).map (fun s => (s.w 100, lockFree (s.w 100))) =
    some (.task 0 0, true) := by decide +kernel
/-- the run (with its crash step, checked to be at a lock-free point by `runLF`) ends in a quiescent state, which — as
    the theorem says — is a good one: the pool is flagged broken, both futures (the running one and the queued one) carry
    `TerminatedWorkerError`, both workers are dead, the manager thread has ended, `shutdown(wait=True)` has returned -/
theorem schedCrash_end : (runLF (init cfgCrash) schedCrash).map (fun s =>
      ((enabledNC s).isEmpty, good s, anyDead s, s.broken, s.futs)) =
    some (true, true, true, some .terminated, [.excTerminated, .excTerminated]) := by
  decide +kernel
example : (runLF (init cfgCrash) schedCrash).map (fun s => (s.mpc, s.allPids.map s.w)) =
    some (.done, [.dead, .dead]) := by decide +kernel

/-- **the crash theorem is not vacuous**: a state of a lock-free crash run of a static pool, reached through a death,
    quiescent, good, flagged broken -/
theorem C02_static_pool_crash_nonvacuous : ∃ s, ReachableLF cfgCrash s ∧ enabledNC s = [] ∧ good s = true ∧
    anyDead s = true ∧ s.broken = some .terminated ∧ s.futs = [.excTerminated, .excTerminated] := by
  have h := schedCrash_end
  cases hr : runLF (init cfgCrash) schedCrash with
  | none => rw [hr] at h; cases h
  | some s =>
    rw [hr] at h
    simp only [Option.map_some, Option.some.injEq, Prod.mk.injEq, List.isEmpty_iff] at h
    exact ⟨s, reachableLF_of_run schedCrash _ s .init hr, h.1, h.2.1, h.2.2.1, h.2.2.2.1, h.2.2.2.2⟩

end LokyModel.Exec
