import LokyModel.Lemmas.ExecLiveMeasureC
import LokyModel.Props.C02Live
import LokyModel.Props.C01Term
/-!
# C02 — termination of static pools whose workers may die: an abrupt death fails the pool loudly IN FINITE TIME

`Props/C02Live.lean` proves deadlock freedom along lock-free crash runs (`ReachableLF`: ordinary steps, and deaths of
workers at any point at which they hold no kernel lock): a quiescent state is a good one.  `Props/C01Term.lean` proves
that crash-free runs are finite.  This file closes the square: the executable measure `muC : St → Nat`
(`LokyModel/ExecLiveMeasureCDef.lean`: the crash-free measure `mu`, plus ranks for the manager's broken path — clearing the
wake-up pipe, `terminate_broken`, the kill loop — plus a token consumed when the pool is flagged broken) strictly
decreases on every step of a lock-free crash run of a static pool, the death steps included (`muC_decreasesLF`,
`Lemmas/ExecLiveMeasureC.lean`).  Hence

* `C02_static_pool_crash_runs_are_finite`: a schedule — with any number of deaths at lock-free points — that runs from
  `init cfg` has at most `muC (init cfg)` steps;
* `C02_static_pool_crash_no_infinite_run`: there is no infinite lock-free crash run, **whatever the scheduler**: after a
  death the manager's path (see the sentinel, clear, flag, fail the futures, kill and join every worker, join the
  internals) has no polling loop;
* `C02_static_pool_crash_terminates_good`: every *maximal* lock-free crash run from a state `s0` of such a run has at most
  `muC s0` steps and ends in a `good` state — every future resolved (with its result, or with the
  `TerminatedWorkerError` of the broken pool), every `submit` / `shutdown(wait=True)` / interpreter-exit hook returned;
* `C02_static_pool_crash_reaches_good`: from every state of a lock-free crash run a good quiescent state is within
  `muC` steps, by any choice of enabled steps.
-/
namespace LokyModel.Exec

/-- one step accepted by `runLF` keeps the run a lock-free crash run -/
theorem reachableLF_stepLFb {cfg : Cfg} {s0 s1 : St} {a : Actor} {v : Variant} (h0 : ReachableLF cfg s0)
    (hcond : stepLFb s0 a v = true) (hs : step s0 a v = some s1) : ReachableLF cfg s1 := by
  by_cases hv : v = .crash
  · subst hv
    cases a with
    | W p => exact .crash h0 (by simpa [stepLFb] using hcond) hs
    | _ => simp [stepLFb] at hcond
  · exact .step h0 hv hs

/-- along a lock-free crash schedule the measure pays for every step -/
theorem muC_runLF {cfg : Cfg} (hc : cfg.staticPool = true) : ∀ (sched : List (Actor × Variant)) (s0 s : St),
    ReachableLF cfg s0 → runLF s0 sched = some s → sched.length + muC s ≤ muC s0 := by
  intro sched
  induction sched with
  | nil => intro s0 s _ hr; simp [runLF] at hr; subst hr; simp
  | cons x xs ih =>
    intro s0 s h0 hr
    obtain ⟨a, v⟩ := x
    simp only [runLF] at hr
    cases hcond : stepLFb s0 a v with
    | false => simp [hcond] at hr
    | true =>
      simp only [hcond, if_true] at hr
      cases hs : step s0 a v with
      | none => simp [hs] at hr
      | some s1 =>
        simp only [hs, Option.bind_some] at hr
        have h1 := muC_decreasesLF' h0 hc hs
        have h2 := ih s1 s (reachableLF_stepLFb h0 hcond hs) hr
        simp only [List.length_cons]
        omega

/-- **C02, static pools with worker deaths: runs are finite.**  A schedule — ordinary steps and deaths of workers that
    hold no kernel lock, in any number and order — that runs from the initial state has at most `muC (init cfg)`
    steps. -/
theorem C02_static_pool_crash_runs_are_finite (cfg : Cfg) (hc : cfg.staticPool = true)
    (sched : List (Actor × Variant)) (s : St) (hrun : runLF (init cfg) sched = some s) :
    sched.length ≤ muC (init cfg) := by
  have := muC_runLF hc sched (init cfg) s .init hrun
  omega

/-- … in the form of infinite runs: there is none, under any scheduler and any placement of deaths at lock-free
    points. -/
theorem C02_static_pool_crash_no_infinite_run (cfg : Cfg) (hc : cfg.staticPool = true) (σ : Nat → St)
    (act : Nat → Actor × Variant) (h0 : σ 0 = init cfg)
    (hstep : ∀ n, stepLFb (σ n) (act n).1 (act n).2 = true ∧ step (σ n) (act n).1 (act n).2 = some (σ (n + 1))) :
    False := by
  have key : ∀ n, ReachableLF cfg (σ n) ∧ n + muC (σ n) ≤ muC (σ 0) := by
    intro n
    induction n with
    | zero => exact ⟨h0 ▸ .init, by simp⟩
    | succ n ih =>
      have h1 := muC_decreasesLF' ih.1 hc (hstep n).2
      exact ⟨reachableLF_stepLFb ih.1 (hstep n).1 (hstep n).2, by omega⟩
  have := (key (muC (σ 0) + 1)).2
  omega

/-- **C02, static pools with worker deaths: every maximal run is short and ends well.**  From any state `s0` of a
    lock-free crash run of a static pool, a schedule (further deaths at lock-free points included) that ends in a state
    where nothing but a death is enabled has at most `muC s0` steps, and its last state is `good`: every future is
    resolved and every user thread has finished its script.  An abrupt worker death fails the pool loudly in finite
    time. -/
theorem C02_static_pool_crash_terminates_good (cfg : Cfg) (hc : cfg.staticPool = true) (s0 : St)
    (h0 : ReachableLF cfg s0) (sched : List (Actor × Variant)) (s : St) (hrun : runLF s0 sched = some s)
    (hmax : enabledNC s = []) : sched.length ≤ muC s0 ∧ good s = true := by
  constructor
  · have := muC_runLF hc sched s0 s h0 hrun
    omega
  · exact C02_static_pool_crash_no_deadlock cfg hc s (reachableLF_of_run sched s0 s h0 hrun) hmax

/-- … from the initial state, spelled out: at most `muC (init cfg)` steps, then every future is done and every user
    thread is at the end of its script -/
theorem C02_static_pool_crash_maximal_run_resolves (cfg : Cfg) (hc : cfg.staticPool = true)
    (sched : List (Actor × Variant)) (s : St) (hrun : runLF (init cfg) sched = some s) (hmax : enabledNC s = []) :
    sched.length ≤ muC (init cfg) ∧ (∀ f ∈ s.futs, f.done = true) ∧
    ∀ k, k < s.cfg.scripts.length → s.upc k = .done := by
  obtain ⟨h1, hg⟩ := C02_static_pool_crash_terminates_good cfg hc (init cfg) .init sched s hrun hmax
  unfold good at hg
  simp only [Bool.and_eq_true, List.all_eq_true, List.mem_range, beq_iff_eq] at hg
  exact ⟨h1, hg⟩

/-- **C02, static pools with worker deaths: a good quiescent state is always within reach.**  From every state of a
    lock-free crash run there is a continuation of at most `muC s` steps to a quiescent, good state (and by
    `C02_static_pool_crash_terminates_good` *every* way of continuing until nothing is enabled, with or without further
    deaths, is such a continuation). -/
theorem C02_static_pool_crash_reaches_good (cfg : Cfg) (hc : cfg.staticPool = true) (s : St)
    (h : ReachableLF cfg s) :
    ∃ (sched : List (Actor × Variant)) (s' : St), runLF s sched = some s' ∧ sched.length ≤ muC s ∧
      enabledNC s' = [] ∧ good s' = true := by
  generalize hn : muC s = n
  induction n using Nat.strongRecOn generalizing s with
  | _ n ih =>
    cases hen : enabledNC s with
    | nil =>
      exact ⟨[], s, rfl, by simp, hen, C02_static_pool_crash_no_deadlock cfg hc s h hen⟩
    | cons x rest =>
      obtain ⟨a, v⟩ := x
      have hmem : (a, v) ∈ enabledNC s := by rw [hen]; simp
      obtain ⟨hv, s1, hs⟩ := mem_enabledNC hmem
      have hlt := muC_decreasesLF' h hc hs
      obtain ⟨sched, s', hrun, hlen, hq, hg⟩ := ih (muC s1) (by omega) s1 (.step h hv hs) rfl
      have hcond : stepLFb s a v = true := by
        unfold stepLFb
        cases v <;> first | rfl | exact absurd rfl hv
      refine ⟨(a, v) :: sched, s', ?_, ?_, hq, hg⟩
      · simp [runLF, hcond, hs, hrun]
      · simp only [List.length_cons]; omega

/-! ### non-vacuity: the static pool and the run with a death of `Props/C02Live.lean` -/

/-- the bound for `cfgCrash` (two workers, one user thread, four script operations) -/
example : muC (init cfgCrash) = 933 := by decide +kernel
/-- its run `schedCrash` (58 steps, worker 100 killed inside a task at step 26, to a good quiescent state of a pool
    flagged broken) is within the bound, and what is left of the measure at the end is the weight of what nobody will
    consume in a broken pool (three wake-up bytes, and the work id of the second task, still queued at the death) -/
example : schedCrash.length = 58 ∧ schedCrash.length ≤ muC (init cfgCrash) := by decide +kernel
example : (runLF (init cfgCrash) schedCrash).map muC = some 45 := by decide +kernel
/-- the measure along the whole of that run — the death, the broken path and the kill loop included: strictly
    decreasing -/
def muCTrace (s : St) : List (Actor × Variant) → List Nat
  | [] => [muC s]
  | (a, v) :: rest => muC s :: (match step s a v with | some s' => muCTrace s' rest | none => [])
example : (muCTrace (init cfgCrash) schedCrash).length = 59 ∧
    (muCTrace (init cfgCrash) schedCrash).Pairwise (· > ·) := by
  decide +kernel

end LokyModel.Exec
