import LokyModel.Lemmas.ExecInit
/-!
# C18 — every worker that runs a task has run the initializer first (executor protocol part)

The launch-side clauses (descriptors, environment, exit status, no re-run of `__main__`) are
`Props/C18Spawn.lean`.  Here: the initializer, over M1 — initial workers, workers re-spawned by the
manager after an idle time-out or a memory-leak exit, and (all spawns go through the same
`_adjust_process_count`) any other spawn path.
-/
namespace LokyModel.Exec

/-- For every reachable state, with an initializer configured: a worker that is fetching, holding or
    running a call item, sending a result or announcing its exit has completed the initializer.
    Unbounded: any number of spawns, re-spawns, time-outs, crashes, any schedule. -/
theorem C18_initialised (cfg : Cfg) (s : St) (h : Reachable cfg s) (hi : cfg.hasInit = true) (p : Pid)
    (hp : needsInit (s.w p) = true) : p ∈ s.initLog := by
  have := initInv_reachable h
  exact this (by rw [cfg_reachable h]; exact hi) p hp

/-- in particular a task body only ever runs in an initialised worker -/
theorem C18_task_runs_initialised (cfg : Cfg) (s : St) (h : Reachable cfg s) (hi : cfg.hasInit = true)
    (p : Pid) (w : Wid) (t : Tid) (hp : s.w p = .task w t ∨ s.w p = .taskEnd w t) : p ∈ s.initLog := by
  apply C18_initialised cfg s h hi p
  rcases hp with hp | hp <;> simp [hp, needsInit]

/-- The first thing a new worker does, on every spawn path, is the initializer. -/
theorem C18_init_runs_first (s s' : St) (p : Pid) (hi : s.cfg.hasInit = true) (hpc : s.w p = .start)
    (hs : stepW s p .ok = some s') : s'.w p = .init := by
  unfold stepW at hs; simp only [hpc] at hs
  cases hs; simp [wAfterStart, hi, setW]

/-- An initializer that raises ends the worker without the exit handshake — no pid message is sent —
    so the manager sees an unannounced death and breaks the pool (C02), rather than an uninitialised
    worker serving tasks. -/
theorem C18_init_failure_breaks (s s' : St) (p : Pid) (hpc : s.w p = .init)
    (hf : (p - 100) ∈ s.cfg.initFail) (hs : stepW s p .ok = some s') :
    s'.w p = .exit 0 ∧ s'.rqPipe = s.rqPipe := by
  unfold stepW at hs; simp only [hpc] at hs
  simp [hf] at hs
  cases hs; simp [setW]

/-! non-vacuity: an initialised worker holding a task is reachable -/
def cfgInit : Cfg :=
  { maxWorkers := 1, timeout := false, tasks := [{}], scripts := [[.create, .submit 0]], hasInit := true }

example : ∃ s, Reachable cfgInit s ∧ needsInit (s.w 100) = true ∧ 100 ∈ s.initLog := by
  refine ⟨_, (reachable_iff_run _ _).2 ⟨[(.U 0, .ok), (.U 0, .ok), (.U 0, .ok), (.U 0, .ok), (.U 0, .ok),
    (.U 0, .ok), (.U 0, .ok), (.W 100, .ok), (.W 100, .ok)], rfl⟩, ?_, ?_⟩ <;> decide +kernel

end LokyModel.Exec
