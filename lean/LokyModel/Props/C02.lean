import LokyModel.Lemmas.ExecTerm
import LokyModel.Lemmas.ExecSticky
import LokyModel.Lemmas.ExecFut
/-!
# C02 — abrupt worker death is detected and fails the pool loudly (executor protocol part)

Theorems over M1 about the detection and the `terminate_broken` path.  The liveness half ("the manager
*does* get to its next wait") is C01's; the known finding classes D5 / D7 (a worker dying while it
holds a kernel lock the manager or the other workers still need) are witnessed in `Props/C01.lean`.
-/
namespace LokyModel.Exec

/-- Detection: when the manager's `wait` returns with no result and no wake-up pending while one of
    the workers *in its sentinel list* is dead, the only continuation is the broken path with
    `TerminatedWorkerError`.  (Results and wake-ups are examined first, as in the code.) -/
theorem C02_wait_detects_dead (s s' : St) (snap : List Pid) (hpc : s.mpc = .wait snap)
    (hr : s.rqPipe = []) (hw : s.wakeup = 0) (hd : snap.any (isDead s) = true)
    (hs : stepM s .ok = some s') : s'.mpc = .clrPoll (.broken .terminated) := by
  unfold stepM at hs
  simp only [hpc] at hs
  simp [hr, hw, hd] at hs
  cases hs; rfl

/-- … and the `wait` is enabled in that situation (the dead worker's sentinel is ready): a death of
    a listed worker is never slept through. -/
theorem C02_wait_enabled_on_death (s : St) (snap : List Pid) (hpc : s.mpc = .wait snap)
    (hd : snap.any (isDead s) = true) : (stepM s .ok).isSome = true := by
  unfold stepM
  simp only [hpc]
  by_cases h1 : s.rqPipe ≠ [] <;> by_cases h2 : s.wakeup > 0 <;> simp [h1, h2, hd]

/-- The sentinel list the manager waits on is the list of registered workers at the moment the wait
    is announced (`add_call_item_to_queue` ends by announcing it). -/
theorem C02_wait_snapshot_is_current (n : Nat) (s : St) :
    (∃ i, (mAddFuel n s).mpc = .addAcq i) ∨ (mAddFuel n s).mpc = .wait s.procDict := by
  induction n generalizing s with
  | zero => right; rfl
  | succ n ih =>
    unfold mAddFuel
    split
    · right; rfl
    · split
      · right; rfl
      · split
        · have := ih { s with workIds := ‹List Wid›, pending := s.pending.erase ‹Wid› }
          simpa using this
        · left; exact ⟨_, rfl⟩

/-- `terminate_broken`, flagging: under the shutdown lock the pool becomes broken *and* shut down. -/
theorem C02_flag_as_broken (s s' : St) (b : Broken) (hpc : s.mpc = .brkAcq b)
    (hs : stepM s .ok = some s') : s'.broken = some b ∧ s'.shutdownFlag = true ∧ s'.mpc = .brkRel b := by
  unfold stepM at hs
  simp only [hpc, acq_map] at hs
  split at hs
  · cases hs; simp
  · cases hs

/-- `terminate_broken`, failing the futures: the step after the flag fails every pending future with
    the pool's error, clears `pending`, and enters `kill_workers()`. -/
theorem C02_brkRel_step (s : St) (b : Broken) (hpc : s.mpc = .brkRel b) :
    stepM s .ok = some (mKillNext (failAll { s with shut := s.shut + 1, oShut := none, pending := [] } s.pending
                                (if b == .terminated then .excTerminated else .excBroken))) := by
  unfold stepM; simp only [hpc]

/-- … every pending, non-cancelled future gets the pool's error (`TerminatedWorkerError` for an
    unannounced death, `BrokenProcessPool` otherwise), nothing stays pending … -/
theorem C02_broken_fails_all_pending (s0 : St) (ws : List Wid) (b : Broken) (i : Wid) (hi : i ∈ ws)
    (hlt : i < s0.futs.length) (hc : s0.futs.getD i .pending ≠ .cancelled) :
    (failAll s0 ws (if b == .terminated then .excTerminated else .excBroken)).futs.getD i .pending
      = (if b == .terminated then .excTerminated else .excBroken) := by
  have hf : (if b == .terminated then Fut.excTerminated else Fut.excBroken) ≠ .cancelled := by split <;> simp
  rw [failAll_spec _ _ _ hf, if_pos ⟨hi, hlt, hc⟩]

/-- … and no other future is touched: outcomes that existed before the death are kept. -/
theorem C02_broken_leaves_others (s0 : St) (ws : List Wid) (b : Broken) (i : Wid) (hi : i ∉ ws) :
    (failAll s0 ws (if b == .terminated then .excTerminated else .excBroken)).futs.getD i .pending
      = s0.futs.getD i .pending := by
  have hf : (if b == .terminated then Fut.excTerminated else Fut.excBroken) ≠ .cancelled := by split <;> simp
  rw [failAll_spec _ _ _ hf, if_neg (fun h => hi h.1)]

/-- A later `submit` on a broken pool raises (the stored error): no future is created, nothing is queued. -/
theorem C02_submit_after_broken_raises (s s' : St) (k : Nat) (t : Tid) (b : Broken)
    (hpc : s.upc k = .subAcqShut t) (hb : s.broken = some b) (hs : stepU s k .ok = some s') :
    s'.upc k = .subRelShut ∧ s'.futs = s.futs ∧ s'.pending = s.pending ∧ s'.workIds = s.workIds ∧
    s'.queueCount = s.queueCount ∧ s'.broken = some b := by
  unfold stepU at hs
  simp only [hpc, acq_map] at hs
  split at hs
  · cases hs; simp [hb, setU]
  · cases hs

/-- Broken is for ever: along *every* schedule (any actors, time-outs, failed try-locks, further crashes) from a
    state in which the pool is flagged broken, it is still flagged broken … -/
theorem C02_broken_is_sticky (s s' : St) (sched : List (Actor × Variant)) (hr : run s sched = some s')
    (hb : s.broken.isSome = true) : s'.broken.isSome = true :=
  (sticky_run sched s s' hr).1 hb

/-- … hence every later `submit`, whenever it happens, raises and creates no future. -/
theorem C02_every_later_submit_raises (s s' s'' : St) (sched : List (Actor × Variant)) (k : Nat) (t : Tid)
    (hb : s.broken.isSome = true) (hr : run s sched = some s') (hpc : s'.upc k = .subAcqShut t)
    (hs : stepU s' k .ok = some s'') :
    s''.upc k = .subRelShut ∧ s''.futs = s'.futs ∧ s''.pending = s'.pending ∧ s''.workIds = s'.workIds := by
  have hb' := C02_broken_is_sticky s s' sched hr hb
  cases hbb : s'.broken with
  | none => simp [hbb] at hb'
  | some b =>
    have := C02_submit_after_broken_raises s' s'' k t b hpc hbb hs
    exact ⟨this.1, this.2.1, this.2.2.1, this.2.2.2.1⟩

/-- `kill_workers()`: the manager's kill loop needs no step of any other actor — `kill(p)` is always
    enabled and the `join` that follows is enabled because `p` is dead by then. -/
theorem C02_kill_then_join_enabled (s s1 : St) (p : Pid) (hpc : s.mpc = .kill p) (hs : stepM s .ok = some s1) :
    s1.mpc = .killJoin p ∧ isDead s1 p = true ∧ (stepM s1 .ok).isSome = true := by
  unfold stepM at hs
  simp only [hpc] at hs
  cases hs
  have hdead : isDead (if alive s p = true then die { s with mpc := .killJoin p } p (-9) else { s with mpc := .killJoin p }) p = true := by
    split
    · simp [isDead, die, upd]
    · rename_i h; simpa [alive, isDead] using h
  refine ⟨by split <;> rfl, hdead, ?_⟩
  unfold stepM
  have hm : (if alive s p = true then die { s with mpc := .killJoin p } p (-9) else { s with mpc := .killJoin p }).mpc = .killJoin p := by
    split <;> rfl
  simp only [hm, hdead, if_true]
  rfl

theorem C02_kill_is_enabled (s : St) (p : Pid) (hpc : s.mpc = .kill p) : (stepM s .ok).isSome = true := by
  unfold stepM; simp [hpc]

/-! non-vacuity of the hypotheses above: a reachable state in which the manager waits on a dead
    registered worker (worker 100 crashed right after start) -/
example : ∃ s, Reachable { maxWorkers := 1, timeout := false, tasks := [{}], scripts := [[.create, .submit 0]] } s ∧
    s.mpc = .wait [100] ∧ isDead s 100 = true := by
  refine ⟨_, (reachable_iff_run _ _).2 ⟨[(.U 0, .ok), (.U 0, .ok), (.U 0, .ok), (.U 0, .ok), (.U 0, .ok),
    (.U 0, .ok), (.U 0, .ok), (.U 0, .ok), (.M, .ok), (.M, .ok), (.M, .ok), (.W 100, .crash)], rfl⟩, ?_, ?_⟩ <;> rfl


/-! ### whole-run statements -/

/-- **After `terminate_broken` no future is left pending.**  In the state right after the manager failed the
    pending work items, every future this executor ever handed out is resolved — and the table is empty. -/
theorem C02_after_break_all_resolved (cfg : Cfg) (s s' : St) (b : Broken) (h : Reachable cfg s)
    (hpc : s.mpc = .brkRel b) (hs : stepM s .ok = some s') (i : Wid) (hi : i < s'.futs.length) :
    (futOf s' i).done = true ∧ s'.pending = [] := by
  have hr : Reachable cfg s' := Reachable.step (a := .M) h (by simpa [step] using hs)
  have ht : mTerm s'.mpc = true := by
    rw [C02_brkRel_step s b hpc] at hs; cases hs; simp
  have hp := termInv_reachable hr ht
  exact ⟨(futInv_reachable hr).resolved i hi (by rw [hp]; simp), hp⟩

/-- **Futures that resolved before the death keep their outcome** — and so does every future once resolved:
    along every schedule from any reachable state, a resolved future never changes again (no second
    `set_result` / `set_exception`, no overwriting by the broken-pool error, by a late result or by `cancel`). -/
theorem C02_resolved_keep_outcome (cfg : Cfg) (s s' : St) (sched : List (Actor × Variant)) (h : Reachable cfg s)
    (hr : run s sched = some s') (i : Wid) (hd : (futOf s i).done = true) : futOf s' i = futOf s i :=
  done_sticky_run sched s s' h hr i hd

/-- **No fabricated value**: a future holds a value (or a task's own exception) only if the body of *its* work
    id was started — exactly once. -/
theorem C02_no_fabricated_value (cfg : Cfg) (s : St) (h : Reachable cfg s) (i : Wid)
    (hv : futOf s i = .value ∨ futOf s i = .excWorker) : s.execW.count i = 1 := by
  have h1 := (futInv_reachable h).executed i hv
  have h2 := (tokInv_reachable h).once i
  omega

end LokyModel.Exec
