import LokyModel.Lemmas.ExecMsgU
import LokyModel.Props.C02
import LokyModel.Props.C01
import LokyModel.Lemmas.ExecTokenU
/-!
# C03 — right result to the right future, at-most-once execution (executor protocol)

Decision-logic theorems over M1: how work ids are issued, dispatched, cancelled and resolved.  The
whole-run statements — a task body is started at most once, never for a future whose `cancel()` returned
True, and a result travels back only for a body that was started — are proved at the end of this file for
*every reachable state* (all schedules, time-outs, failed try-locks and crashes) from the token-accounting
invariant `TokInv` of `Lemmas/ExecToken*.lean`; the same facts are observed on the real code by the E1 execution
logs.  `map == builtin map` is `Props/C03Map.lean`.
-/
namespace LokyModel.Exec

/-- `submit` issues a fresh work id — the number of submissions so far — and records it once in
    `pending`, once in the work-id queue, with a new PENDING future for the submitted task. -/
theorem C03_fresh_work_id (s s' : St) (k : Nat) (t : Tid) (hpc : s.upc k = .subAcqShut t)
    (hok : s.broken = none ∧ s.shutdownFlag = false ∧ s.globalShutdown = false)
    (hs : stepU s k .ok = some s') :
    s'.queueCount = s.queueCount + 1 ∧ s'.pending = s.pending ++ [s.queueCount] ∧
    s'.workIds = s.workIds ++ [s.queueCount] ∧ s'.futs = s.futs ++ [.pending] ∧ s'.taskOf = s.taskOf ++ [t] := by
  unfold stepU at hs; simp only [hpc, acq_map] at hs
  split at hs
  · cases hs; simp [hok.1, hok.2.1, hok.2.2, setU]
  · cases hs

/-- `cancel()` succeeds exactly on a future that is still PENDING (or already cancelled); a RUNNING or
    finished future is left untouched and the call reports failure. -/
theorem C03_cancel_only_pending (s : St) (k : Nat) (t : Tid) (w : Wid) (hw : widOfTask s t = some w) :
    (futOf s w = .pending → (uDispatch s k (.cancel t)).futs = s.futs.set w .cancelled ∧
                             w ∈ (uDispatch s k (.cancel t)).cancelOk) ∧
    (futOf s w ≠ .pending → (uDispatch s k (.cancel t)).futs = s.futs) ∧
    (futOf s w ≠ .pending → futOf s w ≠ .cancelled → (uDispatch s k (.cancel t)).cancelOk = s.cancelOk) := by
  unfold uDispatch
  simp only [hw]
  refine ⟨?_, ?_, ?_⟩
  · intro h; simp [h, setFut]
  · intro h; cases hf : futOf s w <;> simp_all
  · intro h1 h2; cases hf : futOf s w <;> simp_all

/-- A cancelled future is never dispatched: `add_call_item_to_queue` drops its id without creating a
    call item, and a future is marked RUNNING only together with the creation of its call item. -/
theorem C03_cancelled_never_dispatched (n : Nat) (s : St) (i : Wid) (rest : List Wid)
    (hq : s.cqSem ≠ 0) (hw : s.workIds = i :: rest) (hc : futOf s i = .cancelled) :
    mAddFuel (n + 1) s = mAddFuel n { s with workIds := rest, pending := s.pending.erase i } := by
  rw [mAddFuel]; simp [hq, hw, hc]

theorem C03_dispatch_marks_running (n : Nat) (s : St) (i : Wid) (rest : List Wid)
    (hq : s.cqSem ≠ 0) (hw : s.workIds = i :: rest) (hc : futOf s i ≠ .cancelled) :
    mAddFuel (n + 1) s = setFut { s with workIds := rest, running := s.running ++ [i], mpc := .addAcq i } i .running := by
  rw [mAddFuel]; simp [hq, hw, hc]

/-- the call item carries the work id and the task of that very submission -/
theorem C03_call_item_is_own (s s' : St) (i : Wid) (hpc : s.mpc = .addAcq i) (hf : s.fpc ≠ .none)
    (hs : stepM s .ok = some s') :
    ∃ s1, s' = mAdd s1 ∧ s1.cqBuf = s.cqBuf ++ [.call i (s.taskOf.getD i 0)] := by
  unfold stepM at hs; simp only [hpc, acq_map] at hs
  simp only [hf, if_false] at hs
  split at hs
  · cases hs; exact ⟨_, rfl, rfl⟩
  · cases hs

/-- … also in the pass the manager makes right after flagging the executor as shutting down -/
theorem C03_call_item_is_own_after_flag (s s' : St) (i : Wid) (hpc : s.mpc = .addAcqF i) (hf : s.fpc ≠ .none)
    (hs : stepM s .ok = some s') :
    ∃ s1, s' = mAddF s1 ∧ s1.cqBuf = s.cqBuf ++ [.call i (s.taskOf.getD i 0)] := by
  unfold stepM at hs; simp only [hpc, acq_map] at hs
  simp only [hf, if_false] at hs
  split at hs
  · cases hs; exact ⟨_, rfl, rfl⟩
  · cases hs

/-- Routing: a worker answers with the work id of the call item it received … -/
theorem C03_worker_answers_own_id (s s1 s2 : St) (p : Pid) (w : Wid) (e b : Bool)
    (hpc : s.w p = .rAcq w e b) (h1 : stepW s p .ok = some s1) (h2 : stepW s1 p .ok = some s2) :
    s2.rqPipe = s.rqPipe ++ [.res w e b] := by
  unfold stepW at h1; simp only [hpc, acq_map] at h1
  split at h1
  · cases h1
    unfold stepW at h2; simp [setW] at h2
    cases h2; simp [setW]
  · cases h1

/-- … and the manager resolves the future with that id only, and only while it is still pending
    (a second result for the same id would be dropped). -/
theorem C03_result_routing (s : St) (i : Wid) (e : Bool) :
    (i ∈ s.pending → mProcess s (some (.res i e false)) =
        mAfterItem (setFut { s with pending := s.pending.erase i, running := s.running.erase i } i
                      (if e then .excWorker else .value))) ∧
    (i ∉ s.pending → mProcess s (some (.res i e false)) = mAfterItem s) := by
  constructor <;> intro h <;> unfold mProcess <;> simp [h]

/-- the body of a task is logged exactly when the worker holding its call item starts it -/
theorem C03_body_runs_from_call_item (s s' : St) (p : Pid) (w : Wid) (t : Tid) (hpc : s.w p = .task w t)
    (hs : stepW s p .ok = some s') : s'.execLog = s.execLog ++ [(p, t)] ∧ s'.w p = .taskEnd w t := by
  unfold stepW at hs; simp only [hpc] at hs
  cases hs; simp [setW]

/-! ### whole-run statements (token accounting) -/

/-- **At-most-once execution.**  In every reachable state — whatever the interleaving of user threads, manager,
    feeder and workers, whichever time-outs fire and whichever workers die — the body of each work id has
    been started at most once. -/
theorem C03_at_most_once (cfg : Cfg) (s : St) (h : Reachable cfg s) (i : Wid) : s.execW.count i ≤ 1 := by
  have := (tokInv_reachable h).once i; omega

/-- **A work id is in at most one place.**  Work-id queue, manager's hands, call-queue buffer, feeder's hands,
    call pipe, a worker's hands — and once its body has started it is in none of them. -/
theorem C03_one_place (cfg : Cfg) (s : St) (h : Reachable cfg s) (i : Wid) :
    s.workIds.count i + preOut s i + s.execW.count i ≤ 1 :=
  (tokInv_reachable h).once i

/-- **Never if `cancel()` returned True.**  A future whose cancellation succeeded stays cancelled and its body
    is never started; no call item and no result for it exists anywhere. -/
theorem C03_cancelled_never_runs (cfg : Cfg) (s : St) (h : Reachable cfg s) (i : Wid) (hc : i ∈ s.cancelOk) :
    futOf s i = .cancelled ∧ s.execW.count i = 0 ∧ preOut s i = 0 ∧ post s i = 0 := by
  have inv := tokInv_reachable h
  have hf := inv.cancelled i hc
  have := inv.undisp i (Or.inr hf)
  exact ⟨hf, this.2.2, this.1, this.2.1⟩

/-- **No result without an execution**: result messages for `i` (in a worker's hands, in the result pipe, in
    the manager's hands) never outnumber the started bodies of `i` — at most one, and none before the body
    started. -/
theorem C03_result_only_after_execution (cfg : Cfg) (s : St) (h : Reachable cfg s) (i : Wid) :
    post s i ≤ s.execW.count i ∧ post s i ≤ 1 := by
  have inv := tokInv_reachable h
  have := inv.postle i; have := inv.once i
  exact ⟨by omega, by omega⟩

/-- A future that is still PENDING has not been handed to anybody: its id is at most in the work-id queue. -/
theorem C03_pending_not_dispatched (cfg : Cfg) (s : St) (h : Reachable cfg s) (i : Wid) (hp : futOf s i = .pending) :
    preOut s i = 0 ∧ post s i = 0 ∧ s.execW.count i = 0 :=
  (tokInv_reachable h).undisp i (Or.inl hp)

/-- non-vacuity: the schedule of `Props/C01` (create, submit, shutdown; the task runs and its value is delivered)
    reaches a state where the body of work id 0 has been started — exactly once -/
example : (run (init cfgD7) schedD7).map (fun s => (s.execW, futOf s 0)) = some ([0], .value) := by decide +kernel


/-- **A future resolves at most once**: once it has a result, an exception or is cancelled, no later step of any
    actor changes it (all schedules, time-outs and crashes). -/
theorem C03_resolves_once (cfg : Cfg) (s s' : St) (a : Actor) (v : Variant) (h : Reachable cfg s)
    (hs : step s a v = some s') (i : Wid) (hd : (futOf s i).done = true) : futOf s' i = futOf s i :=
  (fs_step (futInv_reachable h) (tokInv_reachable h) (lenInv_reachable h) (shutInv_reachable h) hs).2 i hd

/-- **A value comes from exactly one execution of the future's own work id.** -/
theorem C03_value_from_one_execution (cfg : Cfg) (s : St) (h : Reachable cfg s) (i : Wid)
    (hv : futOf s i = .value) : s.execW.count i = 1 := by
  have h1 := (futInv_reachable h).executed i (Or.inl hv)
  have h2 := (tokInv_reachable h).once i
  omega

/-- Only futures the manager still tracks are dispatched: an id in the work-id queue belongs to a pending work
    item whose future is PENDING or CANCELLED (until the manager enters its final phase, after which nothing is
    dispatched any more). -/
theorem C03_queue_ids_are_tracked (cfg : Cfg) (s : St) (h : Reachable cfg s) (hl : mTerm s.mpc = false)
    (i : Wid) (hi : i ∈ s.workIds) : i ∈ s.pending ∧ (futOf s i = .pending ∨ futOf s i = .cancelled) :=
  (futInv_reachable h).wk hl i hi


/-! ### routing (message invariant `MsgInv`) -/

/-- **A worker runs the task of the work id it was given**: in every reachable state a worker about to run (or
    running) a body holds a call item whose task is the one submitted under that work id. -/
theorem C03_runs_own_task (cfg : Cfg) (s : St) (h : Reachable cfg s) (p : Pid) (w : Wid) (t : Tid)
    (hp : s.w p = .task w t ∨ s.w p = .taskEnd w t) : w < s.taskOf.length ∧ t = s.taskOf.getD w 0 := by
  have := (msgInv_reachable h).w p
  rcases hp with e | e <;> (rw [e] at this; exact this)

/-- Every call item, wherever it is (call buffer, feeder's hands, call pipe), carries the task of its own work
    id; every result message (worker's hands, result pipe, manager's hands) carries the outcome kind of the task of
    its own work id. -/
theorem C03_messages_carry_own_task (cfg : Cfg) (s : St) (h : Reachable cfg s) :
    (∀ m, m ∈ s.cqBuf ∨ m ∈ s.cqPipe → goodC s.cfg s.taskOf m) ∧ (∀ r, r ∈ s.rqPipe → goodR s.cfg s.taskOf r) := by
  have inv := msgInv_reachable h
  exact ⟨fun m hm => hm.elim (inv.buf m) (inv.pipe m), inv.rq⟩

/-- **Right result to the right future.**  A future holds a value only if the task submitted under *its* work id
    returns normally (and its result survives the trip back); it holds a task exception only if *its* task raises.
    Together with `C03_value_from_one_execution`: the value is the outcome of exactly one execution of its own
    submission. -/
theorem C03_right_result (cfg : Cfg) (s : St) (h : Reachable cfg s) (i : Wid) :
    (futOf s i = .value → (specOf s (s.taskOf.getD i 0)).body = .ok ∧ (specOf s (s.taskOf.getD i 0)).res ≠ .badunpickle) ∧
    (futOf s i = .excWorker → (specOf s (s.taskOf.getD i 0)).body = .raises) :=
  (msgInv_reachable h).val i

end LokyModel.Exec
