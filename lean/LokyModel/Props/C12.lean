import LokyModel.Lemmas.TrackerTreeThreads
/-!
# C12 — one resource tracker serves the whole process tree and is self-healing  *(partial)*

Property theorems over the model `LokyModel.TrackerTree` (M4).  They quantify over **every history**
of spawn (any depth, `loky` and `loky_init_main`), normal / exception / crash exit of any member in
any order, INT / TERM / KILL sent to any tracker incarnation at any time (start-up included), tracked
operations, SemLock traffic and tracker EOF steps — `Reach h s` — or over every state.

What is *assumed* rather than proved is the OS behaviour encoded in the model's transitions (header of
`TrackerTree.lean`): EOF exactly when the last write end is closed, death closes descriptors, EPIPE iff
the reader is gone, masks and `pass_fds` inherited across `fork_exec`.  The real-process scenarios of
`harness/props/C12.py` are the correspondence for those.
-/
namespace LokyModel.TrackerTree

/-- **Spawn hands the tracker down.**  Whatever happened before (tracker deaths included), right after
    `p` started `c` both believe in the same incarnation, that incarnation is alive, and the child holds
    a write end of its pipe; the child is one level deeper than its parent. -/
theorem spawn_inherits {h : List Ev} {s s' : State} (hr : Reach h s) {p c : Pid} {im : Bool}
    (hs : step s (.spawn p c im) = some s') :
    ∃ t, (s'.procs c).trk = some t ∧ (s'.procs p).trk = some t ∧ (s'.trks t).alive = true
      ∧ c ∈ (s'.trks t).writers ∧ p ∈ (s'.trks t).writers
      ∧ (s'.procs c).depth = (s'.procs p).depth + 1 := by
  have h1 := reach_inv1 hr
  simp only [step] at hs
  split at hs
  · rename_i hg
    simp [isLive] at hg
    injection hs with hs; subst hs
    have hsp := ensure_spec s p h1 hg.1
    have hne : c ≠ p := by intro h; rw [h] at hg; simp [hg.1] at hg
    refine ⟨curTrk (ensureRunning s p) p, ?_⟩
    simp only [upd]
    grind [alive_iff]
  · simp at hs

/-- **One tracker for the whole tree.**  As long as no tracker was killed, every process that was ever
    born — at any depth, by either start method — holds the pid/fd of the root's tracker (incarnation 0),
    and no second incarnation exists. -/
theorem same_tracker_in_tree {h : List Ev} {s : State} (hr : Reach h s) (hk : s.trkKills = 0) :
    s.nTrk ≤ 1 ∧ ∀ p, (s.procs p).st ≠ .unborn → p ≠ 0 →
      (s.procs p).trk = some 0 ∧ (s.procs 0).trk = some 0 := by
  have h1 := reach_inv1 hr
  refine ⟨h1.s1 hk, ?_⟩
  intro p hb hp
  have hn := h1.s1 hk
  have hp1 := h1.p1 p hb hp
  cases htp : (s.procs p).trk with
  | none => exact absurd htp hp1
  | some t =>
    have ht := h1.t2 p t htp
    have ht0 : t = 0 := by grind
    subst ht0
    refine ⟨rfl, ?_⟩
    cases ht0 : (s.procs 0).trk with
    | none => have := h1.p4 ht0; grind
    | some t0 => have := h1.t2 0 t0 ht0; (have : t0 = 0 := by grind); rw [this]

/-- the statement is not vacuous and reaches depth 3 with both start methods -/
example : ∃ s, run init [.spawn 0 1 false, .spawn 1 2 true, .spawn 2 3 false, .exit 0 .crash, .mkfile 3,
      .op 3 .register 0] = some s
    ∧ (s.procs 3).depth = 3 ∧ (s.procs 3).trk = some 0 ∧ s.trkKills = 0 := by
  exact ⟨_, rfl, rfl, rfl, rfl⟩

/-- **The writer set is the set of live believers.** -/
theorem writers_are_live_believers {h : List Ev} {s : State} (hr : Reach h s) (t : Tid) (p : Pid) :
    p ∈ (s.trks t).writers ↔ ((s.procs p).st = .live ∧ (s.procs p).trk = some t) := by
  have h1 := reach_inv1 hr
  exact ⟨h1.w1 t p, fun ⟨a, b⟩ => h1.w2 p t a b⟩

/-- **End-of-life cleanup only after the last writer.**  The tracker's EOF step (sweep + exit) is enabled
    exactly when it is in its read loop and no live process of the tree holds its pipe. -/
theorem sweep_only_after_last_writer {h : List Ev} {s : State} (hr : Reach h s) (t : Tid) :
    (step s (.eof t)).isSome ↔
      ((s.trks t).ph = .running ∧ ∀ p, (s.procs p).st = .live → (s.procs p).trk ≠ some t) := by
  have h1 := reach_inv1 hr
  simp only [step]
  constructor
  · intro he
    split at he
    · rename_i hg
      simp at hg
      refine ⟨hg.1, ?_⟩
      intro p hl ht
      have := h1.w2 p t hl ht
      rw [hg.2] at this; simp at this
    · simp at he
  · intro ⟨hph, hno⟩
    have : (s.trks t).writers = [] := by
      cases hw : (s.trks t).writers with
      | nil => rfl
      | cons q qs =>
        have := h1.w1 t q (by rw [hw]; simp)
        exact absurd this.2 (hno q this.1)
    simp [hph, this]

/-- … and while no tracker was killed, "no live process holds the pipe" means the whole tree is gone. -/
theorem sweep_means_tree_gone {h : List Ev} {s s' : State} (hr : Reach h s) (hk : s.trkKills = 0)
    {t : Tid} (hs : step s (.eof t) = some s') : allGone s := by
  have h1 := reach_inv1 hr
  have hen := (sweep_only_after_last_writer hr t).1 (by rw [hs]; rfl)
  have ht : t < s.nTrk := by
    cases Nat.lt_or_ge t s.nTrk with
    | inl h => exact h
    | inr h => have := (h1.t1 t h).1; rw [hen.1] at this; cases this
  have hn := h1.s1 hk
  have ht0 : t = 0 := by grind
  subst ht0
  intro p hl
  by_cases hp : p = 0
  · subst hp
    cases htp : (s.procs 0).trk with
    | none => have := h1.p4 htp; grind
    | some t0 =>
      have := h1.t2 0 t0 htp
      have : t0 = 0 := by grind
      subst this
      exact hen.2 0 hl htp
  · have := (same_tracker_in_tree hr hk).2 p (by rw [hl]; simp) hp
    exact hen.2 p hl this.1

/-- **SIGKILL of a member only removes it from the writer set** (as any other way of ending does): the
    trackers' phases and registries and the kernel name space are untouched. -/
theorem crash_only_leaves_writer_set {s s' : State} {p : Pid} (hs : step s (.exit p .crash) = some s') :
    s'.ns = s.ns ∧ (∀ t, (s'.trks t).ph = (s.trks t).ph ∧ (s'.trks t).reg = (s.trks t).reg)
    ∧ (∀ t, (s'.trks t).writers = (s.trks t).writers
          ∨ ((s.procs p).trk = some t ∧ (s'.trks t).writers = (s.trks t).writers.erase p))
    ∧ (s'.procs p).st = .dead := by
  simp only [step] at hs
  split at hs
  · simp at hs; subst hs
    unfold leave
    split
    · rename_i t ht
      simp [closeFd, upd]
      refine ⟨?_, ?_⟩
      · intro t'; split <;> simp [*]
      · intro t'; split
        · rename_i h; subst h; right; exact ⟨ht, rfl⟩
        · left; rfl
    · simp [upd]
  · simp at hs

/-- **INT and TERM are ignored**: delivered at any time — start-up included, where they stay pending
    behind the inherited mask — they change nothing but the pending flag of that tracker. -/
theorem ignores_int_term {s s' : State} {t : Tid} {sg : Sig} (hsg : sg ≠ .kill)
    (hs : step s (.sigTracker t sg) = some s') :
    (s'.trks t).alive = (s.trks t).alive ∧ (s'.trks t).ph = (s.trks t).ph
    ∧ (s'.trks t).reg = (s.trks t).reg ∧ (s'.trks t).writers = (s.trks t).writers
    ∧ (∀ t', t' ≠ t → s'.trks t' = s.trks t')
    ∧ s'.ns = s.ns ∧ s'.procs = s.procs ∧ s'.trkKills = s.trkKills := by
  simp only [step] at hs
  split at hs
  · injection hs with hs; subst hs
    have : ((s.trks t).signal sg).ph = (s.trks t).ph ∧ ((s.trks t).signal sg).reg = (s.trks t).reg
        ∧ ((s.trks t).signal sg).writers = (s.trks t).writers := by
      unfold Tracker.signal
      cases (s.trks t).alive <;> simp
      cases sg <;> simp at hsg ⊢ <;> (split <;> simp)
    refine ⟨?_, ?_, ?_, ?_, ?_, rfl, rfl, ?_⟩
    · simp [upd, Tracker.alive, this.1]
    · simp [upd, this.1]
    · simp [upd, this.2.1]
    · simp [upd, this.2.2]
    · intro t' ht; simp [upd, ht]
    · cases sg <;> simp at hsg ⊢
  · simp at hs

/-- **A tracker ends only by SIGKILL or by its own EOF step**, in every history: no other event —
    INT/TERM at any stage, the start-up steps with a signal pending, deaths of members, traffic —
    takes a live tracker down. -/
theorem tracker_ends_only_by_kill_or_eof {s s' : State} {e : Ev} (hs : step s e = some s') (t : Tid)
    (ha : (s.trks t).alive = true) (hd : (s'.trks t).alive = false) :
    e = .sigTracker t .kill ∨ e = .eof t := by
  have key : ∀ p, ((ensureRunning s p).trks t).alive = true := by
    intro p; unfold ensureRunning
    split
    · simp only [launch, upd]; split
      · simp [Tracker.alive]
      · exact ha
    · split
      · exact ha
      · simp only [launch, closeFd, upd]
        split
        · simp [Tracker.alive]
        · split <;> simp_all [Tracker.alive]
  have keys : ∀ p o n, ((send s p o n).trks t).alive = true := by
    intro p o n; unfold send; simp only [upd]
    split
    · rename_i h; subst h
      have := (recv_ph ((ensureRunning s p).trks (curTrk (ensureRunning s p) p)) o n).1
      have k := key p
      unfold Tracker.alive at k ⊢; rw [this]; exact k
    · exact key p
  cases e with
  | sigTracker t' sg =>
    simp only [step] at hs
    split at hs
    · injection hs with hs; subst hs
      by_cases htt : t = t'
      · subst htt
        cases sg with
        | kill => left; rfl
        | int => simp [upd, Tracker.signal, Tracker.alive] at hd; split at hd <;> simp_all [Tracker.alive]
        | term => simp [upd, Tracker.signal, Tracker.alive] at hd; split at hd <;> simp_all [Tracker.alive]
      · simp [upd, htt, ha] at hd
    · simp at hs
  | eof t' =>
    simp only [step] at hs
    split at hs
    · injection hs with hs; subst hs
      by_cases htt : t = t'
      · subst htt; right; rfl
      · simp [sweep, upd, htt, ha] at hd
    · simp at hs
  | boot t' =>
    simp only [step] at hs
    split at hs
    · rename_i tr hb
      injection hs with hs; subst hs
      have := boot_spec _ _ hb
      by_cases htt : t = t'
      · subst htt; simp [upd, this.2.2.2] at hd
      · simp [upd, htt, ha] at hd
    · simp at hs
  | spawn p c im =>
    simp only [step] at hs
    split at hs
    · injection hs with hs; subst hs
      have k := key p
      simp only [upd] at hd
      split at hd
      · rename_i h; subst h; simp [Tracker.alive] at hd k; simp [k] at hd
      · simp [k] at hd
    · simp at hs
  | exit p k =>
    simp only [step] at hs
    split at hs
    · have hl : ((leave s p).trks t).alive = true := by
        unfold leave; split
        · simp only [closeFd, upd]; split
          · rename_i h; subst h; simpa [Tracker.alive] using ha
          · exact ha
        · exact ha
      cases k <;> simp at hs
      · obtain ⟨_, rfl⟩ := hs; simp [hl] at hd
      · obtain ⟨_, rfl⟩ := hs; simp [hl] at hd
      · subst hs; simp [hl] at hd
    · simp at hs
  | op p o n =>
    simp only [step] at hs
    split at hs
    · injection hs with hs; subst hs; simp [keys] at hd
    · simp at hs
  | mkfile p =>
    simp only [step] at hs
    split at hs
    · injection hs with hs; subst hs; simp [ha] at hd
    · simp at hs
  | semOpen p o =>
    simp only [step] at hs
    split at hs
    · injection hs with hs; subst hs; simp [ha] at hd
    · simp at hs
  | semRegister p o =>
    simp only [step] at hs
    split at hs
    · injection hs with hs; subst hs; simp [keys] at hd
    · simp at hs
  | finUnlink p o =>
    simp only [step] at hs
    split at hs
    · injection hs with hs; subst hs; simp [ha] at hd
    · simp at hs
  | finUnregister p o =>
    simp only [step] at hs
    split at hs
    · injection hs with hs; subst hs; simp [keys] at hd
    · simp at hs
  | copy p o c o' =>
    simp only [step] at hs
    split at hs
    · injection hs with hs; subst hs; simp [ha] at hd
    · simp at hs
  | dropCopy c o' =>
    simp only [step] at hs
    split at hs
    · injection hs with hs; subst hs; simp [ha] at hd
    · simp at hs

/-- a signal that arrives during start-up is discarded when the tracker unblocks: the tracker reaches its
    read loop alive (non-vacuity of the start-up clause, both stages) -/
example : ∃ s, run init [.mkfile 0, .op 0 .register 0, .sigTracker 0 .term, .boot 0, .sigTracker 0 .int,
      .boot 0, .sigTracker 0 .term] = some s
    ∧ (s.trks 0).ph = .running ∧ (s.trks 0).reg 0 = 1 ∧ (s.trks 0).pending = false := by
  exact ⟨_, rfl, rfl, rfl, rfl⟩

/-- **A dead tracker seen by a live process was killed** (it cannot have finished on its own while the
    process still held the pipe). -/
theorem dead_tracker_was_killed {h : List Ev} {s : State} (hr : Reach h s) {p : Pid} {t : Tid}
    (hl : (s.procs p).st = .live) (ht : (s.procs p).trk = some t) (hd : (s.trks t).alive = false) :
    (s.trks t).ph = .killed ∧ 0 < s.trkKills := by
  have h1 := reach_inv1 hr
  have hw := h1.w2 p t hl ht
  have hlt := h1.t2 p t ht
  have hnu := h1.t1' t hlt
  have hnd : (s.trks t).ph ≠ .done := by
    intro hdn; have := (h1.t3 t hdn).1; rw [this] at hw; simp at hw
  have : (s.trks t).ph = .killed := by
    unfold Tracker.alive at hd
    cases hph : (s.trks t).ph <;> simp_all
  exact ⟨this, h1.t4 t this⟩

/-- **Self-healing.**  If the tracker `p` believes in is dead, the next tracked operation of `p` is
    enabled (does not fail), launches a fresh incarnation that is alive and whose pipe `p` holds, issues
    exactly one "relaunching" warning, and delivers the request to the new tracker.  Holds in every
    reachable state, hence after any number of earlier tracker deaths. -/
theorem relaunch_after_death {h : List Ev} {s : State} (hr : Reach h s) {p : Pid} {t : Tid} (o : Op) (n : Name)
    (hl : (s.procs p).st = .live) (ht : (s.procs p).trk = some t) (hd : (s.trks t).alive = false)
    (hn : n < s.nName) (hf : s.isSem n = false) :
    ∃ s', step s (.op p o n) = some s'
      ∧ (s'.procs p).trk = some s.nTrk ∧ s'.nTrk = s.nTrk + 1
      ∧ (s'.trks s.nTrk).alive = true ∧ p ∈ (s'.trks s.nTrk).writers
      ∧ (s'.procs p).warned = (s.procs p).warned + 1 ∧ (s'.procs p).st = .live
      ∧ (o = .register → (s'.trks s.nTrk).reg n = 1) := by
  have h1 := reach_inv1 hr
  have hlt := h1.t2 p t ht
  refine ⟨send s p o n, ?_, ?_⟩
  · simp [step, isLive, hl, hn, hf]
  · have he : ensureRunning s p = launch (closeFd s p t) p true := by
      unfold ensureRunning; simp [ht, hd]
    unfold send
    simp only [he]
    have hc : curTrk (launch (closeFd s p t) p true) p = s.nTrk := by
      simp [curTrk, launch, closeFd, upd]
    simp only [hc]
    have hrp := recv_ph ((launch (closeFd s p t) p true).trks s.nTrk) o n
    have hne : s.nTrk ≠ t := by grind
    refine ⟨?_, ?_, ?_, ?_, ?_, ?_, ?_⟩
    · simp [launch, closeFd, upd]
    · simp [launch, closeFd]
    · simp only [upd, if_true]; unfold Tracker.alive; rw [hrp.1]; simp [launch, closeFd, upd]
    · simp only [upd, if_true]; rw [hrp.2]; simp [launch, closeFd, upd]
    · simp [launch, closeFd, upd]
    · simp [launch, closeFd, upd, hl]
    · intro ho; subst ho
      simp [upd, Tracker.recv, launch, closeFd]

/-- relaunch is exercised: tracker killed twice, each next tracked operation yields a new live incarnation -/
example : ∃ s, run init [.mkfile 0, .op 0 .register 0, .sigTracker 0 .kill, .op 0 .register 0,
      .sigTracker 1 .kill, .op 0 .unregister 0] = some s
    ∧ (s.procs 0).trk = some 2 ∧ (s.trks 2).alive = true ∧ (s.procs 0).warned = 2 ∧ s.trkKills = 2 := by
  exact ⟨_, rfl, rfl, rfl, rfl, rfl⟩

/-! ### threads of a member: launch from any thread, concurrent first use, use at import time

`step` has no thread argument (see the model: `ensure_running` does not look at the calling thread and
holds `self._lock` from the probe to the assignment of `_fd/_pid`): the histories below carry the thread
of every action only to say so.  They quantify over **every** list of actions of the threads of one
member, i.e. over every interleaving of a concurrent group of operations. -/

/-- **One (re)launch, whoever asks.**  Whatever the threads of member `p` do, in any number and in any
    interleaving — tracked operations, creation of primitives, finalizers — starting from any reachable
    state: at most one new tracker incarnation appears; none if `p`'s tracker is alive (then `p` keeps
    it and no warning is issued); every "relaunching" warning is matched by a launch and a first use
    (`p` had no tracker) issues none; a launch makes the new incarnation `p`'s tracker, started with
    INT/TERM blocked whichever thread launched it; and no tracker that was alive has its pipe closed or
    changes phase (so none can reach its end-of-life sweep because of what these threads did). -/
theorem one_launch_per_death {h : List Ev} {s s' : State} (hr : Reach h s) (p : Pid) (acts : List TAct)
    (hm : ∀ a ∈ acts, memberAct p a.ev = true) (hrun : runT s acts = some s') :
    s'.nTrk ≤ s.nTrk + 1
    ∧ (s'.procs p).warned + s.nTrk ≤ (s.procs p).warned + s'.nTrk
    ∧ ((s.procs p).trk = none → (s'.procs p).warned = (s.procs p).warned)
    ∧ (aliveFor s p → s'.nTrk = s.nTrk ∧ (s'.procs p).trk = (s.procs p).trk
          ∧ (s'.procs p).warned = (s.procs p).warned)
    ∧ (s'.nTrk = s.nTrk + 1 → (s'.procs p).trk = some s.nTrk ∧ (s'.trks s.nTrk).ph = .starting0)
    ∧ (∀ t, (s.trks t).alive = true → (s'.trks t).alive = true ∧ (s'.trks t).writers = (s.trks t).writers) := by
  have h1 := reach_inv1 hr
  have hm' : ∀ e ∈ acts.map (·.ev), memberAct p e = true := by
    intro e he
    simp only [List.mem_map] at he
    obtain ⟨a, ha, rfl⟩ := he
    exact hm a ha
  have eff : MemberEffect p s s' := member_run h1 hm' hrun
  have hkeep : ∀ t, (s.trks t).alive = true → (s'.trks t).alive = true ∧ (s'.trks t).writers = (s.trks t).writers :=
    fun t ha => ⟨eff.keep_alive t ha, (eff.keep t ha).2⟩
  rcases eff.cases with ⟨hn, ht, hw⟩ | ⟨hna, hn, ht, hph, hw⟩
  · exact ⟨by omega, by omega, fun _ => hw, fun _ => ⟨hn, ht, hw⟩, fun h => by omega, hkeep⟩
  · refine ⟨by omega, ?_, ?_, fun ha => absurd ha hna, fun _ => ⟨ht, hph⟩, hkeep⟩
    · rw [hw, hn]; split <;> omega
    · intro hnone; rw [hw]; simp [hnone]

/-- a dead tracker, three threads using it at once, in two different interleavings: one relaunch, one warning -/
example : ∃ s0 s1 s2, run init [.mkfile 0, .mkfile 0, .op 0 .register 0, .sigTracker 0 .kill] = some s0
    ∧ runT s0 [⟨1, .op 0 .register 0⟩, ⟨2, .op 0 .register 1⟩, ⟨3, .semOpen 0 0⟩, ⟨3, .semRegister 0 0⟩] = some s1
    ∧ runT s0 [⟨3, .semOpen 0 0⟩, ⟨2, .op 0 .register 1⟩, ⟨3, .semRegister 0 0⟩, ⟨1, .op 0 .register 0⟩] = some s2
    ∧ s1.nTrk = 2 ∧ s2.nTrk = 2 ∧ (s1.procs 0).warned = 1 ∧ (s2.procs 0).warned = 1
    ∧ (s1.trks 1).reg 0 = 1 ∧ (s2.trks 1).reg 1 = 1 ∧ (s1.trks 1).reg 2 = 1 := by
  exact ⟨_, _, _, rfl, rfl, rfl, rfl, rfl, rfl, rfl, rfl, rfl, rfl⟩

/-- **INT and TERM during start-up are harmless, whoever launched.**  From the moment a tracker exists
    (in particular right after its launch, when `one_launch_per_death` puts it in `starting0` for a launch by
    any thread), any sequence of its own start-up steps and of SIGINT / SIGTERM deliveries leaves it alive. -/
theorem startup_signals_harmless {s s' : State} {t : Tid} (ha : (s.trks t).alive = true) (es : List Ev)
    (hes : ∀ e ∈ es, e = .boot t ∨ e = .sigTracker t .int ∨ e = .sigTracker t .term)
    (hrun : run s es = some s') : (s'.trks t).alive = true := by
  induction es generalizing s with
  | nil => simp [run] at hrun; subst hrun; exact ha
  | cons e es ih =>
    simp only [run] at hrun
    split at hrun
    · rename_i s1 hs1
      apply ih _ (fun e' he' => hes e' (by simp [he'])) hrun
      rcases hes e (by simp) with rfl | rfl | rfl
      · simp only [step] at hs1
        split at hs1
        · rename_i tr hb
          injection hs1 with hs1; subst hs1
          simpa [upd] using (boot_spec _ _ hb).2.2.2
        · simp at hs1
      · rw [(ignores_int_term (by simp) hs1).1]; exact ha
      · rw [(ignores_int_term (by simp) hs1).1]; exact ha
    · simp at hrun

/-- a relaunch by a non-main thread, TERM and INT hitting the new tracker before and between its start-up steps -/
example : ∃ s0 s1 s2, run init [.mkfile 0, .op 0 .register 0, .sigTracker 0 .kill] = some s0
    ∧ runT s0 [⟨1, .op 0 .register 0⟩] = some s1 ∧ (s1.trks 1).ph = .starting0
    ∧ run s1 [.sigTracker 1 .term, .boot 1, .sigTracker 1 .int, .boot 1, .sigTracker 1 .term] = some s2
    ∧ (s2.trks 1).ph = .running ∧ (s2.trks 1).reg 0 = 1 := by
  exact ⟨_, _, _, rfl, rfl, rfl, rfl, rfl, rfl⟩

/-- **Use of the tracker at import time.**  Whatever a freshly spawned child does on its own right after
    `spawn` — in particular while its main module is re-imported (`loky_init_main`), before its target runs:
    tracked operations, creation of Locks, by any of its threads — goes to its parent's tracker: no new
    incarnation, no warning, and no live tracker loses a writer.  (`prepare` installs the parent's
    `_pid/_fd` *before* `_fixup_main_from_name/_path`: in the model the child holds the tracker from the
    spawn step on.) -/
theorem import_time_use_goes_to_parents_tracker {h : List Ev} {s s1 s2 : State} (hr : Reach h s) {p c : Pid}
    {im : Bool} (hs : step s (.spawn p c im) = some s1) (acts : List TAct)
    (hm : ∀ a ∈ acts, memberAct c a.ev = true) (hrun : runT s1 acts = some s2) :
    s2.nTrk = s1.nTrk ∧ (s2.procs c).trk = (s1.procs p).trk ∧ (s2.procs c).warned = (s1.procs c).warned
    ∧ (∀ t, (s1.trks t).alive = true → (s2.trks t).alive = true ∧ (s2.trks t).writers = (s1.trks t).writers) := by
  obtain ⟨t, hc, hp, hal, _, _, _⟩ := spawn_inherits hr hs
  have hr1 : Reach (.spawn p c im :: h) s1 := Reach.step hr hs
  have key := one_launch_per_death hr1 c acts hm hrun
  have := key.2.2.2.1 ⟨t, hc, hal⟩
  exact ⟨this.1, by rw [this.2.1, hc, hp], this.2.2, key.2.2.2.2.2⟩

/-- the import-time registration of a file and of a Lock by a depth-2 `loky_init_main` child, then its SIGKILL:
    still one incarnation, the root's; nothing is cleaned up -/
example : ∃ s, run init [.mkfile 0, .op 0 .register 0, .spawn 0 1 true, .spawn 1 2 true, .op 2 .register 0,
      .semOpen 2 0, .semRegister 2 0, .exit 2 .crash, .boot 0, .boot 0] = some s
    ∧ s.nTrk = 1 ∧ (s.trks 0).reg 0 = 2 ∧ (s.trks 0).ph = .running ∧ s.ns 0 = true ∧ s.ns 1 = true
    ∧ step s (.eof 0) = none := by
  exact ⟨_, rfl, rfl, rfl, rfl, rfl, rfl, rfl⟩

end LokyModel.TrackerTree
