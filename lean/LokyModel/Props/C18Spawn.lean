import LokyModel.Spawn
import LokyModel.Lemmas.Spawn
/-!
# C18 (spawn part) — a fresh interpreter with only intended inheritance, faithful exit status

Property theorems only, over the model `LokyModel.Spawn` (M8).  Quantifiers: every descriptor
table of the parent (any numbering, any inheritable flags, any size), every list of deliberately
passed descriptors, every parent environment and overlay, every wait status (not only 16-bit
ones), every parent `__main__`.

ASSUMED, not proved (trusted base): `_posixsubprocess.fork_exec(close_fds=True, pass_fds=…)`
behaves as `Spawn.forkExec`; the Linux `W*` macros are as transcribed in `Spawn`.
-/
namespace LokyModel.Spawn

/-! ### descriptors -/

/-- General form: whenever the keep-list has no duplicate, the launch succeeds and the child holds
    exactly the parent's open descriptors that are in the keep-list, or that are stdio (≤ 2) and
    inheritable. -/
theorem child_fds_char (l : Launch) (t : FdTable) (hnd : (keepList l).Nodup) :
    ∃ c, childFds l t = some c ∧
      ∀ fd, fd ∈ c ↔ (isOpen t fd = true ∧
                        (fd ∈ keepList l ∨ (fd ≤ 2 ∧ isInheritable t fd = true))) := by
  have hs : strictInc (passFds (keepList l)) = true := (passFds_strictInc_iff _).2 hnd
  refine ⟨(t.filter (fun e => (passFds (keepList l)).contains e.1 ||
      (e.2 && (decide (e.1 ≤ 2) || !true)))).map (·.1), ?_, ?_⟩
  · unfold childFds lokyForkExec forkExec
    rw [if_pos hs]
  intro fd
  simp only [List.mem_map, List.mem_filter, Bool.or_eq_true, Bool.and_eq_true, List.contains_iff_mem,
    mem_passFds, decide_eq_true_eq, Bool.not_true, Bool.or_false, isOpen, isInheritable,
    List.any_eq_true, beq_iff_eq]
  constructor
  · rintro ⟨e, ⟨he, hc⟩, rfl⟩
    refine ⟨⟨e, he, rfl⟩, ?_⟩
    rcases hc with hc | ⟨hinh, hle⟩
    · exact Or.inl hc
    · exact Or.inr ⟨hle, e, he, rfl, hinh⟩
  · rintro ⟨⟨e, he, rfl⟩, hk | ⟨hle, e', he', heq, hinh⟩⟩
    · exact ⟨e, ⟨he, Or.inl hk⟩, rfl⟩
    · exact ⟨e', ⟨he', Or.inr ⟨hinh, heq ▸ hle⟩⟩, heq⟩

/-- **child descriptor set = {0,1,2} ∪ keep**: with stdio open and inheritable in the parent (the
    interpreter's default) and every deliberately passed descriptor open, the child's descriptor
    set is exactly `{0,1,2} ∪ keepList`, where `keepList` is what `_launch` collects
    (`duplicate_for_child` fds, `child_r`, `child_w`, loky tracker fd, multiprocessing tracker fd). -/
theorem child_fds_eq (l : Launch) (t : FdTable) (hnd : (keepList l).Nodup)
    (hstd : ∀ fd, fd ≤ 2 → isInheritable t fd = true)
    (hopen : ∀ fd, fd ∈ keepList l → isOpen t fd = true) :
    ∃ c, childFds l t = some c ∧ ∀ fd, fd ∈ c ↔ (fd ≤ 2 ∨ fd ∈ keepList l) := by
  obtain ⟨c, hc, hchar⟩ := child_fds_char l t hnd
  refine ⟨c, hc, fun fd => ?_⟩
  rw [hchar]
  constructor
  · rintro ⟨_, hk | ⟨hle, _⟩⟩
    · exact Or.inr hk
    · exact Or.inl hle
  · rintro (hle | hk)
    · have hi := hstd fd hle
      refine ⟨?_, Or.inr ⟨hle, hi⟩⟩
      simp only [isInheritable, List.any_eq_true, Bool.and_eq_true] at hi
      obtain ⟨e, he, h1, _⟩ := hi
      simp only [isOpen, List.any_eq_true]
      exact ⟨e, he, h1⟩
    · exact ⟨hopen fd hk, Or.inl hk⟩

/-- **no stray descriptor**: a descriptor above stdio that is not in the keep-list is not open in
    the child — whatever its number, whatever its inheritable flag (the table is arbitrary), and
    whether or not the launch's keep-list is otherwise sane. -/
theorem no_stray_fd (l : Launch) (t : FdTable) (c : List Nat) (fd : Nat)
    (h : childFds l t = some c) (hgt : 2 < fd) (hnk : fd ∉ keepList l) : fd ∉ c := by
  unfold childFds lokyForkExec forkExec at h
  split at h
  · injection h with h
    subst h
    simp only [List.mem_map, List.mem_filter, Bool.or_eq_true, Bool.and_eq_true,
      List.contains_iff_mem, mem_passFds, decide_eq_true_eq, Bool.not_true, Bool.or_false]
    rintro ⟨e, ⟨_, hk | ⟨_, hle⟩⟩, rfl⟩
    · exact hnk hk
    · omega
  · cases h

/-- the parent's own ends of the two pipes (`parent_r` = the sentinel, `parent_w` = payload writer)
    never reach the child: EOF on the sentinel means the child (and whoever it passed `child_w`
    to) is gone, and the payload pipe reaches EOF once the parent has written -/
theorem parent_ends_not_inherited (l : Launch) (t : FdTable) (c : List Nat) (parentR parentW : Nat)
    (h : childFds l t = some c) (h1 : 2 < parentR) (h2 : 2 < parentW)
    (hr : parentR ∉ keepList l) (hw : parentW ∉ keepList l) : parentR ∉ c ∧ parentW ∉ c :=
  ⟨no_stray_fd l t c parentR h h1 hr, no_stray_fd l t c parentW h h2 hw⟩

/-- every deliberately passed descriptor that is open in the parent is open in the child, under
    the same number, even if it was not inheritable -/
theorem deliberate_fds_reach_child (l : Launch) (t : FdTable) (c : List Nat) (fd : Nat)
    (h : childFds l t = some c) (hk : fd ∈ keepList l) (ho : isOpen t fd = true) : fd ∈ c := by
  unfold childFds lokyForkExec forkExec at h
  split at h
  · injection h with h
    subst h
    simp only [isOpen, List.any_eq_true, beq_iff_eq] at ho
    obtain ⟨e, he, rfl⟩ := ho
    simp only [List.mem_map, List.mem_filter, Bool.or_eq_true, List.contains_iff_mem, mem_passFds]
    exact ⟨e, ⟨he, Or.inl hk⟩, rfl⟩
  · cases h

/-- the keep-list always contains the payload pipe, the sentinel pipe and both tracker fds -/
theorem keep_has_roles (l : Launch) :
    l.childR ∈ keepList l ∧ l.childW ∈ keepList l ∧ l.tracker ∈ keepList l ∧
      (∀ m, l.mpTracker = some m → m ∈ keepList l) ∧ (∀ d, d ∈ l.dupFds → d ∈ keepList l) := by
  refine ⟨by simp [keepList], by simp [keepList], by simp [keepList], ?_, ?_⟩
  · intro m hm; simp [keepList, hm]
  · intro d hd; simp [keepList, hd]

/-- and nothing else: a member of the keep-list has one of the five roles -/
theorem keep_only_roles (l : Launch) (fd : Nat) (h : fd ∈ keepList l) :
    fd ∈ l.dupFds ∨ fd = l.childR ∨ fd = l.childW ∨ fd = l.tracker ∨ l.mpTracker = some fd := by
  simp only [keepList, List.mem_append, List.mem_cons, List.not_mem_nil, or_false,
    Option.mem_toList] at h
  rcases h with (h | h | h | h) | h
  · exact Or.inl h
  · exact Or.inr (Or.inl h)
  · exact Or.inr (Or.inr (Or.inl h))
  · exact Or.inr (Or.inr (Or.inr (Or.inl h)))
  · exact Or.inr (Or.inr (Or.inr (Or.inr h)))

/-- behaviour of the code as it is: the same descriptor registered twice (two connection objects
    over one fd, or a passed fd that happens to be a tracker fd) makes `Process.start()` raise
    `ValueError: bad value(s) in fds_to_keep` instead of spawning -/
theorem duplicate_keep_rejected (l : Launch) (t : FdTable) (h : ¬ (keepList l).Nodup) :
    childFds l t = none := by
  have : strictInc (passFds (keepList l)) = false := by
    cases hs : strictInc (passFds (keepList l)) with
    | false => rfl
    | true => exact absurd ((passFds_strictInc_iff _).1 hs) h
  simp [childFds, lokyForkExec, forkExec, this]

/-! ### environment -/

/-- **env overlay**: child env k = overlay k if present, else parent k -/
theorem env_overlay (parent overlay : Env) (k : String) :
    (mergeEnv parent overlay).get k =
      match overlay.get k with
      | some v => some v
      | none => parent.get k := by
  unfold mergeEnv Env.get
  rw [lookup_append', lookup_map_val parent (fun k v => (List.lookup k overlay).getD v) k,
    lookup_filter_new]
  unfold Env.hasKey
  cases hp : parent.lookup k <;> cases ho : overlay.lookup k <;> simp

/-- empty values are values: an overlay entry `k=""` yields `k=""` in the child (it neither
    unsets `k` nor falls back to the parent's value) -/
theorem env_empty_kept (parent overlay : Env) (k : String) (h : overlay.get k = some "") :
    (mergeEnv parent overlay).get k = some "" := by
  rw [env_overlay, h]

/-- `env=None` and `env={}` both give the parent's environment -/
theorem env_no_overlay (parent : Env) (k : String) :
    (childEnv parent none).get k = parent.get k ∧ (childEnv parent (some [])).get k = parent.get k := by
  constructor <;> (unfold childEnv; rw [env_overlay]; rfl)

/-- no key is lost and none is invented -/
theorem env_keys (parent overlay : Env) (k : String) :
    (mergeEnv parent overlay).hasKey k = (parent.hasKey k || overlay.hasKey k) := by
  have h := env_overlay parent overlay k
  unfold Env.get at h
  unfold Env.hasKey
  rw [h]
  cases overlay.lookup k <;> cases parent.lookup k <;> rfl

/-! ### wait status -/

/-- **exit-code decoding, every wait status** (in particular all 65 536 16-bit ones): low seven
    bits 0 ⇒ the exit code is bits 8–15; low seven bits 1…126 ⇒ minus that signal, with or without
    the core-dump bit; 127 (stopped/continued, never returned to `poll`) ⇒ the assertion fires. -/
theorem exitcode_decode (s : Nat) :
    decode s =
      if s % 128 = 0 then .code ((s / 256 % 256 : Nat) : Int)
      else if s % 128 = 127 then .assertionError
      else .code (-((s % 128 : Nat) : Int)) := by
  unfold decode wIfSignaled wIfExited
  rw [wTermSig_eq, wExitStatus_eq]
  have : s % 128 < 128 := Nat.mod_lt _ (by decide)
  by_cases h0 : s % 128 = 0
  · simp [h0]
  · by_cases h127 : s % 128 = 127
    · simp [h127]
    · have h1 : 0 < s % 128 := Nat.pos_of_ne_zero h0
      have h2 : s % 128 < 127 := by omega
      simp [h0, h127, h1, h2]

/-- a child that exits with code `n` (0…255) is reported as `n` -/
theorem exit_code_faithful (n : Nat) (hn : n < 256) :
    poll none (.mine (n * 256)) = .ret (some (n : Int)) := by
  have h : decode (n * 256) = .code (n : Int) := by
    have h1 : n * 256 % 128 = 0 := by omega
    have h2 : n * 256 / 256 % 256 = n := by omega
    rw [exitcode_decode, if_pos h1, h2]
  simp [poll, h]

/-- a child terminated by signal `sig` (1…126) is reported as `-sig`, core dumped or not -/
theorem signal_faithful (sig : Nat) (h1 : 1 ≤ sig) (h2 : sig ≤ 126) (core : Bool) :
    poll none (.mine (sig + (if core then 128 else 0))) = .ret (some (-(sig : Int))) := by
  have h : decode (sig + (if core then 128 else 0)) = .code (-(sig : Int)) := by
    rw [exitcode_decode]
    have hm : (sig + (if core then 128 else 0)) % 128 = sig := by cases core <;> simp <;> omega
    have h0 : sig ≠ 0 := by omega
    have h127 : sig ≠ 127 := by omega
    simp [hm, h0, h127]
  simp [poll, h]

/-- exit and signal reports never collide, and a reported code determines what happened:
    non-negative ⇔ normal exit, negative ⇔ signal -/
theorem exitcode_sign (s : Nat) (c : Int) (h : decode s = .code c) :
    (0 ≤ c ↔ s % 128 = 0) := by
  rw [exitcode_decode] at h
  by_cases h0 : s % 128 = 0
  · simp [h0] at h; omega
  · by_cases h127 : s % 128 = 127
    · simp [h127] at h
    · simp [h0, h127] at h; omega

/-- `returncode` is write-once: once set, `poll` returns it without consulting `waitpid`; while
    the child runs (`WNOHANG` gives pid 0) or `waitpid` fails, it stays `None` -/
theorem poll_sticky (c : Int) (w : WaitRes) : poll (some c) w = .ret (some c) := rfl

theorem poll_running : poll none .notYet = .ret none ∧ poll none .oserror = .ret none := ⟨rfl, rfl⟩

/-! ### main module -/

/-- the preparation data carries a main-module key iff `init_main_module` is in force and the
    parent's `__main__` has a spec name or a file -/
theorem main_key_iff (p : ProcObj) (m : MainInfo) :
    mainKey (effectiveInitMain p) m ≠ .none ↔
      (effectiveInitMain p = true ∧ (m.specName.isSome = true ∨ m.file.isSome = true)) := by
  unfold mainKey
  cases effectiveInitMain p <;> cases m.specName <;> cases m.file <;> simp

/-- **no re-run of `__main__`** under the default start method: a `LokyProcess` built without
    `init_main_module` (the default `False`), and the process class of the `'loky'` context, ship
    no main-module key, and the child does not execute the parent's main again — whatever that
    main is. `LokyInitMainProcess` does ship the key. -/
theorem no_main_rerun (m : MainInfo) (c : ChildMain) :
    mainKey (effectiveInitMain lokyProcess) m = .none ∧
    childRerunsMain lokyProcess m c = false ∧
    (∀ p, processOfMethod "loky" = some p → childRerunsMain p m c = false) ∧
    effectiveInitMain lokyInitMainProcess = true := by
  refine ⟨rfl, rfl, ?_, rfl⟩
  intro p hp
  have : p = lokyProcess := by
    simp [processOfMethod] at hp; exact hp.symm
  subst this; rfl

/-- with no key in the preparation data nothing is re-run, for any child -/
theorem no_key_no_rerun (c : ChildMain) : rerunsMain .none c = false := rfl

/-! ### non-vacuity and witnesses -/

/-- parent has 0,1,2, an inheritable stray 5, a non-inheritable stray 900, the pipes 7/10, the
    trackers 4/6 and one passed connection 12 (not inheritable): the child gets exactly
    0,1,2,4,6,7,10,12 -/
example : childFds ⟨[12], 7, 10, 4, some 6⟩
    [(0, true), (1, true), (2, true), (4, false), (5, true), (6, false), (7, true), (8, false),
     (9, false), (10, true), (12, false), (900, false)] = some [0, 1, 2, 4, 6, 7, 10, 12] := by decide
/-- the assumption `close_fds=True` matters: without it the inheritable stray 5 leaks -/
example : forkExec false (passFds [7, 10]) [(0, true), (5, true), (7, true), (10, true)]
    = some [0, 5, 7, 10] := by decide
example : (keepList ⟨[12], 7, 10, 4, some 6⟩).Nodup := by decide
example : childFds ⟨[12, 12], 7, 10, 4, some 6⟩ [(0, true)] = none := by decide
example : (mergeEnv [("A", "1"), ("B", "2")] [("B", ""), ("C", "3")]) = [("A", "1"), ("B", ""), ("C", "3")] := by
  decide
example : decode 0x0300 = .code 3 ∧ decode 9 = .code (-9) ∧ decode 0x8b = .code (-11) ∧
    decode 0x137f = .assertionError := by decide
example : childRerunsMain lokyInitMainProcess ⟨none, some "/x/s.py"⟩ ⟨some "loky.backend.popen_loky_posix", some "/r/popen_loky_posix.py", "s"⟩ = true := by
  decide

end LokyModel.Spawn
