import LokyModel.KillTree
import LokyModel.Lemmas.KillTree
/-!
# C02 / C06 (kill-tree part) — `kill_process_tree` kills the whole tree, children first;
# exit codes are named faithfully

Property theorems only, over the model `LokyModel.KillTree` (M10).  Quantifiers: every finite
forest (any shape, depth, pid numbering: "finite and acyclic" is the existence of a rank that
decreases from parent to child), every mix of running / zombie / vanished members, every set of
bystander processes, every list of exit codes.

ASSUMED (trusted base): `pgrep -P pid` lists exactly the children of `pid`;
`psutil.Process(pid).children(recursive=True)` lists exactly the proper descendants, each after
its parent; nobody forks while the tree is being killed; SIGKILL cannot be caught.

Behaviour of the code as it is that limits the claim: without psutil the traversal needs a working
`pgrep`; when the first `pgrep` call fails the fall-back `process.kill()` raises `AttributeError`
for a `LokyProcess` (loky's POSIX `Popen` has no `kill`), see `no_pgrep_no_kill`.
-/
namespace LokyModel.KillTree

/-- finite, acyclic forest: some rank strictly decreases from every parent to every child -/
def Ranked (k : Kids) (rank : Nat → Nat) : Prop := ∀ p c, c ∈ kidsOf k p → rank c < rank p

/-- **kill_process_tree kills all, nothing else** — the path without psutil (all loky's own code):
    afterwards no member of `root`'s subtree is running, every signal went to a member of the
    subtree, bystanders are exactly as before, the root has been joined (reaped). -/
theorem killTree_kills_all (k : Kids) (rank : Nat → Nat) (hr : Ranked k rank)
    (fuel root : Nat) (hf : rank root < fuel) (hasKill : Bool) (s : Sys) :
    let o := killPosix k fuel root true hasKill s
    (∀ p, Desc k root p → p ∉ o.sys.running) ∧
    (∀ a, a ∈ o.attempts → Desc k root a.1) ∧
    (∀ p, ¬ Desc k root p → (p ∈ o.sys.running ↔ p ∈ s.running)) ∧
    o.ending = .returned true ∧ root ∉ o.sys.zombie := by
  simp only [killPosix, if_true]
  refine ⟨?_, ?_, ?_, by first | rfl | trivial, reap_not_zombie _ _⟩
  · intro p hp
    rw [reap_running, killAll_running]
    exact fun h => h.2 (desc_mem_posixOrder k rank hr fuel root p hf hp)
  · intro a ha
    have : a.1 ∈ (killAll s (posixOrder k fuel root)).1.map (·.1) := List.mem_map.2 ⟨a, ha, rfl⟩
    rw [killAll_attempts] at this
    exact mem_posixOrder_desc k fuel root a.1 this
  · intro p hp
    rw [reap_running, killAll_running]
    exact ⟨fun h => h.1, fun h => ⟨h, fun hm => hp (mem_posixOrder_desc k fuel root p hm)⟩⟩

/-- the same with psutil, given what psutil is trusted to return: `listing` = exactly the proper
    descendants of `root`; the root must still have a process-table entry (else see
    `psutil_missing_root`) -/
theorem killTree_kills_all_psutil (k : Kids) (root : Nat) (listing : List Nat) (s : Sys)
    (hl : ∀ p, p ∈ listing ↔ (Desc k root p ∧ p ≠ root)) (hroot : s.has root = true) :
    let o := killPsutil root listing s
    (∀ p, Desc k root p → p ∉ o.sys.running) ∧
    (∀ a, a ∈ o.attempts → Desc k root a.1) ∧
    (∀ p, ¬ Desc k root p → (p ∈ o.sys.running ↔ p ∈ s.running)) ∧
    o.ending = .returned true ∧ root ∉ o.sys.zombie := by
  have hmem : ∀ p, p ∈ psutilOrder listing root ↔ Desc k root p := by
    intro p
    simp only [psutilOrder, List.mem_append, List.mem_reverse, hl, List.mem_singleton]
    constructor
    · rintro (h | rfl)
      · exact h.1
      · exact Desc.refl _
    · intro h
      by_cases hp : p = root
      · exact Or.inr hp
      · exact Or.inl ⟨h, hp⟩
  simp only [killPsutil, hroot, if_true]
  refine ⟨?_, ?_, ?_, by first | rfl | trivial, reap_not_zombie _ _⟩
  · intro p hp
    rw [reap_running, killAll_running]
    exact fun h => h.2 ((hmem p).2 hp)
  · intro a ha
    have : a.1 ∈ (killAll s (psutilOrder listing root)).1.map (·.1) := List.mem_map.2 ⟨a, ha, rfl⟩
    rw [killAll_attempts] at this
    exact (hmem a.1).1 this
  · intro p hp
    rw [reap_running, killAll_running]
    exact ⟨fun h => h.1, fun h => ⟨h, fun hm => hp ((hmem p).1 hm)⟩⟩

/-- members that are already dead (zombie or gone) do not disturb the call: the list of attempts
    is the same whatever is still running (errors `ESRCH` / `NoSuchProcess` are swallowed) -/
theorem kill_order_independent_of_liveness (k : Kids) (fuel root : Nat) (hasKill : Bool) (s s' : Sys) :
    (killPosix k fuel root true hasKill s).attempts.map (·.1)
      = (killPosix k fuel root true hasKill s').attempts.map (·.1) := by
  simp [killPosix, killAll_attempts]

/-- **children before parents**, path without psutil: every child of every member of the subtree is
    signalled strictly before that member -/
theorem children_before_parents (k : Kids) (rank : Nat → Nat) (hr : Ranked k rank)
    (fuel root : Nat) (hf : rank root < fuel) (hasKill : Bool) (s : Sys) (p c : Nat)
    (hp : Desc k root p) (hc : c ∈ kidsOf k p) :
    Before c p ((killPosix k fuel root true hasKill s).attempts.map (·.1)) := by
  simp only [killPosix, if_true, killAll_attempts]
  exact before_in_posixOrder k rank hr fuel root p c hf hp hc

/-- psutil's listing puts every process after its parent … -/
def ParentFirst (k : Kids) (root : Nat) (listing : List Nat) : Prop :=
  ∀ p c, c ∈ kidsOf k p → c ∈ listing → (p = root ∨ Before p c listing)

/-- … so the reversed listing followed by the root kills **children before parents** -/
theorem children_before_parents_psutil (k : Kids) (root : Nat) (listing : List Nat) (s : Sys)
    (hroot : s.has root = true) (hpf : ParentFirst k root listing) (p c : Nat)
    (hc : c ∈ kidsOf k p) (hcl : c ∈ listing) :
    Before c p ((killPsutil root listing s).attempts.map (·.1)) := by
  simp only [killPsutil, hroot, if_true, killAll_attempts, psutilOrder]
  rcases hpf p c hc hcl with rfl | ⟨l1, l2, l3, h⟩
  · obtain ⟨u, v, huv⟩ := List.append_of_mem (List.mem_reverse.2 hcl)
    exact ⟨u, v, [], by rw [huv]⟩
  · refine ⟨l3.reverse, l2.reverse, l1.reverse ++ [root], ?_⟩
    rw [h]; simp [List.reverse_append, List.append_assoc]

/-- what the code does when the root has no process-table entry any more under psutil: it returns
    at once, signals nobody and does **not** join -/
theorem psutil_missing_root (root : Nat) (listing : List Nat) (s : Sys) (h : s.has root = false) :
    killPsutil root listing s = ⟨[], s, .returned false, false⟩ := by
  simp [killPsutil, h]

/-- behaviour of the code as it is: no psutil, `pgrep` not usable, process object is a
    `LokyProcess` (its POSIX `Popen` has no `kill`): a warning, then `AttributeError`; nobody is
    signalled — the tree survives -/
theorem no_pgrep_no_kill (k : Kids) (fuel root : Nat) (s : Sys) :
    killPosix k fuel root false false s = ⟨[], s, .attributeError, true⟩ := rfl

/-- dispatch: psutil is used iff requested and importable -/
theorem dispatch (u h : Bool) (k : Kids) (fuel root : Nat) (listing : List Nat) (pg hk : Bool) (s : Sys) :
    killProcessTree u h k fuel root listing pg hk s =
      if u = true ∧ h = true then killPsutil root listing s else killPosix k fuel root pg hk s := by
  cases u <;> cases h <;> rfl

/-! ### exit codes -/

/-- **format_exitcodes**: one entry per exit code that is not `None`, in order, written
    `NAME(code)` with the braces and `", "` separators; `NAME` is `EXIT` for 0…254 and above 255,
    `UNKNOWN` for 255, the signal's name for `-s` when Python knows signal `s` (all of 1…31,
    `SIGRTMIN`, `SIGRTMAX`) and `UNKNOWN` otherwise. -/
theorem format_exitcodes_spec (cs : List (Option Int)) :
    formatExitcodes cs = "{" ++ ", ".intercalate (entries cs) ++ "}" ∧
    (entries cs).length = (cs.filter Option.isSome).length ∧
    (∀ e : Int, entries [some e] = [exitcodeName e ++ "(" ++ toString e ++ ")"]) ∧
    entries [none] = [] ∧
    (∀ a b : List (Option Int), entries (a ++ b) = entries a ++ entries b) ∧
    (∀ e : Int, 0 ≤ e → e ≠ 255 → exitcodeName e = "EXIT") ∧
    exitcodeName 255 = "UNKNOWN" ∧
    (∀ s : Nat, 0 < s → exitcodeName (-(s : Int)) = (sigName s).getD "UNKNOWN") := by
  refine ⟨rfl, ?_, fun e => rfl, rfl, ?_, ?_, rfl, ?_⟩
  · induction cs with
    | nil => rfl
    | cons a t ih =>
      cases a <;> simp_all [entries]
  · intro a b; simp [entries, List.filterMap_append]
  · intro e h0 h255
    have : ¬ e < 0 := by omega
    simp [exitcodeName, this, h255]
  · intro s hs
    have h1 : (-(s : Int)) < 0 := by omega
    have h2 : (- -(s : Int)).toNat = s := by simp
    unfold exitcodeName
    rw [if_pos h1, h2]

/-- the signal table: exactly 1…31, 34 and 64 are named; the ones a worker usually dies of -/
theorem signal_names :
    (∀ s, s < 70 → ((sigName s).isSome = true ↔ ((1 ≤ s ∧ s ≤ 31) ∨ s = 34 ∨ s = 64))) ∧
    sigName 9 = some "SIGKILL" ∧ sigName 11 = some "SIGSEGV" ∧ sigName 15 = some "SIGTERM" ∧
    sigName 6 = some "SIGABRT" ∧ sigName 2 = some "SIGINT" ∧ sigName 7 = some "SIGBUS" := by
  refine ⟨by decide, rfl, rfl, rfl, rfl, rfl, rfl⟩

/-- `get_exitcodes_terminated_worker`: if some worker's exit code is already visible the string
    lists exactly the visible codes and nobody sleeps; otherwise at most five sleeps, and the
    first non-empty reading is reported -/
theorem exitcodes_visible_now (snaps : List (List (Option Int))) (h : snapshotAt snaps 0 ≠ []) :
    getExitcodesTerminatedWorker snaps = (formatExitcodes ((snapshotAt snaps 0).map some), 0) := by
  unfold getExitcodesTerminatedWorker
  have : (snapshotAt snaps 0).isEmpty = false := by
    cases hh : snapshotAt snaps 0 with
    | nil => exact absurd hh h
    | cons => rfl
  simp [patienceLoop, this]

theorem patience_bounded (snaps : List (List (Option Int))) :
    (getExitcodesTerminatedWorker snaps).2 ≤ 5 := by
  have aux : ∀ (p clock : Nat) (cur : List Int), (patienceLoop snaps p clock cur).2 ≤ clock + p := by
    intro p
    induction p with
    | zero => intro clock cur; simp [patienceLoop]
    | succ p ih =>
      intro clock cur
      unfold patienceLoop
      split
      · have := ih (clock + 1) (snapshotAt snaps clock); omega
      · simp
  have := aux 5 0 (snapshotAt snaps 0)
  simpa [getExitcodesTerminatedWorker] using this

/-! ### non-vacuity and witnesses -/

/-- worker 10 with children 11 (→ 13, 14) and 12; bystanders 20 (→ 21); 14 already a zombie -/
example : killPosix [(10, [11, 12]), (11, [13, 14]), (20, [21])] 8 10 true false
      ⟨[10, 11, 12, 13, 20, 21], [14]⟩
    = ⟨[(13, true), (14, true), (11, true), (12, true), (10, true)],
       ⟨[20, 21], [12, 11, 13, 14]⟩, .returned true, false⟩ := by decide
example : Ranked [(10, [11, 12]), (11, [13, 14]), (20, [21])] (fun p => 30 - p) := by
  intro p c h
  show 30 - c < 30 - p
  by_cases h10 : p = 10
  · subst h10; simp [kidsOf, List.lookup] at h; omega
  · by_cases h11 : p = 11
    · subst h11; simp [kidsOf, List.lookup] at h; omega
    · by_cases h20 : p = 20
      · subst h20; simp [kidsOf, List.lookup] at h; omega
      · have e10 : (p == 10) = false := by simpa using h10
        have e11 : (p == 11) = false := by simpa using h11
        have e20 : (p == 20) = false := by simpa using h20
        have : kidsOf [(10, [11, 12]), (11, [13, 14]), (20, [21])] p = [] := by
          simp [kidsOf, List.lookup, e10, e11, e20]
        rw [this] at h; cases h
example : killPsutil 10 [11, 12, 13, 14] ⟨[10, 11, 12, 13, 14, 20], []⟩
    = ⟨[(14, true), (13, true), (12, true), (11, true), (10, true)],
       ⟨[20], [11, 12, 13, 14]⟩, .returned true, false⟩ := by decide
example : formatExitcodes [some (-9), none, some 3, some 255, some (-33)]
    = "{SIGKILL(-9), EXIT(3), UNKNOWN(255), UNKNOWN(-33)}" := by decide
example : getExitcodesTerminatedWorker [[none, none], [none, none], [none, some (-11)]]
    = ("{SIGSEGV(-11)}", 3) := by decide

end LokyModel.KillTree
