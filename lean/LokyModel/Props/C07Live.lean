import LokyModel.Lemmas.ExecLiveDynAll
import LokyModel.Props.C01Live
/-!
# C07 / C01 — deadlock freedom of pools with an idle time-out (dynamic pools)

"Submitted work still completes because missing workers are re-spawned", as a theorem about M1.

*Dynamic pool* (`Cfg.dynPool`, executable): an idle time-out is configured; no memory-leak exit, no failing initializer,
no task whose body kills its worker or whose payload fails to un-pickle, no `shutdown(kill_workers=True)`, the executor
stays referenced (no `drop`: with a time-out that is the class of the known finding D4), `max_workers ≥ 1`; at most one
`create` in the scripts (`Cfg.oneCreate`: a second one would reset the model's reference count).  Everything else is
arbitrary: workers, tasks, user threads and their scripts (`submit`, `cancel`, `shutdown(wait=True/False)`, interpreter
exit, idling), raising tasks, unpicklable and oversized arguments, an initializer, and **every interleaving with every
placement of time-out firings**: workers leave when idle (alone or all at once, before or after an item reached them,
while the management lock is held, during the shutdown), announce it, are un-registered and joined by the manager and
re-spawned by it or by the next `submit`.  Runs without crash steps (`ReachableNC`).

With a time-out every wait of a worker is timed, so a live worker can always move: a quiescent state has no live worker.
Then (`NBInv.ann`) no worker is registered any more, and the **re-spawn invariant** `respawnOk` says nothing is pending:
`pidAcq` erasing the last registered worker is followed by `mRespawnCheck`, which re-spawns whenever something is pending
(`refs > 0` because the executor stays referenced), and a `submit` that finds the pool incomplete spawns before it wakes
the manager.  As for static pools this is deadlock freedom, not termination.
-/
namespace LokyModel.Exec

theorem mRsp_of_mHolds (pc : MPc) (p : Pid) (h : mHolds pc p = true) : mRsp pc = true := by
  unfold mHolds at h
  split at h <;> first | rfl | cases h

/-- **C07/C01, dynamic pools: a quiescent state is a good one.**  In every state that a pool with an idle time-out
    reaches without crash steps, if no actor has an enabled step (other than a crash), then every future is resolved and
    every user thread has finished its script: no submitted task is ever stranded without a worker. -/
theorem C07_dyn_pool_no_deadlock (cfg : Cfg) (hc : cfg.dynPool = true) (ho : cfg.oneCreate = true) (s : St)
    (h : ReachableNC cfg s) (hq : enabledNC s = []) : good s = true := by
  have hr := h.reachable
  have L := dynLiveInv_reachableNC hc ho h
  have hnb := nbInv_reachableNC (benign_of_dynPool cfg hc) h
  refine stuck_good_dyn s (pidsInv_reachable hr) (flagInv_reachable hr) (holderOk_of_ok'' L.holder)
    (dynOk_of_dynOk' L.dyn.1) L.add (wakeOkD_of_wakeOkD' s L.wake) (respawnOk_of_respawnOk' s L.rsp) L.trecv ?_ ?_ ?_ hq
  · intro i hi hd
    apply Decidable.byContradiction
    intro hm
    have := (futInv_reachable hr).resolved i hi hm
    rw [hd] at this; cases this
  · intro he
    have ht : mTerm s.mpc = true := by
      unfold mEnded at he; split at he <;> simp_all [mTerm]
    exact termInv_reachable hr ht
  · intro p hp hd
    have hl : leaving (s.w p) = true := by rw [hd]; rfl
    rcases hnb.ann p hp hl with h1 | h1
    · left; intro he; rw [he] at h1; cases h1
    · right
      exact mRsp_of_mHolds _ _ h1

/-- … in the vocabulary of the witness theorems of `Props/C01.lean`: no reachable state of a dynamic pool is `stuckBad`
    (the D4 witness has a `drop`; D5 and D7 have crash steps). -/
theorem C07_dyn_pool_never_stuck_bad (cfg : Cfg) (hc : cfg.dynPool = true) (ho : cfg.oneCreate = true) (s : St)
    (h : ReachableNC cfg s) : stuckBad s = false := by
  unfold stuckBad
  cases he : anyEnabled s with
  | true => simp
  | false =>
    have hg := C07_dyn_pool_no_deadlock cfg hc ho s h ((anyEnabled_false_iff s).1 he)
    unfold good at hg
    simp only [Bool.and_eq_true] at hg
    simp only [Bool.not_false, Bool.true_and, Bool.or_eq_false_iff]
    constructor
    · rw [List.any_eq_false]
      intro f hf
      have := List.all_eq_true.1 hg.1 f hf
      simp [this]
    · rw [List.any_eq_false]
      intro k hk
      have := List.all_eq_true.1 hg.2 k hk
      simpa using this

/-- **re-spawn**, spelled out: in a dynamic pool, whenever no worker is registered while the manager waits, nothing is
    pending — unless a wake-up is in the pipe, a message is in the result pipe, or a thread owes a wake-up. -/
theorem C07_respawn (cfg : Cfg) (hc : cfg.dynPool = true) (ho : cfg.oneCreate = true) (s : St) (h : ReachableNC cfg s)
    (sn : List Pid) (hm : s.mpc = .wait sn) (hp : s.procDict = []) (hw : s.wakeup = 0) (hrq : s.rqPipe = [])
    (ho' : owesD s = false) : s.pending = [] := by
  have L := dynLiveInv_reachableNC hc ho h
  have hr := respawnOk_of_respawnOk' s L.rsp
  unfold respawnOk at hr
  simp [hp, hw, hrq, ho', hm, mRsp] at hr
  exact hr

/-- the D4 witness is outside the class only by its `drop` -/
example : cfgD4.timeout = true ∧ cfgD4.dynPool = false := by decide

/-! ### non-vacuity: a dynamic pool, a run with time-outs and a re-spawn to a quiescent state -/

/-- one worker; a task, a pause long enough for the worker to time out, another (raising) task, `shutdown(wait=True)` -/
def cfgDyn : Cfg :=
  { maxWorkers := 1, timeout := true, tasks := [{}, { body := .raises }],
    scripts := [[.create, .submit 0, .idle, .idle, .idle, .idle, .idle, .idle, .submit 1, .shutdown true false]] }
def schedDyn : List (Actor × Variant) :=
  [(.U 0, .ok), (.U 0, .ok), (.U 0, .ok), (.U 0, .ok), (.U 0, .ok), (.U 0, .ok), (.U 0, .ok), (.W 100, .ok),
   (.U 0, .ok), (.W 100, .ok), (.W 100, .timeout), (.U 0, .ok), (.U 0, .ok), (.M, .ok), (.M, .ok), (.M, .ok),
   (.M, .ok), (.W 100, .ok), (.U 0, .ok), (.W 100, .ok), (.U 0, .ok), (.W 100, .ok), (.U 0, .ok), (.F, .ok),
   (.F, .ok), (.W 100, .ok), (.M, .ok), (.U 0, .ok), (.F, .ok), (.M, .ok), (.F, .ok), (.M, .fail), (.U 0, .ok),
   (.U 0, .ok), (.U 0, .ok), (.U 0, .ok), (.U 0, .ok), (.W 100, .ok), (.M, .ok), (.U 0, .ok), (.M, .ok),
   (.W 100, .ok), (.M, .fail), (.U 0, .ok), (.W 100, .timeout), (.W 100, .ok), (.M, .ok), (.U 0, .ok), (.M, .ok),
   (.M, .ok), (.M, .ok), (.M, .ok), (.U 0, .ok), (.U 0, .ok), (.U 0, .ok), (.U 0, .ok), (.U 0, .ok), (.U 0, .ok),
   (.M, .ok), (.M, .ok), (.M, .ok), (.W 101, .ok), (.U 0, .ok), (.U 0, .ok), (.M, .ok), (.W 101, .ok),
   (.W 101, .ok), (.M, .ok), (.M, .ok), (.M, .ok), (.M, .ok), (.W 101, .ok), (.W 101, .ok), (.M, .ok),
   (.W 101, .ok), (.M, .ok), (.F, .ok), (.W 101, .ok), (.M, .ok), (.W 101, .ok), (.F, .ok), (.F, .ok), (.F, .ok),
   (.W 101, .ok), (.M, .fail), (.W 101, .ok), (.W 101, .ok), (.M, .ok), (.M, .ok), (.M, .ok), (.W 101, .ok),
   (.W 101, .ok), (.W 101, .ok), (.M, .ok), (.W 101, .ok), (.W 101, .ok), (.M, .fail), (.W 101, .ok), (.M, .ok),
   (.M, .ok), (.W 101, .ok), (.W 101, .ok), (.W 101, .ok), (.W 101, .ok), (.W 101, .ok), (.W 101, .timeout),
   (.M, .ok), (.M, .ok), (.M, .fail), (.W 101, .ok), (.M, .ok), (.M, .ok), (.W 101, .ok), (.W 101, .ok),
   (.W 101, .ok), (.M, .ok), (.W 101, .ok), (.M, .ok), (.M, .ok), (.W 101, .ok), (.W 101, .ok), (.W 101, .ok),
   (.M, .ok), (.M, .ok), (.M, .ok), (.M, .ok), (.M, .ok), (.F, .ok), (.M, .ok), (.M, .ok), (.M, .ok), (.U 0, .ok),
   (.U 0, .ok)]

example : cfgDyn.dynPool = true ∧ cfgDyn.oneCreate = true := by decide
example : schedDyn.all (fun av => av.2 != .crash) = true := by decide
/-- three time-out firings, two workers started (the first timed out and was replaced); the run ends quiescent and —
    as the theorem says — good: both futures resolved, the script finished -/
example : (run (init cfgDyn) schedDyn).map (fun s => ((enabledNC s).isEmpty, good s, s.futs, s.allPids,
      (schedDyn.filter fun av => av.2 == Variant.timeout).length)) =
    some (true, true, [.value, .excWorker], [100, 101], 3) := by decide +kernel

end LokyModel.Exec
