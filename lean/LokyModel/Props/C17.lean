import LokyModel.CpuCount
/-!
# C17 — cpu_count is the minimum of all applicable limits and at least 1

Property theorems only.  Everything is stated over the model `LokyModel.CpuCount`
(all OS counts incl. `None`/0, all affinity sizes, every cgroup layout, every override incl.
0 / negative / huge, every probe outcome and cache state).
-/
namespace LokyModel.CpuCount

/-- the effective override: the environment value, or the OS count when unset -/
def envCount (c : Cfg) : Option Int :=
  match c.env with
  | .bad => none
  | .absent => some (osCount c)
  | .int e => some e

/-- `ceilDiv q p` is *the* ceiling of the rational `q / p`: the least integer `n` with `q ≤ n * p`. -/
theorem ceilDiv_is_ceiling (q p : Int) (hp : 0 < p) :
    q ≤ ceilDiv q p * p ∧ ∀ n : Int, q ≤ n * p → ceilDiv q p ≤ n := by
  unfold ceilDiv
  have h1 := Int.emod_add_mul_ediv (q + p - 1) p
  have h2 := Int.emod_nonneg (q + p - 1) (Int.ne_of_gt hp)
  have h3 := Int.emod_lt_of_pos (q + p - 1) hp
  constructor
  · have : p * ((q + p - 1) / p) = (q + p - 1) / p * p := Int.mul_comm _ _
    omega
  · intro n hn
    -- (q+p-1)/p ≤ n  ⇐  q+p-1 < (n+1)*p
    apply Int.le_of_lt_add_one
    apply (Int.ediv_lt_iff_lt_mul hp).2
    have : (n + 1) * p = n * p + p := by rw [Int.add_mul, Int.one_mul]
    omega

/-- the cgroup term is the OS count unless a positive quota *and* period are set, in which
    case it is ⌈quota / period⌉ — the same for the v1 and the v2 file layout -/
theorem cgroup_term (os : Int) (cg : Cgroup) :
    cgroupCount os cg =
      match cg with
      | .v2 (.val q) p | .v1 (.val q) p => if 0 < q ∧ 0 < p then ceilDiv q p else os
      | _ => os := by
  cases cg with
  | v2 q p => cases q <;> simp [cgroupCount, quotaCount]
  | v1 q p => cases q <;> simp [cgroupCount, quotaCount]
  | absent => rfl

/-- Main statement: the logical count is `max 1 (min OS (min affinity (min cgroup override)))`. -/
theorem cpu_count_eq (c : Cfg) (cache : Cache) (e : Int) (hphys : c.phys = false)
    (he : envCount c = some e) :
    cpuCount c cache =
      (.value (max 1 (min (osCount c) (min (affinityCount (osCount c) c.aff)
                (min (cgroupCount (osCount c) c.cg) e)))) false, cache) := by
  unfold envCount at he
  unfold cpuCount userCount
  cases henv : c.env with
  | bad => simp [henv] at he
  | absent =>
    simp [henv] at he
    simp only [hphys, Bool.not_false, if_true]
    subst he
    congr 2
    omega
  | int e' =>
    simp [henv] at he
    simp only [hphys, Bool.not_false, if_true]
    subst he
    congr 2
    omega

/-- a malformed override raises `ValueError` and leaves the cache alone -/
theorem bad_env_raises (c : Cfg) (cache : Cache) (h : c.env = .bad) :
    cpuCount c cache = (.valueError, cache) := by
  simp [cpuCount, userCount, h]

/-- `cpu_count() ≥ 1` whenever the physical-core probe (if consulted) reports ≥ 1 cores or fails;
    a cached value is ≥ 1 because only such values are ever stored (`cache_wf`). -/
def Cache.wf : Cache → Prop
  | .found n => 1 ≤ n
  | _ => True

theorem cache_wf_preserved (c : Cfg) (cache : Cache) (h : cache.wf) : (cpuCount c cache).2.wf := by
  unfold cpuCount
  cases hu : userCount c with
  | none => simpa using h
  | some u =>
    simp only []
    split
    · exact h
    · split
      · exact h
      · unfold countPhysical
        cases cache with
        | found n => simpa using h
        | notFound => simp [Cache.wf]
        | empty =>
          cases c.probe with
          | raises => simp [Cache.wf]
          | ok n =>
            by_cases hn : n < 1
            · simp [hn, Cache.wf]
            · simp [hn, Cache.wf]; omega

theorem ge_one (c : Cfg) (cache : Cache) (h : cache.wf) (v : Int) (w : Bool)
    (hv : (cpuCount c cache).1 = .value v w) : 1 ≤ v := by
  unfold cpuCount at hv
  cases hu : userCount c with
  | none => simp [hu] at hv
  | some u =>
    simp only [hu] at hv
    split at hv
    · injection hv with h1 _; omega
    · split at hv
      · injection hv with h1 _; omega
      · unfold countPhysical at hv
        cases cache with
        | found n => simp at hv; simp [Cache.wf] at h; omega
        | notFound => simp at hv; omega
        | empty =>
          cases hp : c.probe with
          | raises => simp [hp] at hv; omega
          | ok n =>
            by_cases hn : n < 1
            · simp [hp, hn] at hv; omega
            · simp [hp, hn] at hv; omega

/-- `only_physical_cores=True`, a user-imposed limit below the OS count: same value as the
    logical count, probe not consulted, cache untouched -/
theorem physical_user_limited (c : Cfg) (cache : Cache) (u : Int)
    (hu : userCount c = some u) (hlt : u < osCount c) :
    cpuCount { c with phys := true } cache = cpuCount { c with phys := false } cache := by
  have h1 : userCount { c with phys := true } = some u := by simpa [userCount, osCount] using hu
  have h2 : userCount { c with phys := false } = some u := by simpa [userCount, osCount] using hu
  have h3 : osCount { c with phys := true } = osCount c := rfl
  have h4 : osCount { c with phys := false } = osCount c := rfl
  simp only [cpuCount, h1, h2, h3, h4, hlt, Bool.not_true, Bool.not_false, if_true]
  simp
  omega

/-- `only_physical_cores=True`, no user limit below the OS count: the detected number of
    physical cores (fresh or cached); on failure the logical value -/
theorem physical_detected (c : Cfg) (cache : Cache) (u : Int) (hphys : c.phys = true)
    (hu : userCount c = some u) (hge : ¬ u < osCount c) :
    cpuCount c cache =
      match countPhysical cache c.probe with
      | (some n, _, cache') => (.value n false, cache')
      | (none, exc, cache') => (.value (max (min (osCount c) u) 1) exc, cache') := by
  simp only [cpuCount, hu, hphys, hge, Bool.not_true, if_false]
  rfl

/-- detection is attempted at most once: afterwards the cache is never empty … -/
theorem probe_fills_cache (cache : Cache) (p : Probe) : (countPhysical cache p).2.2 ≠ .empty := by
  unfold countPhysical
  cases cache <;> simp
  cases p <;> simp
  split <;> simp

/-- … and a non-empty cache never produces a warning -/
theorem no_warning_when_cached (cache : Cache) (p : Probe) (h : cache ≠ .empty) :
    (countPhysical cache p).2.1 = false := by
  cases cache <;> simp_all [countPhysical]

/-- the warning flag of a call's result -/
def warnedOf : Result → Bool
  | .value _ w => w
  | .valueError => false

/-- with a non-empty cache a call neither changes the cache nor warns -/
theorem cpuCount_cached (c : Cfg) (cache : Cache) (h : cache ≠ .empty) :
    (cpuCount c cache).2 = cache ∧ warnedOf (cpuCount c cache).1 = false := by
  unfold cpuCount
  cases userCount c with
  | none => exact ⟨rfl, rfl⟩
  | some u =>
    simp only []
    by_cases hp : c.phys = true
    · by_cases hlt : u < osCount c
      · simp [hp, hlt, warnedOf]
      · simp only [hp, Bool.not_true, Bool.false_eq_true, if_false, if_neg hlt]
        cases cache <;> simp_all [countPhysical, warnedOf]
    · simp [hp, warnedOf]

/-- the cache only ever goes from empty to non-empty -/
theorem cache_monotone (c : Cfg) (cache : Cache) (h : cache ≠ .empty) :
    (cpuCount c cache).2 = cache := (cpuCount_cached c cache h).1

/-- run a sequence of calls, threading the cache; collect the warning flags -/
def runCalls : List Cfg → Cache → List Bool
  | [], _ => []
  | c :: cs, cache => warnedOf (cpuCount c cache).1 :: runCalls cs (cpuCount c cache).2

theorem no_warnings_once_cached (cs : List Cfg) (cache : Cache) (h : cache ≠ .empty) :
    ∀ w ∈ runCalls cs cache, w = false := by
  induction cs generalizing cache with
  | nil => simp [runCalls]
  | cons c cs ih =>
    intro w hw
    simp only [runCalls, List.mem_cons] at hw
    have hc := cpuCount_cached c cache h
    rcases hw with hw | hw
    · rw [hw]; exact hc.2
    · rw [hc.1] at hw; exact ih cache h w hw

/-- a warned call leaves a non-empty cache behind -/
theorem warned_fills_cache (c : Cfg) (cache : Cache)
    (h : warnedOf (cpuCount c cache).1 = true) : (cpuCount c cache).2 ≠ .empty := by
  intro he
  by_cases hc : cache = .empty
  · subst hc
    unfold cpuCount at h he
    cases hu : userCount c with
    | none => simp [hu, warnedOf] at h
    | some u =>
      simp only [hu] at h he
      by_cases hp : c.phys = true
      · by_cases hlt : u < osCount c
        · simp [hp, hlt, warnedOf] at h
        · cases hpr : c.probe with
          | raises => simp [hp, hlt, hpr, countPhysical] at he
          | ok n =>
            by_cases hn : n < 1
            · simp [hp, hlt, hpr, countPhysical, hn] at he
            · simp [hp, hlt, hpr, countPhysical, hn] at he
      · simp [hp, warnedOf] at h
  · have := cpuCount_cached c cache hc
    rw [this.2] at h; cases h

/-- At most one warning over any sequence of calls, whatever the configurations and probe
    outcomes ("with one warning"). -/
theorem at_most_one_warning (cs : List Cfg) (cache : Cache) :
    ((runCalls cs cache).filter (· = true)).length ≤ 1 := by
  induction cs generalizing cache with
  | nil => simp [runCalls]
  | cons c cs ih =>
    simp only [runCalls]
    cases hw : warnedOf (cpuCount c cache).1 with
    | false => simpa using ih _
    | true =>
      have hne := warned_fills_cache c cache hw
      have hall := no_warnings_once_cached cs _ hne
      have : (runCalls cs (cpuCount c cache).2).filter (· = true) = [] := by
        apply List.filter_eq_nil_iff.2
        intro w hw'; simp [hall w hw']
      rw [List.filter_cons, this]
      simp

/-! ### non-vacuity: the hypotheses above are met by concrete, non-trivial configurations -/

/-- 8 CPUs, affinity 6, cgroup v2 quota 250000/100000 (→ 3), override 4: value 3 -/
example : cpuCount ⟨some 8, some 6, .v2 (.val 250000) 100000, .int 4, false, .raises⟩ .empty
    = (.value 3 false, .empty) := by decide
/-- override 0 is clamped to 1 -/
example : cpuCount ⟨some 8, some 8, .absent, .int 0, false, .raises⟩ .empty
    = (.value 1 false, .empty) := by decide
/-- physical-core probe fails: logical value, warning, cache filled; second call silent -/
example : runCalls [⟨some 8, some 8, .absent, .absent, true, .raises⟩,
                    ⟨some 8, some 8, .absent, .absent, true, .raises⟩] .empty = [true, false] := by
  decide
example : (Cache.found 4).wf := by simp [Cache.wf]

end LokyModel.CpuCount
