import LokyModel.Props.C09
/-!
# C09 (fourth session) — whole-history statements about the singleton

Over every history `evs` of calls interleaved with breakages, explicit shutdowns and starts
(`runEvs`), from every state:

* `C09_current_is_last_returned`: the instance the module holds after the history is the one
  handed out by the last successful call of the history (or the initial one if no call succeeded);
* `C09_reuse_returns_last_handed_out`: a call that reuses returns exactly the id handed out by the
  previous successful call — a caller never obtains an instance older than the newest one;
* `C09_replaced_is_current`: a replacement shuts down exactly the instance that was current;
* `C09_replaced_never_returned_again`: an id that was replaced is never returned by a later call.
-/
namespace LokyModel.Reusable

/-- the id of the executor a call returns (`none`: the call raised) -/
def returnedId : Action → Option Nat
  | .valueError => none
  | .created i => some i
  | .replaced _ _ i => some i
  | .reused i _ _ => some i

def curId (s : St) : Option Nat := s.exec.map (·.id)

/-- one call: the module holds what the call returned; a failed call changes nothing -/
theorem call_curId (s : St) (a : Args) :
    match returnedId (getReusable s a).1 with
    | some i => curId (getReusable s a).2 = some i
    | none => (getReusable s a).2 = s := by
  unfold getReusable
  cases hw : wantedMax s a with
  | none => simp [returnedId]
  | some mw =>
    simp only []
    cases he : s.exec with
    | none => simp [fresh, returnedId, curId]
    | some e =>
      simp only []
      by_cases hc : (e.broken || e.shutdown || !allowed e a) = true
      · simp only [hc, if_true]; simp [fresh, returnedId, curId]
      · simp only [hc]; simp [returnedId, curId]

/-- a reuse returns the current id; a replacement names the current id as the one shut down -/
theorem call_names_current (s : St) (a : Args) :
    match (getReusable s a).1 with
    | .reused i _ _ => curId s = some i
    | .replaced o _ _ => curId s = some o
    | .created _ => curId s = none
    | .valueError => True := by
  unfold getReusable
  cases hw : wantedMax s a with
  | none => simp
  | some mw =>
    simp only []
    cases he : s.exec with
    | none => simp [curId, he]
    | some e =>
      simp only []
      by_cases hc : (e.broken || e.shutdown || !allowed e a) = true
      · simp only [hc, if_true]; simp [curId, he]
      · simp only [hc]; simp [curId, he]

/-- events that are not calls do not change which instance is current -/
theorem event_curId (s : St) (ev : Ev) (h : (stepEv s ev).1 = none) : curId (stepEv s ev).2 = curId s := by
  cases ev with
  | call a => simp [stepEv] at h
  | breakIt => simp only [stepEv, curId]; cases s.exec <;> rfl
  | shutIt => simp only [stepEv, curId]; cases s.exec <;> rfl
  | start ps => simp only [stepEv, curId]; cases s.exec <;> rfl

/-- the id current after one event, in terms of what it returned -/
theorem step_curId (s : St) (ev : Ev) :
    curId (stepEv s ev).2 =
      match (stepEv s ev).1.bind returnedId with
      | some i => some i
      | none => curId s := by
  cases hr : (stepEv s ev).1 with
  | none => simp [event_curId s ev hr]
  | some act =>
    cases ev with
    | call a =>
      simp only [stepEv] at hr ⊢
      have h := call_curId s a
      simp only [Option.some.injEq] at hr
      subst hr
      simp only [Option.bind_some]
      cases hi : returnedId (getReusable s a).1 with
      | none => simp only [hi] at h; simp [h]
      | some i => simp only [hi] at h; simp [h]
    | breakIt => simp [stepEv] at hr
    | shutIt => simp [stepEv] at hr
    | start ps => simp [stepEv] at hr

theorem runEvs_cons (s : St) (ev : Ev) (rest : List Ev) :
    runEvs s (ev :: rest) =
      ((match (stepEv s ev).1 with | some a => a :: (runEvs (stepEv s ev).2 rest).1
                                   | none => (runEvs (stepEv s ev).2 rest).1),
       (runEvs (stepEv s ev).2 rest).2) := by
  simp only [runEvs]
  rfl

/-- **The module always holds the instance handed out last.** -/
theorem C09_current_is_last_returned (evs : List Ev) (s : St) :
    curId (runEvs s evs).2 =
      match ((runEvs s evs).1.filterMap returnedId).getLast? with
      | some i => some i
      | none => curId s := by
  induction evs generalizing s with
  | nil => simp [runEvs]
  | cons ev rest ih =>
    rw [runEvs_cons]
    have ih' := ih (stepEv s ev).2
    have hs := step_curId s ev
    simp only []
    rw [ih']
    cases hr : (stepEv s ev).1 with
    | none =>
      simp only [hr, Option.bind_none] at hs ⊢
      rw [hs]
    | some act =>
      simp only [hr, Option.bind_some] at hs ⊢
      cases hi : returnedId act with
      | none =>
        simp only [hi] at hs
        simp only [List.filterMap_cons, hi]
        rw [hs]
      | some i =>
        simp only [hi] at hs
        simp only [List.filterMap_cons, hi, hs]
        cases hl : (List.filterMap returnedId (runEvs (stepEv s ev).2 rest).1).getLast? with
        | none =>
          have : List.filterMap returnedId (runEvs (stepEv s ev).2 rest).1 = [] := by
            simpa using hl
          simp [this]
        | some j =>
          have hne : List.filterMap returnedId (runEvs (stepEv s ev).2 rest).1 ≠ [] := by
            intro h; rw [h] at hl; simp at hl
          rw [List.getLast?_cons_of_ne_nil hne, hl]

/-- **A reuse returns the id handed out by the previous successful call; a replacement shuts down
    exactly that one.**  Stated on a history split at the call in question. -/
theorem C09_reuse_returns_last_handed_out (s : St) (before : List Ev) (a : Args) :
    let s1 := (runEvs s before).2
    let last := match ((runEvs s before).1.filterMap returnedId).getLast? with
                | some i => some i | none => curId s
    match (getReusable s1 a).1 with
    | .reused i _ _ => last = some i
    | .replaced o _ _ => last = some o
    | .created _ => last = none
    | .valueError => True := by
  intro s1 last
  have h := call_names_current s1 a
  have hc : curId s1 = last := C09_current_is_last_returned before s
  rw [hc] at h
  exact h

theorem C09_replaced_is_current (s : St) (a : Args) (o n : Nat) (k : Bool)
    (h : (getReusable s a).1 = .replaced o k n) : curId s = some o := by
  have := call_names_current s a
  rw [h] at this
  exact this

/-- ids: the current instance, if any, was issued before `nextId` -/
def IdWf (s : St) : Prop := ∀ i, curId s = some i → i < s.nextId

theorem idWf_step (s : St) (ev : Ev) (h : IdWf s) : IdWf (stepEv s ev).2 := by
  cases ev with
  | call a =>
    simp only [stepEv]
    unfold getReusable
    cases hw : wantedMax s a with
    | none => simpa using h
    | some mw =>
      simp only []
      cases he : s.exec with
      | none => intro i; simp [fresh, curId]; omega
      | some e =>
        simp only []
        split
        · intro i; simp [fresh, curId]; omega
        · intro i hi
          have := h i (by simpa [curId, he] using hi)
          simpa using this
  | breakIt => intro i hi; rw [event_curId s .breakIt rfl] at hi; exact h i hi
  | shutIt => intro i hi; rw [event_curId s .shutIt rfl] at hi; exact h i hi
  | start ps => intro i hi; rw [event_curId s (.start ps) rfl] at hi; exact h i hi

/-- every id returned along a history from a state with `nextId = n` whose current instance is
    not `o` and `o < n`: `o` is never returned (by a reuse: only the current one is; by a fresh
    instance: ids ≥ nextId) -/
theorem never_returned (evs : List Ev) (s : St) (o : Nat) (hwf : IdWf s) (ho : o < s.nextId)
    (hcur : curId s ≠ some o) : ∀ act ∈ (runEvs s evs).1, returnedId act ≠ some o := by
  induction evs generalizing s with
  | nil => simp [runEvs]
  | cons ev rest ih =>
    rw [runEvs_cons]
    have hmono := nextId_mono s ev
    have hwf' := idWf_step s ev hwf
    -- the id current after this event is not `o`
    have hstep := step_curId s ev
    have hnames : ∀ act, (stepEv s ev).1 = some act → returnedId act ≠ some o := by
      intro act hact
      cases ev with
      | call a =>
        simp only [stepEv, Option.some.injEq] at hact
        have hn := call_names_current s a
        have hc := call_curId s a
        rw [hact] at hn hc
        cases act with
        | valueError => simp [returnedId]
        | reused i _ _ =>
          simp only [returnedId] at hn ⊢
          intro h; injection h with h; subst h; exact hcur hn
        | created i =>
          simp only [returnedId] at hc ⊢
          intro h; injection h with h; subst h
          -- the fresh id is s.nextId
          have : i = s.nextId := by
            unfold getReusable at hact
            cases hw : wantedMax s a with
            | none => simp [hw] at hact
            | some mw =>
              simp only [hw] at hact
              cases he : s.exec with
              | none => simp [he, fresh] at hact; exact hact.symm
              | some e => simp only [he] at hact; split at hact <;> simp [fresh] at hact
          omega
        | replaced o' k i =>
          simp only [returnedId] at hc ⊢
          intro h; injection h with h; subst h
          have : i = s.nextId := by
            unfold getReusable at hact
            cases hw : wantedMax s a with
            | none => simp [hw] at hact
            | some mw =>
              simp only [hw] at hact
              cases he : s.exec with
              | none => simp [he, fresh] at hact
              | some e =>
                simp only [he] at hact
                split at hact
                · simp [fresh] at hact; exact hact.2.2.symm
                · simp at hact
          omega
      | breakIt => simp [stepEv] at hact
      | shutIt => simp [stepEv] at hact
      | start ps => simp [stepEv] at hact
    have hcur' : curId (stepEv s ev).2 ≠ some o := by
      rw [hstep]
      cases hr : (stepEv s ev).1 with
      | none => simpa using hcur
      | some act =>
        simp only [Option.bind_some]
        cases hi : returnedId act with
        | none => simpa using hcur
        | some i =>
          have := hnames act hr
          rw [hi] at this
          simpa using this
    have ih' := ih (stepEv s ev).2 hwf' (by omega) hcur'
    intro act hact
    cases hr : (stepEv s ev).1 with
    | none => simp only [hr] at hact; exact ih' act hact
    | some act0 =>
      simp only [hr, List.mem_cons] at hact
      rcases hact with rfl | hact
      · exact hnames _ hr
      · exact ih' act hact

/-- **A replaced instance never comes back**: once a call has shut instance `o` down and built a
    new one, no later call of any history returns `o`. -/
theorem C09_replaced_never_returned_again (s : St) (hwf : IdWf s) (a : Args) (o n : Nat) (k : Bool)
    (h : (getReusable s a).1 = .replaced o k n) (later : List Ev) :
    ∀ act ∈ (runEvs (getReusable s a).2 later).1, returnedId act ≠ some o := by
  have hcur : curId s = some o := C09_replaced_is_current s a o n k h
  have ho : o < s.nextId := hwf o hcur
  have hwf' : IdWf (getReusable s a).2 := idWf_step s (.call a) hwf
  have hmono : s.nextId ≤ (getReusable s a).2.nextId := nextId_mono s (.call a)
  have hc := call_curId s a
  rw [h] at hc
  simp only [returnedId] at hc
  -- the new id is s.nextId > o
  have hn : n = s.nextId := by
    unfold getReusable at h
    cases hw : wantedMax s a with
    | none => simp [hw] at h
    | some mw =>
      simp only [hw] at h
      cases he : s.exec with
      | none => simp [he, fresh] at h
      | some e =>
        simp only [he] at h
        split at h
        · simp [fresh] at h; exact h.2.2.symm
        · simp at h
  apply never_returned later _ o hwf' (by omega)
  rw [hc]
  intro hh; injection hh with hh; omega

/-! ## non-vacuity -/

example : IdWf ({} : St) := by intro i hi; simp [curId] at hi

example :
    let r := runEvs {} [.call ⟨some 2, 7, .auto, false⟩, .call ⟨some 3, 7, .auto, false⟩, .breakIt,
                        .call ⟨some 3, 7, .auto, false⟩, .call ⟨some 0, 7, .auto, false⟩,
                        .call ⟨none, 7, .yes, false⟩]
    r.1 = [.created 0, .reused 0 2 3, .replaced 0 false 1, .valueError, .reused 1 3 3] ∧ curId r.2 = some 1 := by
  decide

end LokyModel.Reusable
