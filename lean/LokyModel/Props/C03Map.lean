import LokyModel.Lemmas.Chunks
/-!
# C03 (part "map") — `executor.map(fn, *iterables, chunksize=c)` == builtin `map`

Property theorems only; helper lemmas and the reference `builtinMap` (Python's builtin `map`
consumed until exhaustion or the first exception) live in `LokyModel/Lemmas/Chunks.lean`.

All statements are over the model `LokyModel.Chunks`: every chunk size, every number of
iterables, unbounded lists, arbitrary row / element / result / exception types, arbitrary
(possibly raising) functions.
-/
namespace LokyModel.Chunks

/-! ## `zip(*iterables)`: what `zipAll` is -/

/-- row `i` of `zip(*iterables)` exists iff every iterable has an item `i`, and then it is the
    list of those items, in the order of the iterables (truncation at the shortest) -/
theorem zipAll_row (ls : List (List α)) (hne : ls ≠ []) (i : Nat) :
    (zipAll ls)[i]? = ls.mapM (fun l => l[i]?) := by
  induction ls with
  | nil => exact absurd rfl hne
  | cons l rest ih =>
    cases rest with
    | nil =>
      simp only [zipAll, List.getElem?_map, List.mapM_cons, List.mapM_nil]
      cases l[i]? <;> rfl
    | cons l' rest =>
      have ih := ih (by simp)
      simp only [zipAll, List.getElem?_zipWith, List.mapM_cons] at ih ⊢
      rw [ih]
      cases l[i]? <;> cases l'[i]? <;> simp
      all_goals (cases List.mapM (fun l => l[i]?) rest <;> rfl)

/-- `zip` stops at the shortest iterable: its length is the minimum of the lengths -/
theorem zipAll_length (ls : List (List α)) (hne : ls ≠ []) (n : Nat) :
    n ≤ (zipAll ls).length ↔ ∀ l ∈ ls, n ≤ l.length := by
  induction ls with
  | nil => exact absurd rfl hne
  | cons l rest ih =>
    cases rest with
    | nil => simp [zipAll]
    | cons l' rest =>
      have ih := ih (by simp)
      simp only [zipAll, List.length_zipWith] at ih ⊢
      rw [Nat.le_min, ih]
      simp

/-! ## `_get_chunks` -/

/-- no empty chunk is ever produced (any chunk size, including 0) -/
theorem chunks_nonempty (c : Nat) (rows : List ρ) : ∀ ch ∈ getChunks c rows, ch ≠ [] := by
  cases c with
  | zero => simp [getChunks_zero]
  | succ c =>
    induction rows using chunks_induction (c + 1) (by omega) with
    | nil => simp [getChunks_nil]
    | step rows hr ih =>
      intro ch hch
      rw [getChunks_step _ _ (by omega) hr] at hch
      rcases List.mem_cons.mp hch with h | h
      · subst h
        cases rows with
        | nil => exact absurd rfl hr
        | cons r rs => simp
      · exact ih ch h

/-- the concatenation of the chunks is the zipped input: nothing lost, duplicated or reordered -/
theorem chunks_concat (c : Nat) (hc : 1 ≤ c) (rows : List ρ) :
    (getChunks c rows).flatten = rows := by
  induction rows using chunks_induction c hc with
  | nil => simp [getChunks_nil]
  | step rows hr ih =>
    rw [getChunks_step _ _ hc hr, List.flatten_cons, ih, List.take_append_drop]

/-- the `i`-th chunk is the slice `rows[i*c : (i+1)*c]`, and there is one exactly while
    `i*c < len(rows)` -/
theorem chunk_is_slice (c : Nat) (hc : 1 ≤ c) (rows : List ρ) (i : Nat) :
    (getChunks c rows)[i]? =
      if i * c < rows.length then some ((rows.drop (i * c)).take c) else none := by
  induction i generalizing rows with
  | zero =>
    by_cases hr : rows = []
    · subst hr; simp [getChunks_nil]
    · have : 0 < rows.length := List.length_pos_iff.mpr hr
      rw [getChunks_step _ _ hc hr]; simp [this]
  | succ i ih =>
    by_cases hr : rows = []
    · subst hr; simp [getChunks_nil]
    · rw [getChunks_step _ _ hc hr, List.getElem?_cons_succ, ih]
      have h1 : (i + 1) * c = c + i * c := by rw [Nat.succ_mul, Nat.add_comm]
      simp only [List.length_drop, List.drop_drop, h1]
      by_cases h : i * c < rows.length - c
      · have : c + i * c < rows.length := by omega
        simp [h, this]
      · have : ¬ c + i * c < rows.length := by omega
        simp [h, this]

/-- the number of chunks is ⌈len / c⌉ -/
theorem chunk_count (c : Nat) (hc : 1 ≤ c) (rows : List ρ) :
    (getChunks c rows).length = (rows.length + c - 1) / c := by
  induction rows using chunks_induction c hc with
  | nil =>
    rw [getChunks_nil]
    have : c - 1 < c := by omega
    simp [Nat.div_eq_of_lt this]
  | step rows hr ih =>
    have hpos : 0 < rows.length := List.length_pos_iff.mpr hr
    rw [getChunks_step _ _ hc hr, List.length_cons, ih, List.length_drop]
    by_cases h : c ≤ rows.length
    · have : rows.length + c - 1 = c + (rows.length - c + c - 1) := by omega
      rw [this, Nat.add_div_left _ (by omega)]
    · have h1 : rows.length - c + c - 1 < c := by omega
      rw [Nat.div_eq_of_lt h1]
      have h2 : rows.length + c - 1 = c + (rows.length - 1) := by omega
      rw [h2, Nat.add_div_left _ (by omega), Nat.div_eq_of_lt (by omega)]

/-- every chunk has between 1 and `c` rows, and every chunk except the last has exactly `c` -/
theorem chunk_sizes (c : Nat) (hc : 1 ≤ c) (rows : List ρ) (i : Nat)
    (hi : i < (getChunks c rows).length) :
    1 ≤ (getChunks c rows)[i].length ∧ (getChunks c rows)[i].length ≤ c ∧
      (i + 1 < (getChunks c rows).length → (getChunks c rows)[i].length = c) := by
  have hs := chunk_is_slice c hc rows i
  have hs' := chunk_is_slice c hc rows (i + 1)
  rw [List.getElem?_eq_getElem hi] at hs
  by_cases h : i * c < rows.length
  · simp only [h, if_true, Option.some.injEq] at hs
    rw [hs]
    simp only [List.length_take, List.length_drop]
    refine ⟨by omega, by omega, ?_⟩
    intro hlt
    rw [List.getElem?_eq_getElem hlt] at hs'
    have h1 : (i + 1) * c = c + i * c := by rw [Nat.succ_mul, Nat.add_comm]
    by_cases h' : (i + 1) * c < rows.length
    · omega
    · simp [h'] at hs'
  · simp [h] at hs

end LokyModel.Chunks
