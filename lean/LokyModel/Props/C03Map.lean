import LokyModel.Lemmas.Chunks
/-!
# C03 (part "map") — `executor.map(fn, *iterables, chunksize=c)` == builtin `map`

Property theorems only; helper lemmas and the reference `builtinMap` (Python's builtin `map`
consumed until exhaustion or the first exception) live in `LokyModel/Lemmas/Chunks.lean`.

All statements are over the model `LokyModel.Chunks`: every chunk size, every number of
iterables, unbounded lists, arbitrary row / element / result / exception types, arbitrary
(possibly raising) functions.
-/
namespace LokyModel.Chunks

/-! ## `zip(*iterables)`: what `zipAll` is -/

/-- row `i` of `zip(*iterables)` exists iff every iterable has an item `i`, and then it is the
    list of those items, in the order of the iterables (truncation at the shortest) -/
theorem zipAll_row (ls : List (List α)) (hne : ls ≠ []) (i : Nat) :
    (zipAll ls)[i]? = ls.mapM (fun l => l[i]?) := by
  induction ls with
  | nil => exact absurd rfl hne
  | cons l rest ih =>
    cases rest with
    | nil =>
      simp only [zipAll, List.getElem?_map, List.mapM_cons, List.mapM_nil]
      cases l[i]? <;> rfl
    | cons l' rest =>
      have ih := ih (by simp)
      simp only [zipAll, List.getElem?_zipWith, List.mapM_cons] at ih ⊢
      rw [ih]
      cases l[i]? <;> cases l'[i]? <;> simp
      all_goals (cases List.mapM (fun l => l[i]?) rest <;> rfl)

/-- `zip` stops at the shortest iterable: its length is the minimum of the lengths -/
theorem zipAll_length (ls : List (List α)) (hne : ls ≠ []) (n : Nat) :
    n ≤ (zipAll ls).length ↔ ∀ l ∈ ls, n ≤ l.length := by
  induction ls with
  | nil => exact absurd rfl hne
  | cons l rest ih =>
    cases rest with
    | nil => simp [zipAll]
    | cons l' rest =>
      have ih := ih (by simp)
      simp only [zipAll, List.length_zipWith] at ih ⊢
      rw [Nat.le_min, ih]
      simp

/-! ## `_get_chunks` -/

/-- no empty chunk is ever produced (any chunk size, including 0) -/
theorem chunks_nonempty (c : Nat) (rows : List ρ) : ∀ ch ∈ getChunks c rows, ch ≠ [] := by
  cases c with
  | zero => simp [getChunks_zero]
  | succ c =>
    induction rows using chunks_induction (c + 1) (by omega) with
    | nil => simp [getChunks_nil]
    | step rows hr ih =>
      intro ch hch
      rw [getChunks_step _ _ (by omega) hr] at hch
      rcases List.mem_cons.mp hch with h | h
      · subst h
        cases rows with
        | nil => exact absurd rfl hr
        | cons r rs => simp
      · exact ih ch h

/-- the concatenation of the chunks is the zipped input: nothing lost, duplicated or reordered -/
theorem chunks_concat (c : Nat) (hc : 1 ≤ c) (rows : List ρ) :
    (getChunks c rows).flatten = rows := by
  induction rows using chunks_induction c hc with
  | nil => simp [getChunks_nil]
  | step rows hr ih =>
    rw [getChunks_step _ _ hc hr, List.flatten_cons, ih, List.take_append_drop]

/-- the `i`-th chunk is the slice `rows[i*c : (i+1)*c]`, and there is one exactly while
    `i*c < len(rows)` -/
theorem chunk_is_slice (c : Nat) (hc : 1 ≤ c) (rows : List ρ) (i : Nat) :
    (getChunks c rows)[i]? =
      if i * c < rows.length then some ((rows.drop (i * c)).take c) else none := by
  induction i generalizing rows with
  | zero =>
    by_cases hr : rows = []
    · subst hr; simp [getChunks_nil]
    · have : 0 < rows.length := List.length_pos_iff.mpr hr
      rw [getChunks_step _ _ hc hr]; simp [this]
  | succ i ih =>
    by_cases hr : rows = []
    · subst hr; simp [getChunks_nil]
    · rw [getChunks_step _ _ hc hr, List.getElem?_cons_succ, ih]
      have h1 : (i + 1) * c = c + i * c := by rw [Nat.succ_mul, Nat.add_comm]
      simp only [List.length_drop, List.drop_drop, h1]
      by_cases h : i * c < rows.length - c
      · have : c + i * c < rows.length := by omega
        simp [h, this]
      · have : ¬ c + i * c < rows.length := by omega
        simp [h, this]

/-- the number of chunks is ⌈len / c⌉ -/
theorem chunk_count (c : Nat) (hc : 1 ≤ c) (rows : List ρ) :
    (getChunks c rows).length = (rows.length + c - 1) / c := by
  induction rows using chunks_induction c hc with
  | nil =>
    rw [getChunks_nil]
    have : c - 1 < c := by omega
    simp [Nat.div_eq_of_lt this]
  | step rows hr ih =>
    have hpos : 0 < rows.length := List.length_pos_iff.mpr hr
    rw [getChunks_step _ _ hc hr, List.length_cons, ih, List.length_drop]
    by_cases h : c ≤ rows.length
    · have : rows.length + c - 1 = c + (rows.length - c + c - 1) := by omega
      rw [this, Nat.add_div_left _ (by omega)]
    · have h1 : rows.length - c + c - 1 < c := by omega
      rw [Nat.div_eq_of_lt h1]
      have h2 : rows.length + c - 1 = c + (rows.length - 1) := by omega
      rw [h2, Nat.add_div_left _ (by omega), Nat.div_eq_of_lt (by omega)]

/-- every chunk has between 1 and `c` rows, and every chunk except the last has exactly `c` -/
theorem chunk_sizes (c : Nat) (hc : 1 ≤ c) (rows : List ρ) (i : Nat)
    (hi : i < (getChunks c rows).length) :
    1 ≤ (getChunks c rows)[i].length ∧ (getChunks c rows)[i].length ≤ c ∧
      (i + 1 < (getChunks c rows).length → (getChunks c rows)[i].length = c) := by
  have hs := chunk_is_slice c hc rows i
  have hs' := chunk_is_slice c hc rows (i + 1)
  rw [List.getElem?_eq_getElem hi] at hs
  by_cases h : i * c < rows.length
  · simp only [h, if_true, Option.some.injEq] at hs
    rw [hs]
    simp only [List.length_take, List.length_drop]
    refine ⟨by omega, by omega, ?_⟩
    intro hlt
    rw [List.getElem?_eq_getElem hlt] at hs'
    have h1 : (i + 1) * c = c + i * c := by rw [Nat.succ_mul, Nat.add_comm]
    by_cases h' : (i + 1) * c < rows.length
    · omega
    · simp [h'] at hs'
  · simp [h] at hs

/-! ## `_chain_from_iterable_of_lists` -/

/-- reversing each list and popping from its end yields the items in their original order, list
    after list (empty lists contribute nothing) -/
theorem chain_preserves_order (ls : List (List β)) :
    chain (ls.map fun l => (.ok l : Except ε (List β))) = (ls.flatten, none) := by
  induction ls with
  | nil => rfl
  | cons l ls ih => simp [chain, drainElement_eq, ih]

/-- an exception delivered by the result iterator surfaces after exactly the items of the lists
    before it; nothing after it is looked at -/
theorem chain_stops_at_error (ls : List (List β)) (e : ε) (rest : List (Except ε (List β))) :
    chain ((ls.map fun l => (.ok l : Except ε (List β))) ++ .error e :: rest) = (ls.flatten, some e) := by
  induction ls with
  | nil => rfl
  | cons l ls ih => simp [chain, drainElement_eq, ih]

/-! ## `map` -/

/-- Main statement, raising functions included.  For every chunk size `c ≥ 1`, every function and
    every input, `executor.map` yields what the builtin `map` yields, in order; if the builtin
    `map` raises after `k` items then `executor.map` raises **the same exception**, after the
    first `⌊k/c⌋·c` of those items (the complete chunks before the failing one). -/
theorem map_rows_eq_builtin (c : Int) (hc : 1 ≤ c) (fn : ρ → Except ε β) (rows : List ρ) :
    mapRows c fn rows =
      match builtinMap fn rows with
      | (vs, none) => .result vs none
      | (vs, some e) => .result (vs.take (vs.length / c.toNat * c.toNat)) (some e) := by
  have hc' : 1 ≤ c.toNat := by omega
  have key : chain ((getChunks c.toNat rows).map (processChunk fn)) = expected c.toNat (builtinMap fn rows) := by
    induction rows using chunks_induction c.toNat hc' with
    | nil => simp [getChunks_nil, chain, expected, builtinMap]
    | step rows hr ih =>
      rw [getChunks_step _ _ hc' hr]
      have := chain_step c.toNat hc' fn (rows.take c.toNat) (rows.drop c.toNat)
        (by simp [List.length_take]; omega)
        (by
          intro h
          have : 0 < (rows.drop c.toNat).length := List.length_pos_iff.mpr h
          simp only [List.length_drop] at this
          simp only [List.length_take]; omega)
        _ ih
      rwa [List.take_append_drop] at this
  have hnot : ¬ c < 1 := by omega
  simp only [mapRows, hnot, if_false, key, expected]
  rcases h : builtinMap fn rows with ⟨vs, _ | e⟩ <;> simp

/-- **map == builtin map**: for every `c ≥ 1`, every (non-raising) `f` and every list of
    iterables, chaining the processed chunks of the zipped input equals mapping `f` over the
    zipped input, in order. -/
theorem map_eq (c : Int) (hc : 1 ≤ c) (f : List α → β) (ls : List (List α)) :
    map (ε := ε) c (fun r => .ok (f r)) ls = .result ((zipAll ls).map f) none := by
  rw [map, map_rows_eq_builtin c hc, builtinMap_total]

/-- the same, spelled out on the pipeline itself -/
theorem map_eq_pipeline (c : Nat) (hc : 1 ≤ c) (f : ρ → β) (rows : List ρ) :
    chain ((getChunks c rows).map (processChunk fun r => (.ok (f r) : Except ε β))) = (rows.map f, none) := by
  have h := map_rows_eq_builtin (ε := ε) (c : Int) (by omega) (fun r => .ok (f r)) rows
  rw [builtinMap_total] at h
  have hnot : ¬ (c : Int) < 1 := by omega
  simp only [mapRows, hnot, if_false, Int.toNat_natCast] at h
  injection h with h1 h2
  exact Prod.ext h1 h2

/-- if the builtin `map` completes, so does `executor.map`, with the same items -/
theorem map_eq_of_no_raise (c : Int) (hc : 1 ≤ c) (fn : ρ → Except ε β) (rows : List ρ)
    (h : (builtinMap fn rows).2 = none) :
    mapRows c fn rows = .result (builtinMap fn rows).1 none := by
  rw [map_rows_eq_builtin c hc]
  rcases h' : builtinMap fn rows with ⟨vs, _ | e⟩
  · rfl
  · rw [h'] at h; simp at h

/-- one, two and three iterables of *different* element types -/
theorem map_eq_unary (c : Int) (hc : 1 ≤ c) (f : α → β) (l : List α) :
    mapRows (ε := ε) c (fun x => .ok (f x)) l = .result (l.map f) none := by
  rw [map_rows_eq_builtin c hc, builtinMap_total]

theorem map_eq_binary (c : Int) (hc : 1 ≤ c) (f : α → β → γ) (l₁ : List α) (l₂ : List β) :
    mapRows (ε := ε) c (fun p => .ok (f p.1 p.2)) (l₁.zip l₂) = .result (List.zipWith f l₁ l₂) none := by
  rw [map_rows_eq_builtin c hc, builtinMap_total]
  simp only [List.zip, List.map_zipWith]

theorem map_eq_ternary (c : Int) (hc : 1 ≤ c) (f : α → β → γ → δ)
    (l₁ : List α) (l₂ : List β) (l₃ : List γ) :
    mapRows (ε := ε) c (fun p => .ok (f p.1 p.2.1 p.2.2)) (l₁.zip (l₂.zip l₃)) =
      .result (builtinMap3 f l₁ l₂ l₃) none := by
  have hl : (l₁.zip (l₂.zip l₃)).map (fun p => f p.1 p.2.1 p.2.2) = builtinMap3 f l₁ l₂ l₃ := by
    induction l₁ generalizing l₂ l₃ with
    | nil => simp [builtinMap3]
    | cons x xs ih =>
      cases l₂ with
      | nil => simp [builtinMap3]
      | cons y ys =>
        cases l₃ with
        | nil => simp [builtinMap3]
        | cons z zs => simp [builtinMap3, ih]
  rw [map_rows_eq_builtin c hc, builtinMap_total, hl]

/-- `chunksize < 1` is rejected with `ValueError` by the call itself, whatever the input … -/
theorem chunksize_lt_one_rejected (c : Int) (hc : c < 1) (fn : ρ → Except ε β) (rows : List ρ) :
    mapRows c fn rows = .valueError := by
  simp [mapRows, hc]

/-- … and nothing else is -/
theorem valueError_iff (c : Int) (fn : ρ → Except ε β) (rows : List ρ) :
    mapRows c fn rows = .valueError ↔ c < 1 := by
  by_cases hc : c < 1 <;> simp [mapRows, hc]

/-! ## non-vacuity: the hypotheses are satisfiable and the statements say something on
    concrete inputs (evaluated through the definitions, not through the theorems) -/

example : ∃ c : Int, 1 ≤ c := ⟨3, by decide⟩
example : ∃ ls : List (List Nat), ls ≠ [] := ⟨[[1]], by decide⟩
example : zipAll [[1, 2, 3], [4, 5], [6, 7, 8]] = [[1, 4, 6], [2, 5, 7]] := by decide
example : zipAll [[1, 2, 3], [], [6, 7, 8]] = [] := by decide
example : getChunks 2 [1, 2, 3, 4, 5] = [[1, 2], [3, 4], [5]] := by simp [getChunks]
example : getChunks 5 [1, 2, 3, 4, 5] = [[1, 2, 3, 4, 5]] := by simp [getChunks]
example : getChunks 7 [1, 2, 3] = [[1, 2, 3]] := by simp [getChunks]
example : ∃ i, i < (getChunks 2 [1, 2, 3, 4, 5]).length ∧ i + 1 < (getChunks 2 [1, 2, 3, 4, 5]).length :=
  ⟨0, by simp [getChunks]⟩
example : drainElement [1, 2, 3] = [1, 2, 3] := by simp [drainElement, popAll]
/-- a raising function: items 1, 2 (the complete first chunk), then the exception of item 4;
    the builtin `map` would have yielded 10, 20, 30 before raising -/
example :
    mapRows (ε := String) 2 (fun x : Nat => if x = 4 then .error "boom" else .ok (x * 10)) [1, 2, 3, 4, 5]
      = .result [10, 20] (some "boom") := by
  simp [mapRows, getChunks, processChunk, chain, drainElement, popAll]
example :
    builtinMap (ε := String) (fun x : Nat => if x = 4 then .error "boom" else .ok (x * 10)) [1, 2, 3, 4, 5]
      = ([10, 20, 30], some "boom") := by
  simp [builtinMap]
example : ∃ (fn : Nat → Except String Nat) (rows : List Nat), rows ≠ [] ∧ (builtinMap fn rows).2 = none :=
  ⟨fun x => .ok x, [1, 2], by simp, by simp [builtinMap]⟩
example : mapRows (ε := String) 0 (fun x : Nat => .ok x) [1, 2] = .valueError := by simp [mapRows]

end LokyModel.Chunks
