import LokyModel.Lemmas.ExecLiveKBool
import LokyModel.Lemmas.ExecStickyKill
import LokyModel.Props.C02Live
/-!
# C06, liveness half — `shutdown(kill_workers=True)` never hangs: deadlock freedom of static pools with forced shutdowns

`Props/C02Live.lean` proves that a static pool whose workers may die at any point at which they hold no kernel lock never
gets stuck — for pools whose scripts contain NO forced shutdown.  Here the scripts may contain `shutdown(wait, kill_workers=True)`
anywhere, any number of times, from any thread, interleaved with `submit`, `cancel`, plain `shutdown`, `drop`, the
interpreter-exit hook, and with crash steps of workers at lock-free points (`Cfg.staticPoolK`, `ReachableLF`).

With `kill_workers` the manager thread, once it sees the flag, fails every pending future with the shutdown error,
SIGKILLs every registered worker WHEREVER it is — including inside the critical section of the call queue's read lock or
of the result queue's write lock — and joins it, then runs `join_executor_internals` on an empty process table.  A queue
lock orphaned by such a kill stays taken for ever, and that is harmless: nobody reads the queues any more (the same
window, entered by an *external* crash while the pool is still in service, is the known finding D5/D7).

The proof splits every run in two phases (`Lemmas/ExecLiveKAll.lean`): until the manager sees the flag the run is, step
for step, a run of the static pool obtained by forgetting every `kill_workers` (`Lemmas/ExecLiveKSim.lean`), to which the
theorems of C02 apply; afterwards the invariant `LateInv` (`Lemmas/ExecLiveKLate.lean`) holds.

As in C01/C02 what is proved is deadlock freedom (no reachable quiescent state is a bad one), not termination.
-/
namespace LokyModel.Exec

/-- **C06, static pools with forced shutdowns: a quiescent state is a good one.**  In every state that such a pool reaches
    by ordinary steps and by deaths of workers that hold no kernel lock, if no actor has an enabled step (other than a
    further death), then every future is resolved and every user thread has finished its script: `shutdown(kill_workers=True)`
    returns, and so does everything else — no `result()`, no `shutdown(wait=True)`, no interpreter-exit hook hangs. -/
theorem C06_kill_pool_no_deadlock (cfg : Cfg) (hc : cfg.staticPoolK = true) (s : St) (h : ReachableLF cfg s)
    (hq : enabledNC s = []) : good s = true :=
  stuck_good_K cfg hc s h hq

/-- … in the vocabulary of the witness theorems of `Props/C01.lean`: **no state of a lock-free crash run of a static pool
    with forced shutdowns is `stuckBad`** -/
theorem C06_kill_pool_never_stuck_bad (cfg : Cfg) (hc : cfg.staticPoolK = true) (s : St)
    (h : ReachableLF cfg s) : stuckBad s = false := by
  unfold stuckBad
  cases he : anyEnabled s with
  | true => simp
  | false =>
    have hg := C06_kill_pool_no_deadlock cfg hc s h ((anyEnabled_false_iff s).1 he)
    unfold good at hg
    simp only [Bool.and_eq_true] at hg
    simp only [Bool.not_false, Bool.true_and, Bool.or_eq_false_iff]
    constructor
    · rw [List.any_eq_false]
      intro f hf
      have := List.all_eq_true.1 hg.1 f hf
      simp [this]
    · rw [List.any_eq_false]
      intro k hk
      have := List.all_eq_true.1 hg.2 k hk
      simpa using this

/-- a pool without forced shutdowns is a special case -/
theorem staticPoolK_of_staticPool (cfg : Cfg) (hc : cfg.staticPool = true) : cfg.staticPoolK = true := by
  unfold Cfg.staticPool at hc
  unfold Cfg.staticPoolK
  simp only [Bool.and_eq_true] at hc ⊢
  exact hc.1

/-- **the two phases, with the executable predicates that `Drivers/LiveCheckK.lean` evaluates along random walks**: every
    state of a lock-free crash run of a static pool with forced shutdowns satisfies `phase1K` (every crash-aware
    ingredient of C02, of the state in which nobody ever asked for `kill_workers`) or `lateK` and `endK` (the manager has
    seen the kill flag) -/
theorem C06_kill_pool_ingredients (cfg : Cfg) (hc : cfg.staticPoolK = true) (s : St) (h : ReachableLF cfg s) :
    phase1K s = true ∨ (lateK s = true ∧ endK s = true) := by
  have hr := h.reachable
  rcases phaseK_reachableLF hc h with h1 | h2
  · exact .inl (phase1K_of_reachable hc h1)
  · refine .inr ⟨lateK_of_inv s h2 (shutInv_reachable hr), endK_of_inv s h2 ?_⟩
    intro he
    refine termInv_reachable hr ?_
    unfold mEnded at he
    cases hm : s.mpc <;> simp only [hm] at he <;> first | rfl | cases he

/-! ### every worker is killed -/

/-- lock-free crash runs from a given state -/
inductive StepsLF : St → St → Prop
  | refl (s : St) : StepsLF s s
  | step {s t t' : St} {a : Actor} {v : Variant} : StepsLF s t → v ≠ .crash → step t a v = some t' → StepsLF s t'
  | crash {s t t' : St} {p : Pid} : StepsLF s t → lockFree (t.w p) = true → step t (.W p) .crash = some t' → StepsLF s t'

theorem reachableLF_of_stepsLF {cfg : Cfg} {s t : St} (h0 : ReachableLF cfg s) (h : StepsLF s t) : ReachableLF cfg t := by
  induction h with
  | refl => exact h0
  | step _ hv hs ih => exact .step ih hv hs
  | crash _ hl hs ih => exact .crash ih hl hs

/-- once the manager has seen the kill flag, `LateInv` holds for the rest of the run -/
theorem lateInv_after_kill_seen (cfg : Cfg) (hc : cfg.staticPoolK = true) (s0 s1 s : St) (h0 : ReachableLF cfg s0)
    (hm : s0.mpc = .flagRel) (hk : s0.killFlag = true) (h1 : step s0 .M .ok = some s1) (hrun : StepsLF s1 s) :
    LateInv s := by
  have hL1 : LateInv s1 := by
    rcases phaseK_reachableLF hc h0 with h | h
    · exact lateInv_of_phase1 hc h hm hk h1
    · have := h.pc; rw [hm] at this; cases this
  have hr1 : ReachableLF cfg s1 := .step h0 (by decide) h1
  induction hrun with
  | refl => exact hL1
  | @step t t' a v hst hv hs ih =>
    have hrt := reachableLF_of_stepsLF hr1 hst
    exact lateInv_step hs (by rw [cfg_reachable hrt.reachable]; exact hc) (shutInv_reachable hrt.reachable) ih
  | @crash t t' p hst _ hs ih =>
    have hrt := reachableLF_of_stepsLF hr1 hst
    exact lateInv_step hs (by rw [cfg_reachable hrt.reachable]; exact hc) (shutInv_reachable hrt.reachable) ih

/-- **every worker is killed, every pending future is failed**: let the manager thread see the kill flag (its step out of
    the lock section of `flag_executor_shutting_down`, in a state `s0` in which `kill_workers` is set).  Then in every
    later state of the run in which the manager thread has ended, every worker process ever spawned is dead — whatever it
    was doing, whatever lock it held — and no work item is pending; and at any time the manager is in the kill loop or
    past it (`mK2`), never back in its main loop. -/
theorem C06_all_dead_when_manager_ends (cfg : Cfg) (hc : cfg.staticPoolK = true) (s0 s1 s : St)
    (h0 : ReachableLF cfg s0) (hm : s0.mpc = .flagRel) (hk : s0.killFlag = true) (h1 : step s0 .M .ok = some s1)
    (hrun : StepsLF s1 s) :
    mK2 s.mpc = true ∧ (mEnded s = true → (∀ p ∈ s.allPids, s.w p = .dead) ∧ s.pending = []) := by
  have hL := lateInv_after_kill_seen cfg hc s0 s1 s h0 hm hk h1 hrun
  refine ⟨hL.pc, fun he => ⟨lateInv_all_dead s hL he, ?_⟩⟩
  have hr := (reachableLF_of_stepsLF (.step h0 (by decide) h1) hrun).reachable
  refine termInv_reachable hr ?_
  unfold mEnded at he
  cases hm' : s.mpc <;> simp only [hm'] at he <;> first | rfl | cases he

/-- **after the manager has seen the kill flag, once nothing can move, everything is over**: the manager thread has
    ended, every worker process ever spawned is dead, every future is resolved and every user thread — the caller of
    `shutdown(kill_workers=True)` included — is at the end of its script. -/
theorem C06_after_kill_quiescent (cfg : Cfg) (hc : cfg.staticPoolK = true) (s0 s1 s : St)
    (h0 : ReachableLF cfg s0) (hm : s0.mpc = .flagRel) (hk : s0.killFlag = true) (h1 : step s0 .M .ok = some s1)
    (hrun : StepsLF s1 s) (hq : enabledNC s = []) :
    s.mpc = .done ∧ (∀ p ∈ s.allPids, s.w p = .dead) ∧ (∀ f ∈ s.futs, f.done = true) ∧
    ∀ k, k < s.cfg.scripts.length → s.upc k = .done := by
  have hL := lateInv_after_kill_seen cfg hc s0 s1 s h0 hm hk h1 hrun
  obtain ⟨hend, hu⟩ := late_quiescent s hL hq
  have hg := C06_kill_pool_no_deadlock cfg hc s (reachableLF_of_stepsLF (.step h0 (by decide) h1) hrun) hq
  unfold good at hg
  simp only [Bool.and_eq_true, List.all_eq_true, List.mem_range, beq_iff_eq] at hg
  refine ⟨?_, lateInv_all_dead s hL hend, hg.1, hu⟩
  have hpc := hL.pc
  unfold mEnded at hend
  cases hm' : s.mpc <;> simp_all [mK2]

/-- … and the step that sees the flag is the one that fails every unfinished future with the shutdown error
    (`C06_unfinished_get_shutdown_error`, `Props/C06.lean`, says what `failAll` does) and starts the kill loop -/
theorem C06_kill_seen_step (s0 s1 : St) (hm : s0.mpc = .flagRel) (hk : s0.killFlag = true)
    (h1 : step s0 .M .ok = some s1) :
    s1 = mKillNext (failAll { s0 with shut := s0.shut + 1, oShut := none, pending := [] } s0.pending .excShutdown) := by
  have hs : stepM s0 .ok = some s1 := h1
  unfold stepM at hs
  rw [hm] at hs
  simp at hs
  rw [← hs]
  unfold mAfterFlag
  exact if_pos hk

/-! ### the kill request is sticky (`kill_workers = kill_workers or …`): no later call withdraws it -/

/-- the recorded kill request survives every lock-free crash run -/
theorem killFlag_stepsLF {s t : St} (h : StepsLF s t) (hk : s.killFlag = true) : t.killFlag = true := by
  induction h with
  | refl => exact hk
  | step _ _ hs ih => exact stickyKill_step hs ih
  | crash _ _ hs ih => exact stickyKill_step hs ih

/-- **a kill request issued at any time before the manager reads the flag kills every worker**: let `kill_workers` be
    recorded in some state `s` of a lock-free crash run — whatever `shutdown(kill_workers=False)` calls, garbage collection
    of the executor or interpreter exit follow — and let the manager thread later leave the lock section of
    `flag_executor_shutting_down` (state `s0`).  Then the conclusions of `C06_all_dead_when_manager_ends` hold of the rest
    of the run. -/
theorem C06_kill_request_all_dead_when_manager_ends (cfg : Cfg) (hc : cfg.staticPoolK = true) (s s0 s1 s2 : St)
    (h : ReachableLF cfg s) (hk : s.killFlag = true) (hrun0 : StepsLF s s0) (hm : s0.mpc = .flagRel)
    (h1 : step s0 .M .ok = some s1) (hrun : StepsLF s1 s2) :
    mK2 s2.mpc = true ∧ (mEnded s2 = true → (∀ p ∈ s2.allPids, s2.w p = .dead) ∧ s2.pending = []) :=
  C06_all_dead_when_manager_ends cfg hc s0 s1 s2 (reachableLF_of_stepsLF h hrun0) hm (killFlag_stepsLF hrun0 hk) h1 hrun

/-! ### non-vacuity: a forced shutdown while a task body is running and while the other worker holds the queue's lock -/

/-- two workers, two plain tasks, `shutdown(wait=True, kill_workers=True)` -/
def cfgKill : Cfg :=
  { maxWorkers := 2, timeout := false, tasks := [{}, {}],
    scripts := [[.create, .submit 0, .submit 1, .shutdown true true]] }

/-- Worker 100 takes task 0 and stays inside its body; worker 101 completes task 1 and goes back to the call queue, where it
    blocks in `recv` HOLDING the queue's read lock.  Then the thread calls `shutdown(wait=True, kill_workers=True)`.  The
    manager sees the flag (step 69), fails future 0 with the shutdown error, kills 101 (inside the lock section) and 100
    (inside the task body), joins both, and ends; `shutdown` returns. -/
def schedKill : List (Actor × Variant) :=
  [(.U 0, .ok), (.U 0, .ok), (.U 0, .ok), (.U 0, .ok), (.U 0, .ok), (.U 0, .ok), (.U 0, .ok), (.W 100, .ok),
   (.W 100, .ok), (.U 0, .ok), (.U 0, .ok), (.W 101, .ok), (.U 0, .ok), (.M, .ok), (.M, .ok), (.M, .ok), (.F, .ok),
   (.F, .ok), (.F, .ok), (.W 100, .ok), (.W 100, .ok), (.W 100, .ok), (.W 101, .ok), (.F, .ok), (.U 0, .ok), (.U 0, .ok),
   (.M, .ok), (.M, .ok), (.M, .ok), (.M, .fail), (.U 0, .ok), (.U 0, .ok), (.U 0, .ok), (.U 0, .ok), (.U 0, .ok),
   (.U 0, .ok), (.M, .ok), (.M, .ok), (.M, .ok), (.M, .fail), (.M, .ok), (.F, .ok), (.F, .ok), (.F, .ok), (.W 101, .ok),
   (.W 101, .ok), (.W 101, .ok), (.W 101, .ok), (.W 101, .ok), (.W 101, .ok), (.W 101, .ok), (.W 101, .ok), (.W 101, .ok),
   (.F, .ok), (.M, .ok), (.M, .ok), (.M, .fail), (.U 0, .ok), (.U 0, .ok), (.U 0, .ok), (.U 0, .ok), (.U 0, .ok),
   (.U 0, .ok), (.M, .ok), (.M, .ok), (.M, .ok), (.M, .fail), (.U 0, .ok), (.M, .ok), (.M, .ok), (.M, .ok), (.M, .ok),
   (.M, .ok), (.M, .ok), (.M, .ok), (.M, .ok), (.F, .ok), (.M, .ok), (.M, .ok), (.M, .ok), (.M, .ok), (.U 0, .ok),
   (.U 0, .ok), (.U 0, .ok)]

example : cfgKill.staticPoolK = true := by decide
example : cfgKill.staticPool = false := by decide
/-- the state in which the manager sees the kill flag: worker 100 is inside the body of task 0 (its future is running),
    worker 101 is blocked in `recv` and owns the call queue's read lock -/
theorem schedKill_seen : (runLF (init cfgKill) (schedKill.take 69)).map (fun s =>
      (seesKill s .M, s.w 100, s.w 101, s.futs)) = some (true, .task 0 0, .gRecv, [.running, .value]) := by
  decide +kernel
theorem schedKill_seen_lock : (runLF (init cfgKill) (schedKill.take 69)).map (fun s => (s.cqRlock, s.oCqRlock)) =
    some (0, some (.W 101)) := by
  decide +kernel
/-- the run ends in a quiescent state, which — as the theorem says — is a good one: future 0 carries the shutdown error,
    future 1 keeps its value, both workers are dead, the manager thread has ended, `shutdown(wait=True, kill_workers=True)`
    has returned, the pool is not flagged broken — and the call queue's read lock is still taken, by a dead process -/
theorem schedKill_end : (runLF (init cfgKill) schedKill).map (fun s =>
      ((enabledNC s).isEmpty, good s, s.futs, s.mpc, s.allPids.map s.w)) =
    some (true, true, [.excShutdown, .value], .done, [.dead, .dead]) := by
  decide +kernel
theorem schedKill_end_lock : (runLF (init cfgKill) schedKill).map (fun s => (s.broken, s.cqRlock, s.oCqRlock)) =
    some (none, 0, some (.W 101)) := by
  decide +kernel
example : (runLF (init cfgKill) schedKill).map (fun s => (phase1K s, lateK s, endK s)) = some (false, true, true) := by
  decide +kernel

/-- **the theorem is not vacuous**: a state of a run of a static pool with a forced shutdown, reached through the kill of
    a worker inside a task body and of a worker inside a queue-lock section; quiescent, good, the unfinished future failed
    with the shutdown error, every worker dead, a queue lock orphaned -/
theorem C06_kill_pool_nonvacuous : ∃ s, ReachableLF cfgKill s ∧ enabledNC s = [] ∧ good s = true ∧
    s.futs = [.excShutdown, .value] ∧ s.mpc = .done ∧ (∀ p ∈ s.allPids, s.w p = .dead) ∧ s.broken = none ∧
    s.cqRlock = 0 := by
  have h := schedKill_end
  have h' := schedKill_end_lock
  cases hr : runLF (init cfgKill) schedKill with
  | none => rw [hr] at h; cases h
  | some s =>
    rw [hr] at h h'
    simp only [Option.map_some, Option.some.injEq, Prod.mk.injEq, List.isEmpty_iff] at h h'
    obtain ⟨h1, h2, h3, h4, h5⟩ := h
    obtain ⟨h6, h7, _⟩ := h'
    refine ⟨s, reachableLF_of_run schedKill _ s .init hr, h1, h2, h3, h4, ?_, h6, h7⟩
    intro p hp
    have hmem : s.w p ∈ s.allPids.map s.w := List.mem_map.2 ⟨p, hp, rfl⟩
    rw [h5] at hmem
    simpa using hmem

end LokyModel.Exec
