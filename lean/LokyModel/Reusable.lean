/-!
# M1R — `get_reusable_executor` decision logic and the `_resize` plan

`loky/reusable_executor.py`: the module-level singleton (`_executor`, `_executor_kwargs`,
`_next_executor_id`, one re-entrant lock around the whole call) and what `_resize` asks of the pool.
Executors are abstracted to (id, max_workers, kwargs identity, flags, registered workers); that the
`shutdown(wait=True)` inside a replacement terminates is property C01.  Import-free.
-/
namespace LokyModel.Reusable

inductive Reuse | yes | no | auto
deriving Repr, DecidableEq

structure Exec where
  id : Nat
  maxWorkers : Nat
  kwargs : Nat            -- identity of the (context, timeout, reducers, initializer, initargs, env) tuple
  broken : Bool := false
  shutdown : Bool := false
  started : Bool := false -- the manager thread exists (some submit happened)
  pids : List Nat := []
deriving Repr, DecidableEq

structure Args where
  maxWorkers : Option Nat
  kwargs : Nat
  reuse : Reuse := .auto
  killWorkers : Bool := false
deriving Repr, DecidableEq

structure St where
  exec : Option Exec := none
  nextId : Nat := 0
  cpuCount : Nat := 1
deriving Repr, DecidableEq

inductive Action
  | valueError                                   -- max_workers <= 0
  | created (id : Nat)
  | replaced (oldId : Nat) (kill : Bool) (newId : Nat)   -- previous instance shut down (wait=True) first
  | reused (id : Nat) (oldMax newMax : Nat)
deriving Repr, DecidableEq

/-- the `max_workers` the call works with (`None`: the current size under `reuse=True`, else `cpu_count()`) -/
def wantedMax (s : St) (a : Args) : Option Nat :=
  match a.maxWorkers with
  | none =>
      match a.reuse, s.exec with
      | .yes, some e => some e.maxWorkers
      | _, _ => some s.cpuCount
  | some 0 => none
  | some n => some n

def allowed (e : Exec) (a : Args) : Bool :=
  match a.reuse with
  | .yes => true
  | .no => false
  | .auto => e.kwargs == a.kwargs

def fresh (s : St) (a : Args) (mw : Nat) : Exec × St :=
  let e : Exec := { id := s.nextId, maxWorkers := mw, kwargs := a.kwargs }
  (e, { s with exec := some e, nextId := s.nextId + 1 })

/-- one call of `get_reusable_executor` (the recursive call after a replacement is unfolded) -/
def getReusable (s : St) (a : Args) : Action × St :=
  match wantedMax s a with
  | none => (.valueError, s)
  | some mw =>
    match s.exec with
    | none =>
        let (e, s') := fresh s a mw
        (.created e.id, s')
    | some e =>
        if e.broken || e.shutdown || !(allowed e a) then
          let (e', s') := fresh { s with exec := none } a mw
          (.replaced e.id a.killWorkers e'.id, s')
        else
          (.reused e.id e.maxWorkers mw, { s with exec := some { e with maxWorkers := mw } })

/-- events between calls: the current executor breaks / is shut down explicitly / starts -/
inductive Ev
  | call (a : Args) | breakIt | shutIt | start (pids : List Nat)
deriving Repr, DecidableEq

def stepEv (s : St) : Ev → Option Action × St
  | .call a => let (r, s') := getReusable s a; (some r, s')
  | .breakIt => (none, { s with exec := s.exec.map fun e => { e with broken := true, shutdown := true } })
  | .shutIt => (none, { s with exec := s.exec.map fun e => { e with shutdown := true } })
  | .start ps => (none, { s with exec := s.exec.map fun e => { e with started := true, pids := ps } })

def runEvs (s : St) : List Ev → List Action × St
  | [] => ([], s)
  | ev :: rest =>
    let (r, s') := stepEv s ev
    let (rs, s'') := runEvs s' rest
    (match r with | some a => a :: rs | none => rs, s'')

/-! ### the `_resize` plan on a started, healthy pool with no time-out or death during the call -/

structure Plan where
  sentinels : Nat        -- stop sentinels posted (workers asked to leave)
  spawns : Nat           -- new workers started afterwards
deriving Repr, DecidableEq

/-- `_resize(new)` with `alive` registered live workers -/
def resizePlan (alive new : Nat) : Plan :=
  { sentinels := alive - new, spawns := new - (alive - (alive - new)) }

/-- the worker set after the plan: the first `alive − sentinels` previous workers stay (which ones leave
    is up to the queue), the new ones are appended -/
def survivors (alive new : Nat) : Nat := alive - (resizePlan alive new).sentinels
def sizeAfter (alive new : Nat) : Nat := survivors alive new + (resizePlan alive new).spawns

/-- the final wait of `_resize`: leave when flagged or when every *currently registered* worker is alive -/
def finalWaitDone (broken shutdown : Bool) (registeredAlive : List Bool) : Bool :=
  broken || shutdown || registeredAlive.all id

end LokyModel.Reusable
