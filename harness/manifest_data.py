"""per-property claims; MANIFEST.json is generated from this by harness/mkmanifest.py"""
BASELINE_OFF = ("cd /repo && env -u LOKY_VERIF /venv/bin/python -m pytest -ra -q -p no:cacheprovider "
                "--timeout=900 --continue-on-collection-errors --junitxml=/tmp/loky-baseline.junit.xml")
HOOKS = {"guard": "LOKY_VERIF", "enable": "LOKY_VERIF=1 in the environment of the checked process (no hook commit exists yet)",
         "baseline_off_cmd": BASELINE_OFF, "source_commits": [], "add_only": True}
ENGINES = [
    {"name": "E2", "path": "harness/e2.py", "serves_properties": ["C17"],
     "kind_free_text": "in-process differential: real function with substituted environment vs compiled Lean model driver, plus a statement-level oracle"},
]
NOTES = ("Technique: machine-checked proof in Lean 4 over hand-written models, tied to /repo by a correspondence check "
         "that runs on every invocation. ./check <id> builds the property's theorems, audits their axioms, runs the "
         "correspondence and the implementation-side oracle, replays known findings and writes evidence/<id>.json.")
STD_NOTE = ("Trusted: Lean kernel + axioms propext/Classical.choice/Quot.sound (audited per theorem each run); the hand-written "
            "model as validated by the differential run; the harness's environment substitution. ")
CLAIMS = {
    "C17": {
        "engine": "E2", "design_ref": "§5 C17", "drivers": ["cpucount_driver"],
        "technique": "Lean 4 theorems over a model of cpu_count (closed formula, ≥1, physical-core cache automaton: at most one warning) + differential correspondence against the real function",
        "text": ("Theorems (all configurations, unbounded integers, any sequence of calls): cpu_count = max 1 (min OS (min affinity (min cgroup override))), "
                 "cgroup term = exact ceiling of quota/period iff both positive, result ≥ 1, only_physical_cores rules, at most one warning over any call sequence. "
                 "Correspondence: real cpu_count() with os/open/environ/probe substituted vs the compiled model on 3·10^4 (quick) boundary-biased call sequences, "
                 "plus an oracle written from the statement (exact rational ceiling)."),
        "note": STD_NOTE + "Modelled, not verified: float math.ceil(q/p) replaced by the exact ceiling (equal for quota < 2^46); only the Linux branch; _count_physical_cores_linux (lscpu parsing) is a parameter.",
    },
}
NOT_YET = {}
