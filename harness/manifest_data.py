"""per-property claims; MANIFEST.json is generated from this by harness/mkmanifest.py"""
BASELINE_OFF = ("cd /repo && env -u LOKY_VERIF /venv/bin/python -m pytest -ra -q -p no:cacheprovider "
                "--timeout=900 --continue-on-collection-errors --junitxml=/tmp/loky-baseline.junit.xml")
HOOKS = {"guard": "LOKY_VERIF", "enable": "LOKY_VERIF=1 in the environment of the checked process (no hook commit exists yet)",
         "baseline_off_cmd": BASELINE_OFF, "source_commits": [], "add_only": True}
ENGINES = [
    {"name": "E2", "path": "harness/e2.py", "serves_properties": ["C15", "C16", "C17"],
     "kind_free_text": "in-process differential: real function with substituted environment vs compiled Lean model driver, plus a statement-level oracle"},
]
NOTES = ("Technique: machine-checked proof in Lean 4 over hand-written models, tied to /repo by a correspondence check "
         "that runs on every invocation. ./check <id> builds the property's theorems, audits their axioms, runs the "
         "correspondence and the implementation-side oracle, replays known findings and writes evidence/<id>.json.")
STD_NOTE = ("Trusted: Lean kernel + axioms propext/Classical.choice/Quot.sound (audited per theorem each run); the hand-written "
            "model as validated by the differential run; the harness's environment substitution. ")
CLAIMS = {
    "C16": {
        "engine": "E2", "design_ref": "§5 C16", "drivers": ["wrapper_driver"],
        "technique": "Lean 4 theorems over an algebraic model of the cloudpickle wrappers (reduce/rebuild with cloudpickle's round trip as a parameter) + differential correspondence against the real wrappers on generated objects",
        "text": ("Theorems (every object, every stack of wrappers, both keep_wrapper values, any number of round trips): a pickle round trip of a wrapper is the code's __reduce__/_reconstruct_wrapper pair and yields rt(x) if not keep_wrapper else a fresh wrapper of rt(x) with the same flag; by induction wrapped for ever / unwrapped after the first trip (exactly the keep=True layers of a stack survive); callable iff the object is, calls forwarded, attribute reads forwarded for every name that is neither type-level nor _obj/_keep_wrapper; behaviour preserved after any number of trips given a behaviour-preserving cloudpickle; instances made through a wrapped class obey the same rules (full strength after fix 22b6807). Witness theorem for D12 (_obj/_keep_wrapper shadowed). "
                 "Correspondence: 2*10^4 (quick) generated cases - lambdas, closures, nested, recursive, dynamic-__main__/unimportable-module functions, callable (own/inherited __call__) and non-callable instances, classes with positional/keyword constructor arguments, 1-2 wrapper layers, 0-3 plain-pickle round trips - layer kinds/flags, callable(), call results on 5 sample argument lists, attribute reads and the number of cloudpickle trips vs the compiled model; oracle from the statement compares every stage with the original object."),
        "note": STD_NOTE + "Modelled, not verified: cloudpickle itself (parameter rt, hypothesis Faithful); call behaviour is one opaque token observed on sample arguments; type-level names (__class__, __doc__, ...) are outside 'attribute reads'; after arriving unwrapped further trips use cloudpickle; _wrap_objects_when_needed/WRAP_CACHE not covered. Known finding D12.",
    },
    "C15": {
        "engine": "E2", "design_ref": "§5 C15", "drivers": ["pickle_driver"],
        "technique": "Lean 4: heap-cell model of dispatch tables (copy vs alias explicit) with a frame theorem over API histories + reducer algebra with a whole-graph round-trip theorem; differential run against the real reduction/queues/executor code with registry snapshots",
        "text": ("Part pickle - theorems (all registry contents, all reducer maps, all histories of set_loky_pickler / pickler creation / instance register / dumps / queue creation+put / executor creation, both back-ends): table of CustomizablePickler(reducers) = user over loky over (cloudpickle over) copyreg, built in a fresh dict; no history changes copyreg.dispatch_table, cloudpickle's table or loky's registry; a pickler's table depends only on the registries, the back-end at its creation and its own reducers; queues pickle with their own reducers; result_reducers=None means the job reducers; _reduce_partial/_reduce_method/_reduce_method_descriptor round-trip every well-formed graph of partials, bound methods, class methods and descriptors to itself. Correspondence: 2*10^4 (quick) cases on the real code - API histories with marker reducers installed in all three registries (every overlay order), observing the real pickler's table, the reducer actually used per probe instance and registry snapshots; loads(dumps(x)) structure and call-result behaviour for generated graphs through dumps and SimpleQueue, both back-ends. "
                 "The clause 'the pickler selected when a task is submitted is the one its worker uses' is not decided yet (executor part pending; the pickler name is recorded at dispatch, DESIGN D9)."),
        "note": STD_NOTE + "pickle/cloudpickle trusted (table consulted for the probe types); methods reachable under their __name__; a partial's instance __dict__ is outside the property; POSIX registry; executors are constructed with a fork context and no worker is started in this part.",
    },
    "C17": {
        "engine": "E2", "design_ref": "§5 C17", "drivers": ["cpucount_driver"],
        "technique": "Lean 4 theorems over a model of cpu_count (closed formula, ≥1, physical-core cache automaton: at most one warning) + differential correspondence against the real function",
        "text": ("Theorems (all configurations, unbounded integers, any sequence of calls): cpu_count = max 1 (min OS (min affinity (min cgroup override))), "
                 "cgroup term = exact ceiling of quota/period iff both positive, result ≥ 1, only_physical_cores rules, at most one warning over any call sequence. "
                 "Correspondence: real cpu_count() with os/open/environ/probe substituted vs the compiled model on 3·10^4 (quick) boundary-biased call sequences, "
                 "plus an oracle written from the statement (exact rational ceiling)."),
        "note": STD_NOTE + "Modelled, not verified: float math.ceil(q/p) replaced by the exact ceiling (equal for quota < 2^46); only the Linux branch; _count_physical_cores_linux (lscpu parsing) is a parameter.",
    },
}
NOT_YET = {}
