"""per-property claims; MANIFEST.json is generated from this by harness/mkmanifest.py"""
BASELINE_OFF = ("cd /repo && env -u LOKY_VERIF /venv/bin/python -m pytest -ra -q -p no:cacheprovider "
                "--timeout=900 --continue-on-collection-errors --junitxml=/tmp/loky-baseline.junit.xml")
HOOKS = {"guard": "LOKY_VERIF", "enable": "LOKY_VERIF=1 in the environment of the checked process (no hook commit exists yet)",
         "baseline_off_cmd": BASELINE_OFF, "source_commits": [], "add_only": True}
ENGINES = [
    {"name": "E1", "path": "harness/e1.py + harness/simengine/", "serves_properties": ["C01", "C02", "C03", "C04", "C05", "C06", "C07", "C08", "C09", "C10", "C18", "C19"],
     "kind_free_text": "deterministic scheduler + simulated kernel running loky's real executor code, in lock-step with the Lean model M1, judged by property oracles"},
    {"name": "E3-tree", "path": "harness/realproc/tt_engine.py", "serves_properties": ["C12", "C13", "C20"],
     "kind_free_text": "real loky process trees / executor lifecycles in fresh subprocesses, observed through /proc, /dev/shm and stderr, vs the compiled Lean driver"},
    {"name": "E3", "path": "harness/props/c18_scn.py, harness/props/c02_scn.py", "serves_properties": ["C02", "C06", "C18"],
     "kind_free_text": "real-process scenarios observed through /proc, exit statuses and sentinels"},
    {"name": "E2", "path": "harness/e2.py", "serves_properties": ["C02", "C03", "C06", "C11", "C15", "C16", "C17", "C18", "C19"],
     "kind_free_text": "in-process differential: real function with substituted environment vs compiled Lean model driver, plus a statement-level oracle"},
]
NOTES = ("Technique: machine-checked proof in Lean 4 over hand-written models, tied to /repo by a correspondence check "
         "that runs on every invocation. ./check <id> builds the property's theorems, audits their axioms, runs the "
         "correspondence and the implementation-side oracle, replays known findings and writes evidence/<id>.json.")
STD_NOTE = ("Trusted: Lean kernel + axioms propext/Classical.choice/Quot.sound (audited per theorem each run); the hand-written "
            "model as validated by the differential run; the harness's environment substitution. ")
E1NOTE = ("E1 runs loky's REAL process_executor.py / queues.py (and the stdlib Queue code they use), loaded from the working tree, over a "
          "simulated kernel (semaphores, pipes, sentinels, threads, processes) under a seeded scheduler with adversarial time-outs and worker "
          "crashes at every announced operation; single-executor runs are compared step by step (operation label, enabled set, observable state) "
          "with the Lean model M1 (LokyModel/Exec.lean). Assumed: actors are pre-empted only at announced operations; pipes unbounded; pickling "
          "real; cyclic GC not modelled; get_reusable_executor/_resize are executed by E1 but are outside M1. ")
CLAIMS = {
    "C09": {
        "engine": "E1+E2", "design_ref": "§5 C09", "drivers": ["reusable_driver"],
        "technique": "Lean 4 theorems over a decision model of get_reusable_executor (identity rule, replacement, ids strictly increasing over any history by induction) + the real function run under the deterministic scheduler with each call compared with the model + singleton oracle",
        "text": ("Theorems (all histories of calls with any max_workers / reuse True,False,'auto' / kill_workers / changed arguments, interleaved with breakages, explicit shutdowns and starts): the returned executor is never one flagged when the call began; the previous instance is returned iff healthy and reuse allows it; otherwise it is shut down first (with the requested kill flag) and a fresh one with the new arguments and a strictly larger id is returned; ids handed out later are larger than all earlier ones; the returned executor has the requested size; max_workers <= 0 is rejected without change. "
                 "Real code: 10^3 quick histories (1-2 caller threads, time-outs, crashes in one family) of the real reusable_executor.py + process_executor.py under E1; every call of single-thread death-free histories compared with the model (action, ids, sizes); oracles C09 (identity/ids/size/previous workers gone) and C03. Concurrent callers: the whole body runs under one RLock (linearisation exercised by the 2-thread histories, not a theorem). Defects D6 (resize spin on a stale snapshot), D15/D16 (resize spawning onto an executor flagged meanwhile) found and fixed."),
        "note": STD_NOTE + E1NOTE + "Executors are abstracted to (id, size, kwargs identity, flags); that the inner shutdown(wait=True) returns is C01 (known findings D5, D7).",
    },
    "C10": {
        "engine": "E1+E2", "design_ref": "§5 C10", "drivers": ["reusable_driver"],
        "technique": "Lean 4 theorems over the _resize plan (sentinels/spawns arithmetic, survivors = min(old,new), size at return) and its final wait (exit condition on the current registry; the pre-fix snapshot loop shown to spin) + real resizes under the deterministic scheduler compared with the plan",
        "text": ("Theorems (all old/new sizes): a fault-free resize ends with exactly the requested number of workers, min(old,new) of the previous ones kept, growing stops nobody, shrinking starts nobody; the final wait is left iff flagged or every currently registered worker is alive, and a worker that departed during the call does not hold the caller back; the loop it replaced could never be left once a snapshotted worker had exited (D6). "
                 "Real code: 10^3 quick histories of resizes up and down with work in flight and idle time-outs; every fault-free resize compared with the plan (survivors, registered, alive); oracles C10, C03 (every pre-resize task completes with its own result) and C01 (the call returns). PARTIAL: termination with deaths during the call rests on C01; _resize is outside M1."),
        "note": STD_NOTE + E1NOTE,
    },
    "C12": {
        "engine": "E3", "design_ref": "§5 C12", "drivers": ["trackertree_driver"],
        "technique": "Lean 4 invariants over a process-tree / tracker-incarnation / writer-set model, proved by induction over all histories, + step-by-step correspondence on real loky process trees",
        "text": ("PARTIAL (OS semantics assumed). Theorems (every history of spawn at any depth with both start methods, any order and cause of death, INT/TERM/KILL to any tracker at any time incl. both start-up stages, repeated tracker deaths): spawn hands the parent's live tracker to the child; while no tracker was killed the whole tree holds incarnation 0; writer set = live believers; the sweep is enabled iff no live process holds the pipe (then the tree is gone); a member's SIGKILL only shrinks the writer set; INT/TERM change nothing; a tracker ends only by SIGKILL or its own EOF; after a tracker death the next tracked operation is enabled, launches a live incarnation, warns once. Correspondence: 25 (quick) / 590 (thorough) real trees; after every step tracker identity per member, real writer sets read from /proc, tracked files, leak reports vs the compiled model; oracle from the statement."),
        "note": STD_NOTE + "OS semantics are assumed, not proved (EOF iff last writer closed, death closes fds, EPIPE iff reader gone, mask/dispositions/pass_fds inherited across exec, atomic <=512-byte writes); races inside ensure_running/_send and dead-tracker zombie reaping are not modelled.",
    },
    "C13": {
        "engine": "E3", "design_ref": "§5 C13", "drivers": ["trackertree_driver"],
        "technique": "Lean 4 invariants over the tracker-tree model extended with the SemLock name life cycle and tracker registries (induction over all histories, kernel-evaluated necessity witnesses) + real-process scenarios observing /dev/shm",
        "text": ("PARTIAL (OS semantics assumed). Theorems (every history of create / pickle-to-child / collect / normal, exception, crash exit of any member at any point): the finalizer unlinks before it unregisters; copies and exits never touch the name space; a name leaves only by its owner's finalizer, maybe_unlink->0 or a sweep; namespace_restored - if no tracker was SIGKILLed and no process died between sem_open and REGISTER, once the tree is gone and the trackers have swept no loky semaphore name is left (both hypotheses shown necessary by witnesses); no leak is reported when every owner completed its finalizer. Correspondence: 24 / 397 real scenarios (8 primitive kinds, plain and reusable executors, children with copies) x endings normal exit, uncaught exception, worker crash, broken pool, SIGKILL of the parent; /dev/shm per creating pid, writer sets and leak reports vs the model. Known finding D14 (create-window leak)."),
        "note": STD_NOTE + "kernel semaphore and pipe semantics assumed; the finalizer-order and create-window windows exist only in the model (real runs hit them only through the forced witness).",
    },
    "C20": {
        "engine": "E3", "design_ref": "§5 C20", "drivers": ["trackertree_driver"],
        "technique": "Lean 4 theorems over a resource-ledger model of executor lifecycles (balanced after every lifecycle; repeat_n by induction) + real lifecycles run once and k times in fresh processes with fd/thread/child/semaphore counts compared",
        "text": ("PARTIAL. Ledger theorems (every number of workers): a released executor holds no fd / thread / child / semaphore of its own; every lifecycle (clean, kill, broken with any number of self-inflicted deaths, idle, dropped, unused, resized) ends released; the ledger equals the baseline except for one sentinel fd + one exit-lock semaphore per worker that died by itself, which the next process start clears (witness); children and threads are always balanced; counts after n+1 repetitions of any sequence = counts after one. Correspondence: 9 / 93 real sequences run once and k = 5 / 10 times in a fresh process; deltas at ctor / started / mid / end vs the ledger; oracle: k-vs-1 equality of fds, threads, children incl. zombies, named semaphores. The leak of workers started by _resize on a pool broken meanwhile (D16) was found by the E1 reuse runs and fixed."),
        "note": STD_NOTE + "Ledger entries are tied to code lines by reading (Ledger.lean); GC modelled as 'held while referenced'; the E1 step-by-step ledger comparison of DESIGN §5 is not built.",
    },
    "C01": {
        "engine": "E1", "design_ref": "§5 C01, §4", "drivers": ["exec_driver"],
        "technique": "Lean 4: operation-level model M1 of the executor (users, manager, feeder, workers; every lock/pipe/sentinel), kernel-checked witness schedules of the known hangs, lock-ownership invariant for all reachable states; lock-step correspondence of M1 with the real code under a deterministic scheduler + liveness oracle",
        "text": ("PARTIAL. The full property is false of the code and of the faithful model: theorems C01_witness_D4/D5/D7 prove, by kernel evaluation of concrete schedules of M1, reachable states where nothing can move while a future is unresolved or shutdown(wait=True) has not returned; the same schedules are replayed on the real code on every run (KNOWN-FINDING D4, D5, D7). "
                 "Proved for ALL reachable states (any workers/tasks/threads/schedule/time-outs/crashes): the processes-management lock is a mutex with an identified holder (value 0 iff held; at most one of {submitting thread in _adjust_process_count, manager in its pid/respawn/join sections, idle worker deciding to leave} inside); timed waits and try-locks always have an enabled step. "
                 "NOT yet proved: the composite no-stuck + termination-measure theorem outside the finding classes. "
                 "Decided on the real code each run: 1.6k (quick) / 4*10^4 (thorough) seeded schedules over 9 scenario families with the oracle 'at quiescence every future is done, every API call returned, no thread died, no livelock'; failures are attributed to a listed finding only if the stuck configuration satisfies that finding's predicate, anything else is a violation."),
        "note": STD_NOTE + E1NOTE,
    },
    "C02": {
        "engine": "E1+E2+E3", "design_ref": "§5 C02", "drivers": ["exec_driver", "killtree_driver"],
        "technique": "Lean 4 theorems over M1 (detection at wait, terminate_broken: flag, fail-all, kill loop) and over a model of kill_process_tree/exit-code naming; lock-step + crash-at-every-operation runs of the real executor code; differential and real-process runs of the kill tree",
        "text": ("Executor part - theorems over M1: a wait whose sentinel list contains a dead worker is enabled and, with no result/wake-up pending, can only continue to the TerminatedWorkerError path; the list waited on is the list of registered workers when the wait is announced; terminate_broken sets broken+shutdown under the lock, fails every pending non-cancelled future with the pool error and no other future (failAll_spec, any list of ids), a later submit raises without creating a future, the kill loop needs no other actor. "
                 "Whole-run clauses (every unresolved future fails / later submit raises the same object / all workers dead) are decided on the real code: 1.4k quick schedules with a crash variant at every worker operation, oracle C02 (+C03 no fabricated value). PARTIAL: liveness of detection is C01's; known findings D5, D7. "
                 "Kill-tree part - theorems (every finite forest): after kill_process_tree no subtree member runs, only members were signalled, children before parents, exit-code formatting; correspondence on 3.6k fake forests + 18 real trees (quick)."),
        "note": STD_NOTE + E1NOTE + "Kill tree: pgrep/psutil listings assumed complete, no fork during the call.",
    },
    "C03": {
        "engine": "E2+E1", "design_ref": "§5 C03", "drivers": ["chunks_driver", "exec_driver"],
        "technique": "Lean 4 theorems over a model of the chunking pipeline (map == builtin map for all chunk sizes/lengths/raising functions) and decision-logic theorems over M1 (work-id issue, cancel, dispatch, routing); differential run of the real map glue; lock-step + execution-log oracle on the real executor code",
        "text": ("Map part - theorems (all chunk sizes, any number of unbounded iterables, raising functions included): executor.map yields exactly what builtin map yields, in order, for every c >= 1; same exception after floor(k/c)*c items; chunks non-empty, concatenate to zip(*its), all but the last of size c; ValueError iff chunksize < 1. Correspondence 2*10^4 quick cases, oracle = builtin map. "
                 "Executor part - theorems over M1 (one step each, all states): submit issues a fresh id recorded once; cancel succeeds only on PENDING; a cancelled future is never dispatched; the call item carries its own id/task; a worker answers with the id it received; the manager resolves only that id and only while pending. PARTIAL: the whole-run at-most-once theorem (token accounting) is not proved yet; it is decided on the real code by the execution-log oracle (no duplicate body, none for a successfully cancelled future, value = own result) on 1.4k quick schedules incl. time-outs, respawns, leak exits, 2 submitting threads."),
        "note": STD_NOTE + E1NOTE + "concurrent.futures.Executor.map is represented as 'result i = _process_chunk(chunk i)'.",
    },
    "C04": {
        "engine": "E1", "design_ref": "§5 C04", "drivers": ["exec_driver"],
        "technique": "Lean 4 decision-logic theorems over M1 (feeder error path, exception results, result routing) + lock-step and containment oracle on the real executor code with real objects failing at pickling on the intended side",
        "text": ("Theorems over M1 (one step each, all states): an unpicklable / too-large call item never reaches the pipe; the feeder error path gives the slot back, forgets the id, fails exactly its own future, leaves flags alone; a raising body (any BaseException, unpicklable result/exception) yields an ordinary result item and the worker lives on; a result touches no flag. PARTIAL: 'pool never broken in death-free runs' awaits the announce-before-exit invariant. "
                 "Decided on the real code: 1.2k quick schedules of the contain family (every task kind at every position, callbacks that raise, full queues), oracle: own exception type/args/__cause__, PicklingError/RuntimeError for unsendable tasks, siblings correct, broken is None. Defect D10 (unpicklable exception killed the worker) was found and fixed (89540f7)."),
        "note": STD_NOTE + E1NOTE,
    },
    "C05": {
        "engine": "E1", "design_ref": "§5 C05", "drivers": ["exec_driver"],
        "technique": "Lean 4 decision-logic theorems over M1 (flagging, is_shutting_down condition, drain-before-join, sentinel count by induction) + lock-step and drain oracle on the real executor code",
        "text": ("Theorems over M1: shutdown/GC/exit only flag the pool under the lock and never mark it broken; the manager starts shutting down iff interpreter exit or (owner gone or shutdown) and not broken; it joins exactly when nothing is pending, else keeps serving; the flag step fails no future; submit afterwards raises without creating a future; shutdown_workers counts one sentinel per registered worker (induction over any worker list). PARTIAL: whole-run draining is decided on the real code (graceful family, 1.2k quick schedules: all pre-shutdown futures correct, exit codes 0 via handshake, threads ended, submit-after raises); known findings D4, D5, D7. Defect D3 (shutdown(wait=False) dropped what the respawn path needs) found and fixed (bb7ec29)."),
        "note": STD_NOTE + E1NOTE,
    },
    "C06": {
        "engine": "E1+E2+E3", "design_ref": "§5 C06", "drivers": ["exec_driver", "killtree_driver"],
        "technique": "Lean 4 theorems over M1 incl. an induction over the kill loop (completes on the manager's own steps for any number of workers) + lock-step, body-starving scheduler and explicit-failure oracle on the real code; kill-tree model and real trees",
        "text": ("Theorems over M1: shutdown(kill_workers=True) sets both flags under the lock; the manager then fails every unfinished non-cancelled future with ShutdownExecutorError, finished ones keep their outcome, nothing stays pending; C06_kill_loop_completes: for every number of registered workers the kill loop finishes in 2 manager steps per worker with no step of any other actor, leaving no worker registered and all of them dead ('time independent of the tasks' as a statement about who must move). "
                 "Real code: 1.2k quick schedules of the kill family, half under a scheduler that never lets a task body finish (the call must still return), oracle: no future P/R after the call returned, no survivor. Known findings D5, D7 (a worker SIGKILLed while holding a lock). Defect D2 (InvalidStateError on cancelled futures killed the manager) found and fixed (525269a). Kill-tree part as C02."),
        "note": STD_NOTE + E1NOTE,
    },
    "C07": {
        "engine": "E1", "design_ref": "§5 C07", "drivers": ["exec_driver"],
        "technique": "Lean 4 decision-logic theorems over M1 (where a time-out can fire, exit announced before exit, pid message is not a crash, respawn rule) + lock-step with time-outs firing at every enabled point on the real code",
        "text": ("Theorems over M1 (all states): a time-out variant exists only in the idle get (its lock, its poll) and the 30 s exit handshake, never while a call item is held or a body runs; a worker leaves on queue.Empty only if it gets the management lock without blocking; the pid message precedes the wait for the exit lock; a pid message leads the manager to un-register/join, not to the broken path; the respawn rule, and no respawn once the executor object is gone (D4). PARTIAL: 'never broken in runs whose only faults are time-outs' is decided on the real code (timeouts family, p_timeout up to 0.6, all workers at once; oracle broken is None, no BrokenProcessPool on any future, no lost/duplicated task) and awaits the announce-before-exit invariant. Defect D1 (stale sentinel list after all workers timed out) found and fixed (c7fc646)."),
        "note": STD_NOTE + E1NOTE,
    },
    "C08": {
        "engine": "E1", "design_ref": "§5 C08", "drivers": ["exec_driver"],
        "technique": "Lean 4 inductive invariants over all reachable states of M1 (mutual exclusion of the management lock with ghost owner; registered workers <= max_workers) + lock-step, per-step counting oracle and saturation runs on the real code",
        "text": ("Theorems for EVERY reachable state of M1 (any max_workers, tasks, threads, schedule, time-outs, crashes): registered workers <= max_workers (C08_registered_le); a thread committed to a spawn has re-checked the bound and still has room; spawners are mutually exclusive (at most one holder of the management lock, identified); the lock is binary. "
                 "Real code: 1.4k quick schedules, oracle at every step len(_processes) <= max_workers and executing bodies <= max_workers; delivery clause: saturate family under a scheduler that never finishes a body - when nothing else can move exactly min(max_workers, submitted) bodies execute. Not covered by M1: resizes (max_workers constant in the model); executing <= max as a theorem."),
        "note": STD_NOTE + E1NOTE,
    },
    "C11": {
        "engine": "E2", "design_ref": "§5 C11", "drivers": ["tracker_driver"],
        "technique": "Lean 4 theorems over an implementation-shaped model of the resource tracker's main(fd) loop refined to the one-line counter bal + differential correspondence against the real main(fd) run in a forked child on generated byte streams + a reference counter written from the statement",
        "text": ("Theorems (every finite byte stream, every ASCII name incl. ':' / blanks / empty, three resource types, every behaviour of the clean-up functions): the registry's count of every key equals bal = registrations minus accepted maybe_unlinks since the last unregister and every stored count is >= 1; a clean-up of (k,n) happens at a request iff it is MAYBE_UNLINK k n with bal = 1 before it, at most once per request, never while the count stays positive, never after an unregister, at most once between two registrations, exactly once over the tracker's life for a key left tracked; the sweep destroys exactly the keys with bal > 0, once each, folders after all other kinds; every malformed line and every request on an untracked key is reported, changes nothing and can be deleted from the stream; a request touches no other key; cmd:a:b:c:rtype parses to the name a:b:c. "
                 "Correspondence: the real main(fd) in a forked child reading a real pipe, clean-up functions / excepthook / warnings replaced by recorders, effects attributed per request and registry counts observed at every readline(), vs the compiled model on 67 corpus + 5*10^3 (quick) / 10^5 (thorough) generated streams, plus an independent reference-counter oracle. Defect D11 (two-field line executed on the empty name) found and fixed (649f3a0)."),
        "note": STD_NOTE + "Modelled, not verified: the clean-up functions themselves are parameters; verbose=0; POSIX table folder/file/semlock; client-side <=512-byte atomic writes not modelled.",
    },
    "C18": {
        "engine": "E2+E3+E1", "design_ref": "§5 C18", "drivers": ["spawn_driver", "exec_driver"],
        "technique": "Lean 4 theorems over a model of the LokyProcess launch (fd keep-list, env overlay, wait-status decoding, main-module decision) and an inductive invariant over M1 (initializer before any task on every spawn path); differential + real-process correspondence of the launch; lock-step and initializer oracle on the real executor code",
        "text": ("Launch part - theorems (all descriptor tables, numberings, inheritable flags; all environments; all wait statuses; all parent mains): child fds = {0,1,2} U keep with keep exactly what _launch collects; no descriptor outside keep reaches the child; child env k = overlay k else parent k, empty values kept; exit code n -> n, signal s -> -s; 'loky' ships no main-module key and never re-runs __main__. Correspondence (quick): 65 536 statuses through Popen.poll, 1.4k env/keep cases, 700 real _launch runs, 28 real scenarios / 53 children observed through /proc. "
                 "Executor part - theorem for EVERY reachable state of M1 with an initializer configured: a worker that fetches, holds or runs a call item, sends a result or announces its exit has completed the initializer (initial, re-spawned after time-out or memory-leak exit alike - one spawn path); an initializer failure ends the worker without announcement, i.e. breaks the pool. Real code: init family, oracle 'every worker in the execution log is in the initializer log, once, with the configured args'."),
        "note": STD_NOTE + E1NOTE + "Assumed: _posixsubprocess.fork_exec(close_fds=True, pass_fds) semantics (executed for real in E3), Linux W* encoding. Resizes are executed by E1 (reuse family is in C19's part) but are outside M1.",
    },
    "C19": {
        "engine": "E2+E1", "design_ref": "§5 C19", "drivers": ["depth_driver"],
        "technique": "Lean 4 theorems over a model of _check_max_depth and depth shipping (chains of nested creations by induction) + differential correspondence on the real guard, constructor, spawn arguments and worker start-up; spawn-argument oracle on every spawn path of the real executor under E1",
        "text": ("Theorems (all integers MAX_DEPTH, all depths, all start methods, chains of any length): creation succeeds iff (not fork or d = 0) and (MAX <= 0 or d < MAX), otherwise LokyRecursionError; workers get exactly d+1; level i of any chain is created at depth i; no chain gets deeper than MAX and without fork depth MAX is reached exactly; fork never deeper than 1; default 10. Correspondence: real _check_max_depth, constructor + _adjust_process_count + _process_worker on a recording context over the full grid MAX -3..12 x d 0..14 x 5 start methods plus 6*10^3 generated cases; error => zero Process objects created. "
                 "E1 part: on 800 quick schedules with time-outs, leak exits, respawns and get_reusable_executor resizes, every simulated worker - whichever path spawned it - was started with current_depth = parent + 1."),
        "note": STD_NOTE + "MAX_DEPTH equal in the whole tree; the int()/malformed classification of the env string is done by the harness. " + E1NOTE,
    },
    "C16": {
        "engine": "E2", "design_ref": "§5 C16", "drivers": ["wrapper_driver"],
        "technique": "Lean 4 theorems over an algebraic model of the cloudpickle wrappers (reduce/rebuild with cloudpickle's round trip as a parameter) + differential correspondence against the real wrappers on generated objects",
        "text": ("Theorems (every object, every stack of wrappers, both keep_wrapper values, any number of round trips): a pickle round trip of a wrapper is the code's __reduce__/_reconstruct_wrapper pair and yields rt(x) if not keep_wrapper else a fresh wrapper of rt(x) with the same flag; by induction wrapped for ever / unwrapped after the first trip (exactly the keep=True layers of a stack survive); callable iff the object is, calls forwarded, attribute reads forwarded for every name that is neither type-level nor _obj/_keep_wrapper; behaviour preserved after any number of trips given a behaviour-preserving cloudpickle; instances made through a wrapped class obey the same rules (full strength after fix 22b6807). Witness theorem for D12 (_obj/_keep_wrapper shadowed). "
                 "Correspondence: 2*10^4 (quick) generated cases - lambdas, closures, nested, recursive, dynamic-__main__/unimportable-module functions, callable (own/inherited __call__) and non-callable instances, classes with positional/keyword constructor arguments, 1-2 wrapper layers, 0-3 plain-pickle round trips - layer kinds/flags, callable(), call results on 5 sample argument lists, attribute reads and the number of cloudpickle trips vs the compiled model; oracle from the statement compares every stage with the original object."),
        "note": STD_NOTE + "Modelled, not verified: cloudpickle itself (parameter rt, hypothesis Faithful); call behaviour is one opaque token observed on sample arguments; type-level names (__class__, __doc__, ...) are outside 'attribute reads'; after arriving unwrapped further trips use cloudpickle; _wrap_objects_when_needed/WRAP_CACHE not covered. Known finding D12.",
    },
    "C15": {
        "engine": "E2+E1", "design_ref": "§5 C15", "drivers": ["pickle_driver"],
        "technique": "Lean 4: heap-cell model of dispatch tables (copy vs alias explicit) with a frame theorem over API histories + reducer algebra with a whole-graph round-trip theorem; differential run against the real reduction/queues/executor code with registry snapshots",
        "text": ("Part pickle - theorems (all registry contents, all reducer maps, all histories of set_loky_pickler / pickler creation / instance register / dumps / queue creation+put / executor creation, both back-ends): table of CustomizablePickler(reducers) = user over loky over (cloudpickle over) copyreg, built in a fresh dict; no history changes copyreg.dispatch_table, cloudpickle's table or loky's registry; a pickler's table depends only on the registries, the back-end at its creation and its own reducers; queues pickle with their own reducers; result_reducers=None means the job reducers; _reduce_partial/_reduce_method/_reduce_method_descriptor round-trip every well-formed graph of partials, bound methods, class methods and descriptors to itself. Correspondence: 2*10^4 (quick) cases on the real code - API histories with marker reducers installed in all three registries (every overlay order), observing the real pickler's table, the reducer actually used per probe instance and registry snapshots; loads(dumps(x)) structure and call-result behaviour for generated graphs through dumps and SimpleQueue, both back-ends. "
                 "The clause 'the pickler selected when a task is submitted is the one its worker uses' has no theorem: it is decided on the real executor code by the E1 oracle (500 quick schedules with set_loky_pickler calls between submissions, dispatch and completion; the name in force inside each task body must be the one current at its submit). Defect D9 (name recorded at dispatch) was found that way and fixed (1b92ca6)."),
        "note": STD_NOTE + "pickle/cloudpickle trusted (table consulted for the probe types); methods reachable under their __name__; a partial's instance __dict__ is outside the property; POSIX registry; executors are constructed with a fork context and no worker is started in this part.",
    },
    "C17": {
        "engine": "E2", "design_ref": "§5 C17", "drivers": ["cpucount_driver"],
        "technique": "Lean 4 theorems over a model of cpu_count (closed formula, ≥1, physical-core cache automaton: at most one warning) + differential correspondence against the real function",
        "text": ("Theorems (all configurations, unbounded integers, any sequence of calls): cpu_count = max 1 (min OS (min affinity (min cgroup override))), "
                 "cgroup term = exact ceiling of quota/period iff both positive, result ≥ 1, only_physical_cores rules, at most one warning over any call sequence. "
                 "Correspondence: real cpu_count() with os/open/environ/probe substituted vs the compiled model on 3·10^4 (quick) boundary-biased call sequences, "
                 "plus an oracle written from the statement (exact rational ceiling)."),
        "note": STD_NOTE + "Modelled, not verified: float math.ceil(q/p) replaced by the exact ceiling (equal for quota < 2^46); only the Linux branch; _count_physical_cores_linux (lscpu parsing) is a parameter.",
    },
}
NOT_YET = {}
