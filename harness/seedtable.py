#!/usr/bin/env python3
"""harness/seedtable.py — markdown table of the seeded changes under /verif/seeded (from each meta.json)"""
import json, os
ROOT = os.path.dirname(os.path.dirname(os.path.abspath(__file__)))
rows = []
for sid in sorted(os.listdir(os.path.join(ROOT, "seeded"))):
    m = json.load(open(os.path.join(ROOT, "seeded", sid, "meta.json")))
    det = []
    for k, v in sorted(m.get("detection", {}).items()):
        if not isinstance(v, dict):
            continue
        if v.get("rc") == 0:
            det.append(f"{k}: missed")
        elif v.get("rc") == 1:
            what = (v.get("what") or [""])[0]
            what = what.split(":")[0] if what.startswith("correspondence") else what[:70]
            det.append(f"{k}: {'failing input' if v.get('failing_input') else 'no-failing-input-found'} ({what})")
        else:
            det.append(f"{k}: rc={v.get('rc')}")
    change = m.get("change", "").replace("|", "/")
    for pre in ("SEED/1 — ", "SEED/2 — ", "SEED/3 — ", "SEED 1 — ", "SEED 2 — ", "SEED 3 — ", "Seed 1 — ", "Seed 2 — ", "Seed 3 — ",
                "Seed 1 – ", "Seed 2 – ", "Seed 3 – "):
        change = change.replace(pre, "")
    rows.append(f"| {sid} | {change[:110]} | {'; '.join(det).replace('|', '/')} |")
table = ("| seed | change (see seeded/<id>/NOTE.md) | outcome of the checks (quick tier, seed 0) |\n|---|---|---|\n"
         + "\n".join(rows))
import sys
if "--design" in sys.argv:
    p = os.path.join(ROOT, "DESIGN.md")
    d = open(p).read()
    a, b = d.index("<!-- SEEDTABLE:BEGIN -->"), d.index("<!-- SEEDTABLE:END -->")
    open(p, "w").write(d[:a] + "<!-- SEEDTABLE:BEGIN -->\n" + table + "\n" + d[b:])
else:
    print(table)
