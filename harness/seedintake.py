#!/usr/bin/env python3
"""harness/seedintake.py <Cxx> <first n> [--out /tmp/seedout/Cxx] [--no-tests]

Intake of a sub-agent's seeded changes: <out>/seed<k>.diff, demo<k>.py, note<k>.md (k = 1, 2, ...) are confirmed in a
scratch worktree of /repo at HEAD (never in /repo): the patch applies and touches only loky/ sources, the demo exits 0
on the clean tree and non-zero with the patch, the test files that exercise the touched modules pass with the patch
(the two tests that fail on the clean tree already are deselected).  Confirmed changes are filed as
/verif/seeded/<Cxx>-s<n>, <n+1>, ... (patch.diff, demo.py, NOTE.md, meta.json with the confirmation record)."""
import json, os, re, shutil, subprocess, sys, tempfile

ROOT = os.path.dirname(os.path.dirname(os.path.abspath(__file__)))
pid, n0 = sys.argv[1], int(sys.argv[2])
out = f"/tmp/seedout/{pid}"
run_tests = True
args = sys.argv[3:]
while args:
    if args[0] == "--out":
        out = args[1]; args = args[2:]
    elif args[0] == "--no-tests":
        run_tests = False; args = args[1:]
    else:
        raise SystemExit(__doc__)
PY = "/venv/bin/python"
LIGHT = ["tests/test_resource_tracker.py", "tests/test_synchronize.py", "tests/test_loky_backend.py", "tests/test_loky_module.py",
         "tests/test_cloudpickle_wrapper.py", "tests/test_futures.py"]
HEAVY = ["tests/test_reusable_executor.py", "tests/test_process_executor_loky.py", "tests/test_worker_timeout.py"]
DESEL = ["--deselect", "tests/test_reusable_executor.py::TestTerminateExecutor::test_sigkill_shutdown_leaks_workers",
         "--deselect", "tests/test_loky_module.py::test_cpu_count_cgroup_limit"]


def sh(cmd, cwd=None, env=None, timeout=None):
    try:
        r = subprocess.run(cmd, cwd=cwd, env=env, capture_output=True, text=True, timeout=timeout)
        return r.returncode, (r.stdout + r.stderr)
    except subprocess.TimeoutExpired as e:
        return 124, f"timeout after {timeout}s"


def demo(wt, path):
    env = dict(os.environ, PYTHONPATH=wt)
    rc, o = sh(["timeout", "300", PY, path], cwd=wt, env=env, timeout=330)
    last = [l for l in o.strip().splitlines() if l.strip()][-1:] or [""]
    return rc, last[0][:200]


k = 1
n = n0
os.makedirs("/tmp/mut", exist_ok=True)
while os.path.exists(os.path.join(out, f"seed{k}.diff")):
    patch, dm, note = (os.path.join(out, f) for f in (f"seed{k}.diff", f"demo{k}.py", f"note{k}.md"))
    sid = f"{pid}-s{n}"
    touched = re.findall(r"^\+\+\+ b/(\S+)", open(patch).read(), re.M)
    rec = {"touched": touched}
    ok = bool(touched) and all(t.startswith("loky/") for t in touched)
    if not ok:
        print(f"{sid}: REJECTED: patch touches {touched}")
        k += 1
        continue
    wt = tempfile.mkdtemp(prefix="in.", dir="/tmp/mut"); os.rmdir(wt)
    subprocess.run(["git", "-C", "/repo", "worktree", "add", "-q", "--detach", wt, "HEAD"], check=True)
    try:
        d = os.path.join(wt, "_demo.py")
        shutil.copy(dm, d)
        clean = [demo(wt, d) for _ in range(2)]
        rc, o = sh(["git", "-C", wt, "apply", patch])
        if rc != 0:
            print(f"{sid}: REJECTED: patch does not apply to HEAD: {o.strip()[:200]}")
            k += 1
            continue
        rc, o = sh([PY, "-c", "import loky, loky.backend, loky.reusable_executor, loky.cloudpickle_wrapper; print(loky.__file__)"],
                   cwd=wt, env=dict(os.environ, PYTHONPATH=wt))
        rec["imports"] = rc == 0 and wt in o
        patched = [demo(wt, d) for _ in range(2)]
        rec["demo_clean"] = clean
        rec["demo_patched"] = patched
        ok = rec["imports"] and all(c[0] == 0 for c in clean) and all(p[0] != 0 for p in patched)
        if ok and run_tests:
            files = list(LIGHT)
            if any(t.endswith(x) for t in touched for x in ("process_executor.py", "reusable_executor.py", "queues.py", "_base.py",
                                                            "initializers.py", "utils.py", "process.py", "popen_loky_posix.py",
                                                            "fork_exec.py", "reduction.py")):
                files += HEAVY
            os.remove(d)
            rc, o = sh([PY, "-m", "pytest", "-q", "-p", "no:cacheprovider", "--timeout=900"] + files + DESEL, cwd=wt,
                       env=dict(os.environ, PYTHONPATH=wt), timeout=3600)
            tail = [l for l in o.strip().splitlines() if re.search(r"passed|failed|error", l)][-1:] or [o.strip()[-200:]]
            rec["tests"] = {"files": files, "rc": rc, "summary": tail[0][:200]}
            if rc != 0:
                rec["tests"]["failed"] = re.findall(r"^(?:FAILED|ERROR) (\S+)", o, re.M)[:10]
            ok = rc == 0
        rec["confirmed"] = ok
    finally:
        subprocess.run(["git", "-C", "/repo", "worktree", "remove", "--force", wt])
    if not ok:
        print(f"{sid}: NOT CONFIRMED: {json.dumps(rec)[:600]}")
        k += 1
        continue
    dst = os.path.join(ROOT, "seeded", sid)
    os.makedirs(dst, exist_ok=True)
    shutil.copy(patch, os.path.join(dst, "patch.diff"))
    shutil.copy(dm, os.path.join(dst, "demo.py"))
    txt = open(note).read() if os.path.exists(note) else ""
    shutil.copy(note, os.path.join(dst, "NOTE.md")) if txt else None
    title = (txt.strip().splitlines() or [""])[0].lstrip("# ").strip()
    m = re.search(r"(?:needs?(?: to manifest)?|what it needs)[^\n:]*:\**\s*(.*?)(?:\n\s*\n|\n\s*[\*-] \*\*|\n\*\*|\n#)", txt, re.S | re.I)
    meta = {"id": sid, "property": pid, "change": title[:200], "round": 2,
            "needs_to_manifest": (m.group(1).strip().replace("\n", " ")[:600] if m else "see NOTE.md"),
            "author": "fresh sub-agent given only the property text and a scratch worktree",
            "confirmed": rec, "detection": {}}
    json.dump(meta, open(os.path.join(dst, "meta.json"), "w"), indent=1)
    print(f"{sid}: confirmed and filed ({title[:90]}); tests: {rec.get('tests', {}).get('summary')}")
    n += 1
    k += 1
