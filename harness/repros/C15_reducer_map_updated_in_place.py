"""Finding (C15, unchanged tree, minor) on real processes: `get_reusable_executor` stores the caller's `job_reducers` dict
itself in `_executor_kwargs` and in the call queue.  When the caller updates that dict *in place* and asks again with it,
`kwargs == _executor_kwargs` compares the dict with itself -> "same arguments" -> the executor is reused.  The feeder thread
pickles the tasks with the updated dict (same object), but every worker holds the copy of the reducers it got at spawn:
results (result_reducers default to the job reducers) are still pickled with the *old* reducer.

Property C15: the reducers of a request change exactly the pickling of that executor's tasks, respectively results.
Exit 1 when tasks and results of the second request were pickled with different reducers, 0 otherwise.
Run with PYTHONPATH=<checkout of loky>:/verif ."""
import os
import sys

sys.path.insert(0, os.path.dirname(os.path.dirname(os.path.dirname(os.path.abspath(__file__)))))
from harness.realproc import c15_member as M  # noqa: E402

if __name__ == "__main__":
    from loky import get_reusable_executor
    r1, r2 = M.make_reducer("closure", 1), M.make_reducer("closure", 2)
    d = {M.P0: r1}
    ex = get_reusable_executor(max_workers=1, job_reducers=d)
    a = ex.submit(M.probe, M.payload()).result(timeout=120)
    print("request 1 {P0: r1}: task arguments pickled by", a["seen"][0], "- results by", M.tag(a["back"][0]))
    d[M.P0] = r2                       # the caller updates its reducer map in place
    ex2 = get_reusable_executor(max_workers=1, job_reducers=d)
    b = ex2.submit(M.probe, M.payload()).result(timeout=120)
    print("request 2 {P0: r2}: task arguments pickled by", b["seen"][0], "- results by", M.tag(b["back"][0]),
          "(executor", "reused)" if ex2 is ex else "replaced)")
    ex2.shutdown(wait=True)
    sys.stdout.flush()
    os._exit(0 if b["seen"][0] == M.tag(b["back"][0]) == str(M.beh_of("closure", 2)) else 1)
