"""D26 (listed, not fixed) on real processes: a done-callback - it runs in the executor manager thread - calls
get_reusable_executor() with a different max_workers while another job is still in flight.  _resize() first waits for
the pending jobs to complete (`_wait_job_completion` polls `_pending_work_items`), but the only thread that can process
their results is the one that is waiting: the callback never returns, the other future never resolves, and the global
executor lock stays held (every later get_reusable_executor() blocks too).  Prints 'NOT resolved' and exits 1 on the
current tree.  Run with PYTHONPATH=<checkout of loky>."""
import time, os, sys, threading
from loky import get_reusable_executor
e = get_reusable_executor(max_workers=2, timeout=100)
done = []
def cb(f):
    get_reusable_executor(max_workers=3, timeout=100)
    done.append(1)
f1 = e.submit(time.sleep, 0.5); f2 = e.submit(time.sleep, 2)
f1.add_done_callback(cb)
try:
    f2.result(timeout=15); print("f2 resolved; callback returned:", bool(done))
    rc = 0
except Exception as ex:
    print("f2 NOT resolved after 15 s:", type(ex).__name__, "; callback returned:", bool(done)); rc = 1
sys.stdout.flush(); os._exit(rc)
