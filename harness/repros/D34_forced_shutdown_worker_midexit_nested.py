"""PRISTINE probe: forced shutdown while a worker is mid-exit (idle timeout)
and is itself waiting for a nested executor to drain."""
import os, sys, time, threading
os.environ["PYTHONWARNINGS"] = "ignore::UserWarning"
import psutil
import loky
from loky import ProcessPoolExecutor
from loky.process_executor import ShutdownExecutorError

NESTED = 25
_keep = []

def slow(t):
    time.sleep(t); return os.getpid()

def outer_task(t):
    e = ProcessPoolExecutor(max_workers=1)
    _keep.append((e, e.submit(slow, t)))   # fire and forget
    time.sleep(0.5)
    return os.getpid(), list(e._processes)

if __name__ == "__main__":
    print(loky.__file__)
    ex = ProcessPoolExecutor(max_workers=1, timeout=1)
    wpid, nested = ex.submit(outer_task, NESTED).result()
    print("worker", wpid, "nested worker", nested)
    time.sleep(3)   # the idle worker times out and starts exiting
    t0 = time.time()
    th = threading.Thread(target=ex.shutdown, kwargs=dict(wait=True, kill_workers=True), daemon=True)
    th.start(); th.join(12)
    dt = time.time() - t0
    alive = [p for p in [wpid] + nested if psutil.pid_exists(p)]
    print(f"shutdown(kill_workers=True) {'BLOCKED after' if th.is_alive() else 'returned in'} {dt:.1f}s; still existing: {alive}")
    bad = th.is_alive() or alive
    for p in [wpid] + nested:
        try: os.kill(p, 9)
        except OSError: pass
    print("FAIL (pristine violates C06 here)" if bad else "OK")
    sys.stdout.flush()
    os._exit(1 if bad else 0)
