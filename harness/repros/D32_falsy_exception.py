"""D32 (C04, fixed): a task raising an exception object that is falsy (e.g. one defining __len__ -> 0).
Before the fix the manager thread tested `if result_item.exception:` and resolved the future with the RESULT None;
now the future holds the exception (Future.exception() returns it).  NB: concurrent.futures.Future.result() of
CPython <= 3.12 tests the truth value of the stored exception too, so .result() still returns None there - that part is
the standard library's."""
import sys
from loky import get_reusable_executor


class Falsy(ValueError):
    def __len__(self):
        return 0


def boom():
    raise Falsy("no luck")


if __name__ == "__main__":
    ex = get_reusable_executor(max_workers=1)
    f = ex.submit(boom)
    e = f.exception(timeout=30)
    ok = isinstance(e, Falsy)
    print("OK: the future holds the task's exception" if ok else f"FAIL: future.exception() is {e!r}")
    ex.shutdown(wait=True)
    sys.exit(0 if ok else 1)
