"""C04 - scenarios in which the PRISTINE tree already violates the property.

Run from the worktree root: PYTHONPATH=<worktree> /venv/bin/python pristine_violations.py
Prints one block per scenario; final line `VIOLATIONS: n/3`; exit code 1 if any.

 falsy    a task raises an exception whose truth value is False (defines
          __len__ -> 0 or __bool__ -> False): process_result_item tests
          `if result_item.exception:` so the future gets *result None* instead
          of the exception (loky/process_executor.py, process_result_item).
 twoargs  a task raises an exception whose constructor does not accept
          `self.args` (class E(Exception): def __init__(self, a, b):
          super().__init__(a)): it pickles in the worker, but unpickling in
          the manager thread raises TypeError -> "A result has failed to
          un-serialize" -> BrokenProcessPool for every future.
 badres   the result cannot be pickled and the error raised by its __reduce__
          cannot be pickled either (ValueError(threading.Lock())): the
          fallback put in _sendback_result raises, the worker dies ->
          TerminatedWorkerError for every future, pool broken.
"""
import os
import sys
import signal
import threading

import loky
from loky.process_executor import ProcessPoolExecutor


class FalsyError(Exception):
    def __len__(self):
        return 0


class TwoArgs(Exception):
    def __init__(self, a, b):
        super().__init__(a)
        self.b = b


class BadRes:
    def __reduce__(self):
        raise ValueError(threading.Lock())


def task(kind):
    if kind == "falsy":
        raise FalsyError("x")
    if kind == "twoargs":
        raise TwoArgs(1, 2)
    if kind == "badres":
        return BadRes()


def ident(x):
    return x


def outcome(f):
    try:
        return ("result", f.result(30))
    except BaseException as e:
        return ("exc", type(e).__name__)


print("loky imported from", loky.__file__)
n_bad = 0
for kind, own in [
    ("falsy", "FalsyError"),
    ("twoargs", "TwoArgs"),
    ("badres", None),  # any exception on the own future is acceptable
]:
    ex = ProcessPoolExecutor(max_workers=2)
    ex.submit(ident, 0).result(30)
    f = ex.submit(task, kind)
    g = ex.submit(ident, 5)
    of, og = outcome(f), outcome(g)
    broken = ex._flags.broken
    try:
        fresh = outcome(ex.submit(ident, 7))
    except BaseException as e:
        fresh = ("submit raised", type(e).__name__)
    bad = (
        of[0] != "exc"
        or (own is not None and of[1] != own)
        or og != ("result", 5)
        or broken is not None
        or fresh != ("result", 7)
    )
    n_bad += bad
    print(
        f"{kind}: own future -> {of}; sibling -> {og}; broken="
        f"{type(broken).__name__}; fresh submit -> {fresh}  "
        f"{'VIOLATION' if bad else 'ok'}"
    )
    pids = list(ex._processes or {})
    t = threading.Thread(
        target=ex.shutdown, kwargs=dict(kill_workers=True), daemon=True
    )
    t.start()
    t.join(20)
    for pid in pids:
        try:
            os.kill(pid, signal.SIGKILL)
        except OSError:
            pass

print(f"VIOLATIONS: {n_bad}/3")
sys.stdout.flush()
os._exit(1 if n_bad else 0)
