"""Pristine-tree scenario: reusable executor with max_workers > 2*cpu_count()+1.

The call queue of the reusable executor has capacity 2*cpu_count()+1, which
does not depend on max_workers.  With LOKY_MAX_CPU_COUNT=2 (capacity 5) and
max_workers=8, 8 long tasks submitted at once: only 5 enter the call queue
before it is "full"; the manager thread is not woken when the workers drain
it, so only 5 tasks run simultaneously although 8 workers are alive.
"""
import os, sys, time, tempfile, glob
os.environ["LOKY_MAX_CPU_COUNT"] = "2"
import loky
from loky import get_reusable_executor

def task(d, i, dur):
    import os, time
    open(os.path.join(d, f"start-{i}"), "w").close()
    time.sleep(dur)
    return i

if __name__ == "__main__":
    N = 8
    d = tempfile.mkdtemp()
    ex = get_reusable_executor(max_workers=N, timeout=100)
    ex.submit(int).result()  # warm up: all N workers are up
    time.sleep(1)
    assert len(ex._processes) == N
    futs = [ex.submit(task, d, i, 6) for i in range(N)]
    time.sleep(3)
    started = len(glob.glob(os.path.join(d, "start-*")))
    print("workers", len(ex._processes), "tasks started simultaneously", started)
    ex.shutdown(kill_workers=True)
    if started == N:
        print("OK")
    else:
        print(f"FAIL only {started}/{N} tasks run at once")
        sys.exit(1)
