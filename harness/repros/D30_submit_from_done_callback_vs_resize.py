"""Pristine-tree scenario: a done-callback of an in-flight task submits a new
task while another thread shrinks the executor."""
import os, sys, threading, time, signal, warnings
warnings.simplefilter("ignore")
from loky import get_reusable_executor


def main():
    ex = get_reusable_executor(max_workers=2, timeout=None)
    list(ex.map(int, range(4)))
    pids = list(ex._processes)
    f = ex.submit(time.sleep, 0.5)
    f.add_done_callback(lambda fut: ex.submit(int, 1))
    done = threading.Event()

    def resize():
        get_reusable_executor(max_workers=1, timeout=None)
        done.set()

    t = threading.Thread(target=resize, daemon=True)
    t.start()
    ok = done.wait(8)
    import faulthandler; faulthandler.dump_traceback() if not ok else None
    print("resize returned:", ok, "processes:", list(ex._processes))
    sys.stdout.flush()
    for pid in pids:
        try:
            os.kill(pid, signal.SIGKILL)
        except OSError:
            pass
    print("OK" if ok else "FAIL: resize did not return within 8s")
    sys.stdout.flush()
    os._exit(0 if ok else 1)


if __name__ == "__main__":
    main()
