"""PRISTINE finding 4 (C07, unusual input): in `_process_worker` the
`except queue.Empty` around `call_queue.get(...)` also covers the
*unpickling* of the call item.  A task whose arguments raise `queue.Empty`
while being unpickled in the worker is taken for an idle timeout: the worker
"times out" while holding a task, leaves cleanly, and the task is silently
lost (no exception set on the future, executor not broken).

Run: PYTHONPATH=<worktree> /venv/bin/python pristine4_unpickle_raises_empty.py
"""
import queue
import warnings

from _pristine_common import finish, start_watchdog
from loky import ProcessPoolExecutor


def _raise_empty():
    raise queue.Empty()


class Odd:
    def __reduce__(self):
        return _raise_empty, ()


if __name__ == "__main__":
    start_watchdog()
    warnings.simplefilter("ignore")
    e = ProcessPoolExecutor(1, timeout=5)
    e.submit(id, 1).result(timeout=30)
    f = e.submit(id, Odd())
    try:
        f.result(timeout=15)
    except TimeoutError:
        finish(
            True,
            f"task silently lost; broken={e._flags.broken!r}, "
            f"pending={list(e._pending_work_items)}",
        )
    except BaseException as ex:
        finish(False, f"task failed with {type(ex).__name__} (reported)")
    finish(False, "task completed")
