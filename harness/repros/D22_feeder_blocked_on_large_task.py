"""D22 (fixed in /repo) on real processes: a task whose pickled arguments are larger than the pipe buffer is queued
behind a busy worker; the worker is killed; the pool breaks and kills/joins everything; the executor is shut down and
released.  Before the fix the queue feeder thread stayed blocked for ever in the middle of `send_bytes` (the parent
still held the read end of the call pipe, so the write never failed) and pinned the call queue: +1 thread, +2 file
descriptors, +3 named semaphores per lifecycle (exit 1).  With the fix (the manager closes the read end once the
workers are killed, as CPython does since gh-94777, the blocked write gets EPIPE and the thread ends) the counts after
four lifecycles equal those after one (exit 0).  Run with PYTHONPATH=<checkout of loky>."""
import gc, os, signal, sys, threading, time
from loky.process_executor import ProcessPoolExecutor


def counts():
    gc.collect()
    return {"fds": len(os.listdir("/proc/self/fd")), "threads": threading.active_count(),
            "sems": len([f for f in os.listdir("/dev/shm") if f.startswith(f"sem.loky-{os.getpid()}-")])}


def lifecycle():
    e = ProcessPoolExecutor(max_workers=1)
    f1 = e.submit(time.sleep, 100)
    time.sleep(0.5)
    f2 = e.submit(len, b"x" * 5_000_000)       # the feeder blocks in the middle of this send
    time.sleep(0.5)
    os.kill(list(e._processes)[0], signal.SIGKILL)
    for f in (f1, f2):
        try:
            f.result(timeout=30)
        except Exception:
            pass
    e.shutdown(wait=True)


lifecycle(); time.sleep(1)
first = counts()
for _ in range(3):
    lifecycle(); time.sleep(1)
last = counts()
print("after 1 lifecycle:", first, "after 4:", last, [t.name for t in threading.enumerate()])
sys.stdout.flush()
os._exit(0 if first == last else 1)
