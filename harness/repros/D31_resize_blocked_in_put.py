"""Pristine-tree scenario: shrink by more workers than the call queue can hold
sentinels (queue size = 2 * cpu_count() + 1), a worker dies while _resize is
blocked in call_queue.put(None) with the processes management lock held."""
import os
os.environ["LOKY_MAX_CPU_COUNT"] = "1"   # call queue of the reusable executor: 3 slots
import sys, threading, time, signal, warnings, faulthandler
warnings.simplefilter("ignore")
from loky import get_reusable_executor


def main():
    ex = get_reusable_executor(max_workers=8, timeout=None)
    list(ex.map(int, range(16)))
    pids = list(ex._processes)
    assert len(pids) == 8 and ex._call_queue._maxsize == 3
    for pid in pids:            # make the workers slow to pick the sentinels
        os.kill(pid, signal.SIGSTOP)
    done = threading.Event()

    def resize():
        get_reusable_executor(max_workers=1, timeout=None)
        done.set()

    t = threading.Thread(target=resize, daemon=True)
    t.start()
    time.sleep(0.5)             # _resize is now blocked on the 4th put(None)
    os.kill(pids[0], signal.SIGKILL)   # a worker dies
    ok = done.wait(10)
    if not ok:
        faulthandler.dump_traceback()
    for pid in pids:
        try:
            os.kill(pid, signal.SIGKILL)
        except OSError:
            pass
    print("OK" if ok else "FAIL: get_reusable_executor did not return within 10s")
    sys.stdout.flush()
    os._exit(0 if ok else 1)


if __name__ == "__main__":
    main()
