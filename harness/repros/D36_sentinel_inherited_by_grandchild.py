"""Pristine-tree probe: the task of a worker started a child process that
inherited the worker's file descriptors (os.fork / subprocess with
close_fds=False).  The worker is then SIGKILLed while running a task.

The write end of the sentinel pipe is an inheritable fd left open in the
worker for its whole life, so the orphan keeps the sentinel "not ready" and
the death of the worker goes unnoticed for as long as the orphan lives.
"""
import os
import sys
import time
import signal
import subprocess

import loky
from loky.process_executor import ProcessPoolExecutor, BrokenProcessPool


def spawn_child_then_sleep():
    p = subprocess.Popen(["sleep", "40"], close_fds=False)
    return p.pid


def sleeper(t):
    time.sleep(t)
    return os.getpid()


def main():
    print("loky from", loky.__file__)
    ex = ProcessPoolExecutor(max_workers=1, timeout=None)
    orphan = ex.submit(spawn_child_then_sleep).result(timeout=30)
    (wpid,) = list(ex._processes)
    f = ex.submit(sleeper, 1000)
    time.sleep(0.5)
    os.kill(wpid, signal.SIGKILL)
    try:
        try:
            f.result(timeout=10)
            verdict = "FAIL future got a value"
        except BrokenProcessPool as e:
            verdict = "OK future failed with " + type(e).__name__
        except TimeoutError:
            verdict = (
                "FAIL future still pending 10 s after the SIGKILL of the "
                f"worker (broken flag: {ex._flags.broken!r})"
            )
    finally:
        for pid in (orphan, wpid):
            try:
                os.kill(pid, signal.SIGKILL)
            except OSError:
                pass
    print(verdict)
    sys.stdout.flush()
    os._exit(0 if verdict.startswith("OK") else 1)


if __name__ == "__main__":
    main()
