"""PRISTINE finding: a kill_workers=True request is silently undone by a later
plain shutdown().

shutdown(wait=False, kill_workers=True) followed by shutdown(wait=True) (what
leaving a `with executor:` block does, and what get_reusable_executor() with
its default kill_workers=False does when it replaces the instance) overwrites
_ExecutorFlags.kill_workers with False before the manager thread has looked at
it (flag_as_shutting_down: "last writer wins"). The running task is then
drained: its future returns a result instead of ShutdownExecutorError and the
second call blocks for the whole task duration.
"""
import os, sys, time
os.environ["PYTHONWARNINGS"] = "ignore::UserWarning"
import loky
from loky import ProcessPoolExecutor
from loky.process_executor import ShutdownExecutorError

DURATION = 6

def slow(t):
    time.sleep(t); return os.getpid()

if __name__ == "__main__":
    print(loky.__file__)
    bad = 0
    for i in range(4):
        with ProcessPoolExecutor(max_workers=2) as e:
            f = e.submit(slow, DURATION)
            time.sleep(0.5)
            t0 = time.time()
            e.shutdown(wait=False, kill_workers=True)
        # __exit__ called e.shutdown(wait=True)
        dt = time.time() - t0
        try:
            out = f"returned {f.result(timeout=0)}"
        except ShutdownExecutorError:
            out = "ShutdownExecutorError"
        print(f"run {i}: both calls took {dt:.2f}s, future: {out}")
        bad += out != "ShutdownExecutorError" or dt > DURATION / 2
    print(f"FAIL (pristine violates C06 in {bad}/4 runs)" if bad else "OK")
    sys.exit(1 if bad else 0)
