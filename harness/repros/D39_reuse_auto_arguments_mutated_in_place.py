"""Pristine-tree scenario: get_reusable_executor(reuse="auto") after an argument container (env) was mutated in place.

_executor_kwargs keeps the caller's dict objects by reference, so the comparison `_executor_kwargs == kwargs` compares the
mutated dict with itself: the arguments changed, yet the previous instance - whose workers were started with the old
content - is returned as reused.
"""
import os, sys
from loky import get_reusable_executor
def getenv(k): 
    import os; return os.environ.get(k)
if __name__ == "__main__":
    env = {"LOKY_D39": "one"}
    e1 = get_reusable_executor(max_workers=1, env=env, timeout=30)
    v1 = e1.submit(getenv, "LOKY_D39").result(timeout=30)
    env["LOKY_D39"] = "two"          # arguments changed in place
    e2 = get_reusable_executor(max_workers=1, env=env, timeout=30)
    v2 = e2.submit(getenv, "LOKY_D39").result(timeout=30)
    # control: a fresh dict with the changed content
    e3 = get_reusable_executor(max_workers=1, env={"LOKY_D39": "three"}, timeout=30)
    v3 = e3.submit(getenv, "LOKY_D39").result(timeout=30)
    print("ids", e1.executor_id, e2.executor_id, e3.executor_id, "values", v1, v2, v3)
    e3.shutdown(wait=True, kill_workers=True)
    ok = (v2 == "two")
    print("OK" if ok else "FAIL: reuse='auto' with arguments changed in place returned the previous instance; workers see %r" % v2)
    sys.exit(0 if ok else 1)
