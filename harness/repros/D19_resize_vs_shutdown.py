"""D19 (known finding, C09/C10) on real processes: get_reusable_executor() resizing the singleton while another
thread's explicit executor.shutdown() of that same object completes.  The interleaving is forced at the point where
_resize has finished waiting for pending jobs; exit status 1 = the call raised instead of returning an executor."""
import sys, threading, os
from loky import get_reusable_executor
import loky.reusable_executor as R

ex = get_reusable_executor(max_workers=2, timeout=None)
ex.submit(int).result()
orig = R._ReusablePoolExecutor._wait_job_completion


def patched(self):
    orig(self)
    t = threading.Thread(target=self.shutdown)      # another thread shuts the executor down now
    t.start()
    t.join()


R._ReusablePoolExecutor._wait_job_completion = patched
try:
    e = get_reusable_executor(max_workers=3, timeout=None)
    print("returned", e, "shutdown flag:", e._flags.shutdown)
    rc = 0
except BaseException as exc:  # noqa: BLE001
    print("get_reusable_executor raised", type(exc).__name__ + ":", exc)
    rc = 1
sys.stdout.flush()
os._exit(rc)
