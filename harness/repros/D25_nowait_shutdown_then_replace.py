"""D25 (fixed in /repo) on real processes: executor.shutdown(wait=False) on the reusable singleton while a task is
still running, then get_reusable_executor().  The property (C09) says the previous instance is completely shut down
before a fresh one is handed out.  Before the fix shutdown(wait=False) dropped the executor's reference to its manager
thread, so the shutdown(wait=True) that get_reusable_executor performs on the old instance had nothing to join: the call
returned at once with the old manager thread, its workers and the task still alive - two pools side by side (exit 1).
With the fix (the reference is only dropped once the thread has been waited for) the call returns when the old instance
has drained and gone (exit 0).  Run with PYTHONPATH=<checkout of loky>."""
import os, sys, time
from loky import get_reusable_executor

e = get_reusable_executor(max_workers=2, timeout=100)
f = e.submit(time.sleep, 3)
time.sleep(0.5)
old_pids = list(e._processes)
old_thread = e._executor_manager_thread
e.shutdown(wait=False)
t0 = time.time()
e2 = get_reusable_executor(max_workers=2, timeout=100)
dt = time.time() - t0


def alive(p):
    try:
        return open(f"/proc/{p}/stat").read().rsplit(")", 1)[1].split()[0] != "Z"
    except OSError:
        return False


left = [p for p in old_pids if alive(p)]
print(f"get_reusable_executor returned after {dt:.2f}s; fresh instance: {e2 is not e}; old task done: {f.done()}; "
      f"old manager thread alive: {old_thread.is_alive()}; old workers alive: {left}")
sys.stdout.flush()
bad = old_thread.is_alive() or left or not f.done()
e2.shutdown(wait=True, kill_workers=True)
os._exit(1 if bad else 0)
