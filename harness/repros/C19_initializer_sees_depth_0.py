"""Finding (C19, unchanged tree) on real processes: `_process_worker` runs the worker *initializer* before it assigns
`_CURRENT_DEPTH = current_depth`, so inside an initializer the process still believes it is at depth 0.  An executor that
an initializer creates *and uses* passes `_check_max_depth` at every level and ships `current_depth = 1` to its workers:
nesting through initializers is not bounded by LOKY_MAX_DEPTH, and every worker of such a chain "sees" depth 1.

This script sets LOKY_MAX_DEPTH=2 and lets the initializer of each level create and use the next level, up to real
depth 4 (the script's own stop, not loky's).  Property C19: creation at depth d succeeds iff d < MAX_DEPTH, and the depth
a worker sees is one more than that of the process that created its executor.  Exit 1 when a level beyond 2 was created
(the defect), exit 0 when loky refused it.  Run with PYTHONPATH=<checkout of loky>."""
import os
import sys

os.environ["LOKY_MAX_DEPTH"] = "2"
LOG = "/tmp/C19_initializer_depth.%d.log" % os.getpid()
STOP = 4


def report_depth():
    import loky.process_executor as pe
    return pe._CURRENT_DEPTH


def init(level, path):
    """runs in a worker whose real depth is `level`"""
    import loky.process_executor as pe
    from loky import ProcessPoolExecutor
    line = f"level={level} initializer_sees={pe._CURRENT_DEPTH}"
    if level < STOP:
        try:
            ex = ProcessPoolExecutor(1, initializer=init, initargs=(level + 1, path))
            d = ex.submit(report_depth).result(timeout=120)
            line += f" created_level={level + 1} its_worker_sees={d}"
            ex.shutdown(wait=True)
        except Exception as e:  # noqa: BLE001
            line += f" refused={type(e).__name__}"
    with open(path, "a") as f:
        f.write(line + "\n")


if __name__ == "__main__":
    from loky import ProcessPoolExecutor
    open(LOG, "w").close()
    ex = ProcessPoolExecutor(1, initializer=init, initargs=(1, LOG))
    ex.submit(report_depth).result(timeout=300)
    ex.shutdown(wait=True)
    lines = open(LOG).read().splitlines()
    os.unlink(LOG)
    print("\n".join(sorted(lines)))
    deepest = max([int(l.split("created_level=")[1].split()[0]) for l in lines if "created_level=" in l] or [1])
    print(f"LOKY_MAX_DEPTH=2, deepest level created: {deepest}")
    sys.stdout.flush()
    os._exit(1 if deepest > 2 else 0)
