"""D21 (fixed in /repo) on real processes: submit(); cancel() -> True; shutdown(wait=True) on an executor without idle
time-out.  The manager thread is woken by the submit, and finds the executor flagged as shutting down with a table of
pending work items that holds only the cancelled one; before the fix it went back to its loop, whose first statement
(add_call_item_to_queue) dropped the cancelled item, and then waited for ever on the result pipe / wake-up pipe /
sentinels: shutdown(wait=True) never returned (prints HANG, exit 1).  With the fix (the pass of add_call_item_to_queue
is made before the `if not pending_work_items` test, as in CPython gh-94440) the call returns (exit 0).
The window (both wake-ups consumed by one clear()) is forced by delaying the return of connection.wait in the manager
thread; without the delay the hang shows up in roughly one run out of five.  Run with PYTHONPATH=<checkout of loky>."""
import os, sys, threading, time
import loky.process_executor as pe
from loky import ProcessPoolExecutor

orig_wait, slow = pe.wait, threading.Event()
def slow_wait(*a, **k):
    r = orig_wait(*a, **k)
    if slow.is_set():
        time.sleep(0.5)
    return r
pe.wait = slow_wait

ex = ProcessPoolExecutor(max_workers=1)          # timeout=None: idle workers never leave
ex.submit(int).result()
time.sleep(0.3)                                   # the manager thread is back in wait()
slow.set()
f = ex.submit(int)
ok = f.cancel()
t = threading.Thread(target=ex.shutdown, kwargs={"wait": True}, daemon=True)
t0 = time.time()
t.start(); t.join(15)
print("cancel() ->", ok, "; shutdown(wait=True)", "HANG" if t.is_alive() else f"returned after {time.time() - t0:.2f}s")
sys.stdout.flush()
if t.is_alive():
    slow.clear()
    ex.shutdown(wait=False, kill_workers=True)
os._exit(1 if t.is_alive() else 0)
