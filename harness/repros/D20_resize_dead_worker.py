"""D20 (fixed in /repo, 2bf149b) on real processes: a worker started by _resize dies before the manager thread's next
wake-up.  Before the fix: get_reusable_executor() hangs (prints HANG, exit 1); with the fix it returns with the
executor flagged broken (exit 0).  Run with PYTHONPATH=<checkout of loky>."""
import os, signal, threading, sys, time
from loky import get_reusable_executor
import loky.reusable_executor as R
ex = get_reusable_executor(max_workers=1, timeout=None)
ex.submit(int).result()
time.sleep(0.5)
orig = R._ReusablePoolExecutor._adjust_process_count
killed = []
def patched(self):
    before = set(self._processes)
    orig(self)
    for pid in set(self._processes) - before:
        os.kill(pid, signal.SIGKILL); killed.append(pid)
        while open(f"/proc/{pid}/stat").read().rsplit(")", 1)[1].split()[0] != "Z":
            time.sleep(0.01)          # dead, not yet reaped
R._ReusablePoolExecutor._adjust_process_count = patched
done = []
t0 = time.time()
t = threading.Thread(target=lambda: done.append(get_reusable_executor(max_workers=2, timeout=None)), daemon=True)
t.start(); t.join(20)
print("killed", killed, "elapsed", round(time.time() - t0, 2))
if done:
    e = done[0]
    print("returned; broken =", e._flags.broken, "procs", {p: q.is_alive() for p, q in e._processes.items()}, "same", e is ex)
else:
    print("HANG")
sys.stdout.flush()
os._exit(0 if done else 1)
