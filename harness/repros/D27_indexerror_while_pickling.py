"""D27 (fixed in /repo): a task whose argument raises IndexError while being pickled by the queue feeder thread must fail
with PicklingError like any other unpicklable argument; before the fix the feeder swallowed the IndexError and the future
never completed (TimeoutError, exit 1).  Run with PYTHONPATH=<checkout of loky>."""
import os, sys
from loky import ProcessPoolExecutor
class Bad:
    def __reduce__(self):
        raise IndexError("no such index while pickling")
e = ProcessPoolExecutor(max_workers=1)
f = e.submit(len, [Bad()])
try:
    print("result:", f.result(timeout=10)); rc = 1
except IndexError as ex:
    print("IndexError?", ex); rc = 1
except Exception as ex:
    rc = 0 if type(ex).__name__ in ("PicklingError",) else 1
    print("future failed with", type(ex).__name__, "-" , "ok" if rc == 0 else "unexpected")
sys.stdout.flush()
os._exit(rc)
