"""PRISTINE tree, scenario 1: warnings turned into errors (python -W error, or
pytest filterwarnings=error) + a worker that times out while a task is being
pickled.  The manager thread calls warnings.warn(\"A worker stopped while some
jobs were given to the executor\") before respawning: the warning is raised as
an exception IN the manager thread, which dies; the task is never run."""
import os
import sys
import time
import signal
import threading
import warnings

import loky
from loky import get_reusable_executor
from loky.process_executor import ProcessPoolExecutor

WAIT = 15


class SlowlyPickling:
    """An argument that takes `delay` seconds to pickle (a big array...)."""

    def __init__(self, delay=1):
        self.delay = delay

    def __reduce__(self):
        time.sleep(self.delay)
        return SlowlyPickling, (self.delay,)


def ident(x):
    return x


def sleep_then(x, delay):
    time.sleep(delay)
    return x


def finish(ok, msg, pids=()):
    for pid in pids:
        try:
            os.kill(pid, signal.SIGKILL)
        except OSError:
            pass
    print(("OK " if ok else "FAIL ") + msg, flush=True)
    os._exit(0 if ok else 1)



def main():
    print("loky from", loky.__file__, flush=True)
    warnings.simplefilter("error")
    executor = ProcessPoolExecutor(max_workers=2, timeout=0.05)
    assert executor.submit(ident, 0).result(timeout=WAIT) == 0
    manager = executor._executor_manager_thread
    # the workers time out (50ms) while this task is being pickled (1s)
    f = executor.submit(ident, SlowlyPickling(1))
    try:
        f.result(timeout=WAIT)
    except Exception as e:
        finish(False, f"future never resolves ({type(e).__name__}): "
               f"state={f._state}, manager thread alive={manager.is_alive()}",
               list(executor._processes))
    finish(True, "future resolved", list(executor._processes))


def parent():
    # Run the scenario in a child process of its own session so that every
    # process it leaves behind (workers, resource tracker) can be killed and
    # the verdict is the last line printed.
    import subprocess
    import time

    child = subprocess.Popen(
        [sys.executable, os.path.abspath(__file__), "--child"],
        stdout=subprocess.PIPE, stderr=subprocess.STDOUT,
        start_new_session=True, text=True,
    )
    try:
        out, _ = child.communicate(timeout=90)
    except subprocess.TimeoutExpired:
        out = "FAIL scenario process hangs"
    try:
        os.killpg(child.pid, signal.SIGKILL)
    except OSError:
        pass
    try:
        child.wait(5)
    except Exception:
        pass
    time.sleep(0.3)
    lines = [ln for ln in out.splitlines() if ln.strip()]
    verdict = [ln for ln in lines if ln.startswith(("OK", "FAIL"))]
    for ln in lines:
        if not ln.startswith(("OK", "FAIL")):
            print("   |", ln)
    if verdict and verdict[-1].startswith("OK") and child.returncode == 0:
        print(verdict[-1], flush=True)
        sys.exit(0)
    print(verdict[-1] if verdict and verdict[-1].startswith("FAIL")
          else f"FAIL no verdict from the scenario (rc={child.returncode})",
          flush=True)
    sys.exit(1)


if __name__ == "__main__":
    if "--child" in sys.argv:
        main()
    else:
        parent()
