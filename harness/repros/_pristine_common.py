import os
import sys
import time
import threading


def kill_children():
    try:
        import psutil

        for c in psutil.Process().children(recursive=True):
            try:
                c.kill()
            except Exception:
                pass
    except Exception:
        pass


def finish(violated, msg):
    kill_children()
    sys.stdout.flush()
    sys.stderr.flush()
    print(("VIOLATION " if violated else "NO-VIOLATION ") + msg, flush=True)
    os._exit(1 if violated else 0)


def start_watchdog(seconds=58):
    def _w():
        time.sleep(seconds)
        finish(True, "watchdog expired (hang)")

    threading.Thread(target=_w, daemon=True).start()
