"""./check <Cxx> --tier quick|thorough [--replay file]   (DESIGN.md §3.3)

exit 0: property held on everything explored (KNOWN-FINDING lines possible)
exit 1: `VIOLATION property=<id> replay=<path>[ no-failing-input-found]`
exit 2: infrastructure problem (time-out, missing tool) -- never a violation
"""
import argparse
import importlib
import json
import os
import sys
import time
import traceback

sys.path.insert(0, os.path.dirname(os.path.dirname(os.path.abspath(__file__))))
from harness import common as C  # noqa: E402


def load_prop(pid):
    return importlib.import_module("harness.props." + pid).PROP


def emit_violation(pid, seed, payload, found):
    os.makedirs(C.REPLAYS, exist_ok=True)
    path = os.path.join("replays", f"{pid}-{seed}.json")
    payload = dict(payload)
    payload["property"] = pid
    payload["failing_input_found"] = bool(found)
    C.write_json(os.path.join(C.ROOT, path), payload)
    print(f"VIOLATION property={pid} replay={path}" + ("" if found else " no-failing-input-found"), flush=True)


def run(pid, tier, seed, replay=None):
    t0 = time.time()
    prop = load_prop(pid)
    ctx = C.rng_for(seed, pid)
    ctx = type("Ctx", (), {})()
    ctx.pid, ctx.tier, ctx.seed = pid, tier, seed
    ctx.rng = C.rng_for(seed, pid)
    ctx.timer = C.Timer(prop.budget.get(tier, 600))
    def mine(f):
        return f.get("property") == pid or pid in f.get("properties", [])
    ctx.known = [f for f in C.load_known().get("findings", []) if mine(f)]
    ctx.fixed = [f for f in C.load_known().get("fixed", []) if mine(f)]

    if replay:
        data = json.load(open(replay))
        res = prop.replay(ctx, data)
        print(json.dumps(res, indent=1, default=str))
        if res.get("fails"):
            print(f"VIOLATION property={pid} replay={replay}")
            return 1
        return 0

    violations = 0
    # 1. proof obligations ------------------------------------------------------------
    ob = C.obligations(pid, prop.lean_modules, tier)
    for name, why in ob.failed:
        C.log(f"[{pid}] obligation not discharged: {name}: {why}")

    # 2. correspondence + monitor -------------------------------------------------------
    corr = C.Corr()
    try:
        prop.correspondence(ctx, corr)
    except C.Infra:
        raise
    broken = []
    if not ob.ok:
        broken.append({"kind": "theorem", "what": [{"name": n, "reason": w} for n, w in ob.failed]
                       or [{"name": "*", "reason": "no theorem found"}]})
    if corr.model_error:
        broken.append({"kind": "model-driver", "what": corr.model_error})
    if corr.disagreements:
        broken.append({"kind": "correspondence", "what": corr.disagreements[:5],
                       "count": len(corr.disagreements)})

    # 3. failures of the property's own oracle on the implementation ---------------------
    if corr.failures:
        violations += 1
        emit_violation(pid, seed, {"engine": prop.engine, "failing": corr.failures[:3],
                                   "n_failing": len(corr.failures), "broken": broken}, True)
    elif broken:
        # model or correspondence no longer checks: search the implementation for a failing input
        found = None
        try:
            found = prop.search(ctx, corr, broken)
        except C.Infra:
            raise
        violations += 1
        if found:
            emit_violation(pid, seed, {"engine": prop.engine, "failing": [found], "broken": broken}, True)
        else:
            emit_violation(pid, seed, {"engine": prop.engine, "broken": broken,
                                       "note": "the named theorem / correspondence no longer checks; "
                                               "the search found no input on which the implementation "
                                               "violates the property"}, False)

    # 4. known findings -----------------------------------------------------------------
    kf_lines = []
    for f in ctx.known:
        if not f.get("witness") and f.get("real_repro") and not f.get("part"):
            # a finding none of this check's engines reaches (nested executors, warnings turned into errors, ...): it
            # is identified by its real-process script, which the thorough tier runs against /repo
            script = os.path.join(C.ROOT, str(f["real_repro"]).split(":")[0].split(" ")[0])
            if tier == "thorough" and os.path.exists(script):
                import subprocess
                try:
                    rr = subprocess.run(["timeout", "180", "/venv/bin/python", script], cwd=C.REPO, capture_output=True, text=True,
                                        env=dict(os.environ, PYTHONPATH=C.REPO), timeout=200)
                    still = rr.returncode != 0
                except subprocess.TimeoutExpired:
                    still = True
                if still:
                    kf_lines.append(f"KNOWN-FINDING: property={pid} {f['id']}: {f['what']}")
                else:
                    C.log(f"[{pid}] listed finding {f['id']} no longer reproduces ({f['real_repro']} passes)")
            else:
                kf_lines.append(f"KNOWN-FINDING: property={pid} {f['id']}: {f['what']} [real-process script "
                                f"{f['real_repro']}: run by the thorough tier]")
            continue
        r = prop.replay_finding(ctx, f)
        if r.get("fails"):
            kf_lines.append(f"KNOWN-FINDING: property={pid} {f['id']}: {f['what']}")
        else:
            C.log(f"[{pid}] listed finding {f['id']} no longer reproduces (witness passes)")
    for f in ctx.fixed:
        r = prop.replay_finding(ctx, f)
        if r.get("fails"):
            violations += 1
            emit_violation(pid, f"fixed-{f['id']}", {"engine": prop.engine, "failing": [r],
                                                     "note": "a defect recorded as fixed is back"}, True)
    for l in kf_lines:
        print(l, flush=True)

    # 5. evidence -----------------------------------------------------------------------
    cov = {
        "obligations": len(ob.theorems),
        "discharged": len(ob.discharged),
        "checker_cmd": ob.cmd,
        "trusted_base": C.TRUSTED_BASE + list(getattr(prop, "trusted_extra", [])),
        "theorems": ob.theorems,
        "axioms_used": sorted({a for v in ob.axioms.values() for a in v}),
        "leanchecker": ob.leanchecker,
        "evaluations": corr.evaluations,
        "distinct_nontrivial": len(corr.distinct),
        "rule": corr.rule,
        "samples": corr.samples[:8],
        "histogram": corr.hist,
        "disagreements": len(corr.disagreements),
        "oracle_failures": len(corr.failures),
        "known_finding_runs": corr.known_hits,
        "known_findings_reproduced": [l for l in kf_lines],
    }
    cov.update(corr.extra)
    ev = {
        "property_id": pid, "tier": tier, "seed": seed, "level": "proof",
        "coverage": cov,
        "assumptions": list(getattr(prop, "assumptions", [])),
        "wall_s": round(time.time() - t0, 2),
        "violations": violations,
    }
    C.write_json(os.path.join(C.EVID, pid + ".json"), ev)
    C.log(f"[{pid}] tier={tier} seed={seed} theorems={len(ob.discharged)}/{len(ob.theorems)} "
          f"cases={corr.evaluations} distinct={len(corr.distinct)} disagreements={len(corr.disagreements)} "
          f"oracle_failures={len(corr.failures)} wall={ev['wall_s']}s")
    return 1 if violations else 0


def main():
    ap = argparse.ArgumentParser()
    ap.add_argument("pid")
    ap.add_argument("--tier", default=os.environ.get("VERIF_TIER", "quick"), choices=["quick", "thorough"])
    ap.add_argument("--replay")
    a = ap.parse_args()
    seed = int(os.environ.get("VERIF_SEED", "0") or 0)
    os.chdir(C.ROOT)
    import loky
    if not os.path.abspath(loky.__file__).startswith(os.path.abspath(C.REPO) + os.sep):
        C.log(f"loky imported from {loky.__file__}, expected under {C.REPO}")
        os._exit(2)
    try:
        rc = run(a.pid, a.tier, seed, a.replay)
    except C.Infra as e:
        C.log(f"[{a.pid}] INFRASTRUCTURE: {e}")
        rc = 2
    except Exception:
        traceback.print_exc()
        rc = 2
    sys.stdout.flush()
    sys.stderr.flush()
    os._exit(rc)


if __name__ == "__main__":
    main()
