#!/usr/bin/env python3
"""harness/seedfile.py <src SEED/k dir> <property id> <n>  — file a confirmed seeded change under /verif/seeded/<Cxx>-s<n>/
(patch.diff [+ patch_head.diff: the same change ported to the current /repo HEAD], demo, NOTE.md, meta.json)."""
import json, os, re, shutil, sys
src, pid, n = sys.argv[1], sys.argv[2], sys.argv[3]
dst = os.path.join(os.path.dirname(os.path.dirname(os.path.abspath(__file__))), "seeded", f"{pid}-s{n}")
os.makedirs(dst, exist_ok=True)
for f in os.listdir(src):
    p = os.path.join(src, f)
    if os.path.isfile(p) and f in ("patch.diff", "patch_head.diff", "demo.py", "test_demo.py", "NOTE.md"):
        shutil.copy(p, os.path.join(dst, f))
note = open(os.path.join(src, "NOTE.md")).read() if os.path.exists(os.path.join(src, "NOTE.md")) else ""
title = note.strip().splitlines()[0].lstrip("# ").strip() if note.strip() else ""
m = re.search(r"\*\*Needed to manifest\*\*:?\s*(.*?)(?:\n\s*\n|\n\s*[\*-] \*\*|\n\*\*)", note, re.S)
meta_p = os.path.join(dst, "meta.json")
meta = json.load(open(meta_p)) if os.path.exists(meta_p) else {}
meta.update({"id": f"{pid}-s{n}", "property": pid, "change": title,
             "needs_to_manifest": (m.group(1).strip().replace("\n", " ") if m else meta.get("needs_to_manifest", "see NOTE.md")),
             "author": "fresh sub-agent given only the property text and a scratch worktree"})
meta.setdefault("confirmed", {})
meta.setdefault("detection", {})
json.dump(meta, open(meta_p, "w"), indent=1)
print(dst)
