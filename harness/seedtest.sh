#!/bin/sh
# harness/seedtest.sh <patch.diff> <Cxx> [Cyy ...]  — run checks against a scratch worktree of /repo with the patch applied
# (never touches /repo's working tree; the worktree is removed afterwards)
PATCH="$1"; shift
WT=/tmp/mut/wt.$$
mkdir -p /tmp/mut
git -C /repo worktree add -q --detach "$WT" HEAD || exit 2
if ! git -C "$WT" apply "$PATCH" 2>/dev/null && ! git -C "$WT" apply -3 "$PATCH" 2>/dev/null && ! (cd "$WT" && patch -p1 -F3 --no-backup-if-mismatch < "$PATCH" >/dev/null 2>&1); then echo "PATCH-DOES-NOT-APPLY"; git -C /repo worktree remove --force "$WT"; exit 2; fi
cd "$(dirname "$0")/.." || exit 2
for P in "$@"; do
  VERIF_REPO="$WT" VERIF_SEED="${VERIF_SEED:-0}" ./check "$P" --tier "${VERIF_TIER:-quick}" > /tmp/mut/out.$$.$P 2>&1
  rc=$?
  echo "== $P rc=$rc $(grep -m1 VIOLATION /tmp/mut/out.$$.$P) :: $(grep -v '^KNOWN' /tmp/mut/out.$$.$P | tail -1 | cut -c1-160)"
  if [ $rc -eq 1 ]; then
    f=$(grep -m1 VIOLATION /tmp/mut/out.$$.$P | sed 's/.*replay=\([^ ]*\).*/\1/')
    /venv/bin/python - "$f" <<'PY'
import json,sys
try:
    d=json.load(open(sys.argv[1]))
    for x in d.get("failing",[])[:2]:
        print("     failing:", str(x.get("what"))[:300])
    for b in d.get("broken",[])[:2]:
        print("     broken:", b.get("kind"), str(b.get("what"))[:300])
except Exception as e: print("     (no replay)", e)
PY
  fi
  rm -f /tmp/mut/out.$$.$P
done
git -C /repo worktree remove --force "$WT"
