#!/bin/sh
# harness/seedconfirm.sh <seed dir with patch.diff + demo.py|test_demo.py> [pytest files...]
# confirms in a scratch worktree: demo passes on the clean tree, fails with the patch; given test files pass with the patch
D="$1"; shift
WT=/tmp/mut/cf.$$
mkdir -p /tmp/mut
git -C /repo worktree add -q --detach "$WT" HEAD || exit 2
DEMO="$D/demo.py"; [ -f "$DEMO" ] || DEMO="$D/test_demo.py"
run_demo() { ( cd "$WT" && PYTHONPATH="$WT" timeout 300 /venv/bin/python "$DEMO" > "$1" 2>&1; echo $? ); }
case "$DEMO" in *test_demo.py) run_demo() { ( cd "$WT" && PYTHONPATH="$WT" timeout 300 /venv/bin/python -m pytest -q -x -p no:cacheprovider "$DEMO" > "$1" 2>&1; echo $? ); } ;; esac
rc0=$(run_demo /tmp/mut/cf.$$.clean)
git -C "$WT" apply "$D/patch.diff" || { echo "PATCH-DOES-NOT-APPLY"; git -C /repo worktree remove --force "$WT"; exit 2; }
rc1=$(run_demo /tmp/mut/cf.$$.patched)
echo "demo: clean rc=$rc0 patched rc=$rc1"
for T in "$@"; do
  ( cd "$WT" && PYTHONPATH="$WT" timeout 1500 /venv/bin/python -m pytest -q -p no:cacheprovider --timeout=600 "$T" --deselect tests/test_reusable_executor.py::TestTerminateExecutor::test_sigkill_shutdown_leaks_workers --deselect tests/test_loky_module.py::test_cpu_count_cgroup_limit 2>&1 | grep -E "passed|failed|error" | tail -1 | sed "s|^|tests $T: |" )
done
git -C /repo worktree remove --force "$WT"
rm -f /tmp/mut/cf.$$.*
