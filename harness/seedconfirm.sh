#!/bin/sh
# harness/seedconfirm.sh <seed dir with patch.diff [patch_head.diff] + demo.py|test_demo.py> [full|pytest files...]
# confirms in a scratch worktree: demo passes on the clean tree, fails with the patch; the given test files
# (or, with "full", the pinned suite's stable tests) pass with the patch
D="$1"; shift
WT=/tmp/mut/cf.$$
mkdir -p /tmp/mut
git -C /repo worktree add -q --detach "$WT" HEAD || exit 2
DEMO="$D/demo.py"; [ -f "$DEMO" ] || DEMO="$D/test_demo.py"
P="$D/patch_head.diff"; [ -f "$P" ] || P="$D/patch.diff"
run_demo() { ( cd "$WT" && PYTHONPATH="$WT" timeout 300 /venv/bin/python "$DEMO" > "$1" 2>&1; echo $? ); }
case "$DEMO" in *test_demo.py) run_demo() { ( cd "$WT" && PYTHONPATH="$WT" timeout 300 /venv/bin/python -m pytest -q -x -p no:cacheprovider "$DEMO" > "$1" 2>&1; echo $? ); } ;; esac
rc0=$(run_demo /tmp/mut/cf.$$.clean)
git -C "$WT" apply "$P" 2>/dev/null || git -C "$WT" apply -3 "$P" 2>/dev/null || ( cd "$WT" && patch -p1 -F3 -s < "$P" ) || { echo "PATCH-DOES-NOT-APPLY"; git -C /repo worktree remove --force "$WT"; exit 2; }
rc1=$(run_demo /tmp/mut/cf.$$.patched)
echo "demo: clean rc=$rc0 patched rc=$rc1 ($(tail -1 /tmp/mut/cf.$$.patched | cut -c1-160))"
if [ "$1" = "full" ]; then
  ( cd "$WT" && PYTHONPATH="$WT" timeout 3000 /venv/bin/python -m pytest -q -p no:cacheprovider --timeout=900 --continue-on-collection-errors --junitxml=/tmp/mut/cf.$$.xml > /tmp/mut/cf.$$.log 2>&1 )
  /venv/bin/python - /tmp/mut/cf.$$.xml <<'PY'
import json, sys, xml.etree.ElementTree as ET
sp = set(json.load(open('/root/.vp/BASELINE.json'))['stable_pass'])
res = {}
for tc in ET.parse(sys.argv[1]).iter('testcase'):
    res[f"{tc.get('classname')}::{tc.get('name')}"] = not any(c.tag in ('failure', 'error', 'skipped') for c in tc)
miss = sorted(n for n in sp if not res.get(n))
print(f"suite: stable={len(sp)} not-passing={len(miss)} {miss[:6]}")
PY
else
for T in "$@"; do
  ( cd "$WT" && PYTHONPATH="$WT" timeout 1500 /venv/bin/python -m pytest -q -p no:cacheprovider --timeout=600 "$T" --deselect tests/test_reusable_executor.py::TestTerminateExecutor::test_sigkill_shutdown_leaks_workers --deselect tests/test_loky_module.py::test_cpu_count_cgroup_limit 2>&1 | grep -E "passed|failed|error" | tail -1 | sed "s|^|tests $T: |" )
done
fi
git -C /repo worktree remove --force "$WT"
rm -f /tmp/mut/cf.$$.*
