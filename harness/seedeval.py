#!/usr/bin/env python3
"""harness/seedeval.py [--tier quick] [--also C01,C03] <seeded id> ...   (default: every directory of /verif/seeded)
Applies each seeded change to a scratch worktree of /repo (never to /repo itself), runs the property's check (and
the checks named by --also / meta["also"]) against it with VERIF_REPO, records the outcome in meta.json["detection"]
and prints one line per check.  The worktree is removed afterwards."""
import json, os, re, subprocess, sys, tempfile
ROOT = os.path.dirname(os.path.dirname(os.path.abspath(__file__)))
args = sys.argv[1:]
tier, also = "quick", []
while args and args[0].startswith("--"):
    if args[0] == "--tier":
        tier = args[1]; args = args[2:]
    elif args[0] == "--also":
        also = args[1].split(","); args = args[2:]
ids = args or sorted(os.listdir(os.path.join(ROOT, "seeded")))
os.makedirs("/tmp/mut", exist_ok=True)
for sid in ids:
    d = os.path.join(ROOT, "seeded", sid)
    meta = json.load(open(os.path.join(d, "meta.json")))
    patch = os.path.join(d, "patch_head.diff")
    if not os.path.exists(patch):
        patch = os.path.join(d, "patch.diff")
    wt = tempfile.mkdtemp(prefix="se.", dir="/tmp/mut")
    os.rmdir(wt)
    subprocess.run(["git", "-C", "/repo", "worktree", "add", "-q", "--detach", wt, "HEAD"], check=True)
    try:
        ok = False
        for cmd in (["git", "-C", wt, "apply", patch], ["git", "-C", wt, "apply", "-3", patch]):
            if subprocess.run(cmd, capture_output=True).returncode == 0:
                ok = True
                break
        if not ok:
            ok = subprocess.run(f"cd {wt} && patch -p1 -F3 --no-backup-if-mismatch -s < {patch}", shell=True,
                                capture_output=True).returncode == 0
        if not ok:
            print(f"{sid}: PATCH-DOES-NOT-APPLY")
            meta["detection"] = {"error": "patch does not apply to the current HEAD"}
            continue
        checks = [meta["property"]] + [c for c in (also or meta.get("also", [])) if c != meta["property"]]
        for c in checks:
            env = dict(os.environ, VERIF_REPO=wt, VERIF_SEED=os.environ.get("VERIF_SEED", "0"))
            r = subprocess.run([os.path.join(ROOT, "check"), c, "--tier", tier], cwd=ROOT, env=env,
                               capture_output=True, text=True)
            out = r.stdout + r.stderr
            vio = [l for l in out.splitlines() if l.startswith("VIOLATION")]
            res = {"tier": tier, "rc": r.returncode, "violation": vio[0] if vio else None}
            if vio:
                m = re.search(r"replay=(\S+)", vio[0])
                try:
                    rp = json.load(open(os.path.join(ROOT, m.group(1))))
                    res["failing_input"] = bool(rp.get("failing"))
                    res["what"] = [str(x.get("what"))[:200] for x in rp.get("failing", [])[:2]] or \
                                  [f"{b.get('kind')}: {str(b.get('what'))[:160]}" for b in rp.get("broken", [])[:2]]
                except Exception as e:
                    res["what"] = [f"(replay unreadable: {e})"]
            meta.setdefault("detection", {})[f"{c}/{tier}"] = res
            tag = "MISSED" if r.returncode == 0 else ("caught+input" if res.get("failing_input") else
                                                      "caught(no-failing-input-found)" if r.returncode == 1 else f"rc={r.returncode}")
            print(f"{sid}: {c}/{tier}: {tag} {(res.get('what') or [''])[0][:150]}", flush=True)
    finally:
        subprocess.run(["git", "-C", "/repo", "worktree", "remove", "--force", wt])
        json.dump(meta, open(os.path.join(d, "meta.json"), "w"), indent=1)
