"""E1 for C14: loky's real `Condition` / `Event` code (current source text of
loky/backend/synchronize.py, executed in a fresh module) over a *simulated* `_multiprocessing.SemLock`,
run by actor threads under a deterministic scheduler.  One scheduling step = one
`SemLock.acquire` / `SemLock.release` call (or the `begin` of the next scripted operation) together with the
pure-Python code up to the next such call.  No line of loky is edited or re-implemented here.

Also usable without a scheduler (`ENG is None`): then `SimSemLock` behaves as a sequential object, which is
how it is validated against the real `_multiprocessing.SemLock` and the Lean model (part `semlock`).
"""
import builtins
import os
import threading as _rt
import types

RECURSIVE_MUTEX, SEMAPHORE = 0, 1
TIMEOUT = 30.0          # value handed to timed waits; never slept on: time is adversarial


class Hang(Exception):
    pass


class Actor:
    def __init__(self, eng, idx, target):
        self.eng, self.idx = eng, idx
        self.baton = _rt.Semaphore(0)
        self.pending = None       # (kind, obj, block, timeout, arg) announced, not yet executed
        self.variant = None
        self.done = False
        self.exc = None
        self.th = _rt.Thread(target=self._main, args=(target,), daemon=True, name=f"actor-{idx}")

    def _main(self, target):
        self.baton.acquire()
        self.eng._tls.actor = self
        try:
            target()
        except BaseException as e:      # an actor must never die: scripted calls catch what loky raises
            self.exc = repr(e)
        finally:
            self.done = True
            self.pending = None
            self.eng.sched_sem.release()


class Engine:
    def __init__(self):
        self.actors = []
        self.sched_sem = _rt.Semaphore(0)
        self._tls = _rt.local()
        self.step_no = 0

    def me(self):
        return getattr(self._tls, "actor", None)

    def spawn(self, target):
        a = Actor(self, len(self.actors), target)
        a.pending = ("start", None, True, None, None)
        self.actors.append(a)
        a.th.start()
        return a

    def op(self, kind, obj=None, block=True, timeout=None, arg=None):
        a = self.me()
        a.pending = (kind, obj, block, timeout, arg)
        self.sched_sem.release()
        a.baton.acquire()
        return a.variant

    def variants(self, a):
        p = a.pending
        if p is None or a.done:
            return []
        kind, obj, block, timeout, _ = p
        if kind in ("start", "begin", "release"):
            return ["ok"]
        if kind == "acquire":
            if obj._can(a):
                return ["ok"]
            if not block:
                return ["fail"]
            if timeout is not None:
                return ["timeout"]
            return []
        raise RuntimeError("unknown op " + kind)

    def enabled(self):
        return [(a.idx, v) for a in self.actors for v in self.variants(a)]

    def run_one(self, idx, v):
        """let actor idx perform its pending operation with variant v and run to its next announcement"""
        a = self.actors[idx]
        a.variant = v
        a.pending = None
        self.step_no += 1
        a.baton.release()
        if not self.sched_sem.acquire(timeout=30):
            raise Hang(f"actor {idx} did not come back")

    def start_all(self):
        # every actor runs from 'start' to its first announcement, in index order (no choice involved)
        for a in self.actors:
            self.run_one(a.idx, "ok")


ENG = None      # the engine of the current run (one run per forked child)
LOG = None      # list of (step, actor, label, variant) appended by the primitives when a run is on


class SimSemLock:
    """stand-in for `_multiprocessing.SemLock` (CPython Modules/_multiprocessing/semaphore.c, POSIX branch)"""
    SEM_VALUE_MAX = 2147483647
    _n = 0

    def __init__(self, kind, value, maxvalue, name, unlink):
        if value < 0 or value > maxvalue:
            raise ValueError("invalid value")
        SimSemLock._n += 1
        self.kind, self.maxvalue, self.name = kind, maxvalue, name
        self.handle = 1000 + SimSemLock._n
        self.value = value
        self.count = 0
        self.last = None
        self.role = f"sem{SimSemLock._n}"

    # --- what the scheduler asks
    def _who(self):
        if ENG is not None:
            a = ENG.me()
            if a is not None:
                return a
        return _rt.get_ident()

    def _mine(self, who):
        return self.count > 0 and self.last == who

    def _can(self, who):
        return (self.kind == RECURSIVE_MUTEX and self._mine(who)) or self.value > 0

    # --- the C API
    def acquire(self, block=True, timeout=None):
        who = self._who()
        if ENG is not None and ENG.me() is not None:
            v = ENG.op("acquire", self, bool(block), timeout if block else None)
            if v != "ok":
                return False
        elif not self._can(who):
            if block and timeout is None:
                raise RuntimeError("sequential SimSemLock.acquire would block for ever")
            return False
        if self.kind == RECURSIVE_MUTEX and self._mine(who):
            self.count += 1
            return True
        assert self.value > 0
        self.value -= 1
        self.count += 1
        self.last = who
        return True

    def release(self):
        who = self._who()
        if ENG is not None and ENG.me() is not None:
            ENG.op("release", self)
        if self.kind == RECURSIVE_MUTEX:
            if not self._mine(who):
                raise AssertionError("attempt to release recursive lock not owned by thread")
            if self.count > 1:
                self.count -= 1
                return
        else:
            if self.value >= self.maxvalue:
                raise ValueError("semaphore or lock released too many times")
        self.value += 1
        self.count -= 1

    def __enter__(self):
        return self.acquire()

    def __exit__(self, *a):
        return self.release()

    def _count(self):
        return self.count

    def _is_mine(self):
        return self._mine(self._who())

    def _get_value(self):
        return self.value

    def _is_zero(self):
        return self.value == 0

    def _after_fork(self):
        self.count = 0

    @staticmethod
    def _rebuild(handle, kind, maxvalue, name):
        raise RuntimeError("simulated semaphores are not pickled")


_MOD = {}


def load_sync(repo):
    """execute the current text of <repo>/loky/backend/synchronize.py in a fresh module whose
    `_multiprocessing` and `.resource_tracker` imports resolve to simulated versions"""
    if repo in _MOD:
        return _MOD[repo]
    path = os.path.join(repo, "loky", "backend", "synchronize.py")
    with open(path) as f:
        src = f.read()
    code = compile(src, path, "exec")
    m = types.ModuleType("loky.backend.synchronize__sim")
    m.__file__ = path
    m.__package__ = "loky.backend"
    fake_mp = types.SimpleNamespace(SemLock=SimSemLock, sem_unlink=lambda name: None)
    fake_rt = types.SimpleNamespace(register=lambda *a: None, unregister=lambda *a: None)
    real_import = builtins.__import__

    def imp(name, globals=None, locals=None, fromlist=(), level=0):
        if level == 0 and name == "_multiprocessing":
            return fake_mp
        if level == 1 and name in ("", "resource_tracker"):
            if name == "resource_tracker":
                return fake_rt
            return types.SimpleNamespace(resource_tracker=fake_rt)
        return real_import(name, globals, locals, fromlist, level)

    b = dict(builtins.__dict__)
    b["__import__"] = imp
    m.__dict__["__builtins__"] = b
    exec(code, m.__dict__)
    _MOD[repo] = m
    return m


def _label(p):
    kind, obj, block, timeout, arg = p
    if kind == "begin":
        return "begin:" + arg
    if kind == "release":
        return f"rel({obj.role})"
    if not block:
        return f"acq({obj.role},nb)"
    if timeout is not None:
        return f"acq({obj.role},T)"
    return f"acq({obj.role})"


def _code(r):
    return {None: "N", True: "T", False: "F"}.get(r, "?" + repr(r)[:20])


def _exc_code(e):
    msg = str(e)
    if isinstance(e, AssertionError):
        if "must acquire()" in msg or "lock is not owned" in msg:
            return "MA"
        if "not owned by thread" in msg:
            return "NO"
        if msg == "":
            return "TRIP"
        return "AE?" + msg[:30]
    if isinstance(e, ValueError) and "released too many times" in msg:
        return "VE"
    return "EXC:" + type(e).__name__ + ":" + msg[:40]


def run_case(repo, case, max_steps=400):
    """one run of the real code; returns dict(lines, sched, events, end).  Must be called in a process that is
    thrown away afterwards (actor threads are daemons; a deadlocked run leaves them parked)."""
    global ENG, LOG
    import gc
    import random
    gc.disable()
    m = load_sync(repo)
    kind = case["kind"]
    scripts = case["scripts"]
    SimSemLock._n = 0
    ENG = None                      # construction is not scheduled
    if kind == "rlock":
        # a user-level Condition() (over its default RLock); Event methods, when scripted in this mode, run on an
        # Event object whose `_cond` is that same Condition (attributes set here, methods are loky's)
        cond = m.Condition()
        ev = object.__new__(m.Event)
        ev._cond = cond
        ev._flag = m.Semaphore(0)
    else:
        ev = m.Event()
        cond = ev._cond
    roles = {"lock": cond._lock._semlock, "sleeping": cond._sleeping_count._semlock,
             "woken": cond._woken_count._semlock, "waitsem": cond._wait_semaphore._semlock}
    roles["flag"] = ev._flag._semlock
    for k, o in roles.items():
        o.role = k
    eng = Engine()
    results = [[] for _ in scripts]
    events = []                      # actor-level observations for the oracle
    depth = [0] * len(scripts)       # what each actor believes about its own hold on the condition's lock
    inwait = [False] * len(scripts)

    def perform(i, op):
        lk = roles["lock"]
        if op == "acq":
            r = cond.acquire()
            if r:
                depth[i] += 1
            return r, {}
        if op == "try":
            r = cond.acquire(False)
            if r:
                depth[i] += 1
            return r, {}
        if op == "rel":
            r = cond.release()
            depth[i] -= 1
            return r, {}
        if op in ("wait", "waitT"):
            inwait[i] = True
            try:
                r = cond.wait(TIMEOUT if op == "waitT" else None)
            finally:
                inwait[i] = False
            return r, {"mine": lk._is_mine(), "count": lk._count(), "depth": depth[i]}
        if op == "notify":
            return cond.notify(), {}
        if op == "notify_all":
            return cond.notify_all(), {}
        if op == "set":
            return ev.set(), {}
        if op == "clear":
            return ev.clear(), {}
        if op in ("ewait", "ewaitT"):
            inwait[i] = True          # Event.wait may release the lock inside Condition.wait
            try:
                r = ev.wait(TIMEOUT if op == "ewaitT" else None)
            finally:
                inwait[i] = False
            return r, {"flag": roles["flag"]._get_value()}
        if op == "is_set":
            r = ev.is_set()
            return r, {"flag": roles["flag"]._get_value()}
        raise RuntimeError("unknown scripted op " + op)

    def body(i):
        def f():
            for k, op in enumerate(scripts[i]):
                eng.op("begin", arg=op)
                events.append(("begin", eng.step_no, i, k, op, depth[i]))
                try:
                    r, extra = perform(i, op)
                    c = _code(r)
                except (AssertionError, ValueError) as e:
                    c, extra = _exc_code(e), {}
                results[i].append(f"{op}:{c}")
                events.append(("ret", eng.step_no, i, k, op, c, extra))
        return f

    for i in range(len(scripts)):
        eng.spawn(body(i))
    ENG = eng
    eng.start_all()

    def enabled_str():
        en = sorted(eng.enabled())
        return " ".join(f"t{i}:{v}" for i, v in en) if en else "-"

    def obs_str():
        f = roles["flag"].value if "flag" in roles else 0
        lk = roles["lock"]
        return (f"S={roles['sleeping'].value} W={roles['woken'].value} Q={roles['waitsem'].value} F={f} "
                f"L={lk.value}/{lk.count} " + " ".join(f"t{i}=[{','.join(rs)}]" for i, rs in enumerate(results)))

    lines = [f"ok | {enabled_str()} | {obs_str()}"]
    sched = []
    oplog = []
    claims_bad = None
    fixed = case.get("sched")
    rnd = random.Random(case.get("seed", 0))
    pt = case.get("pt", 0.3)
    end = "quiescent"
    n = 0
    while True:
        en = sorted(eng.enabled())
        if fixed is not None:
            if n >= len(fixed):
                end = "sched-end" if en else ("quiescent" if all(a.done for a in eng.actors) else "blocked")
                break
            pick = (fixed[n][0], fixed[n][1])
            if pick not in en:
                lines.append("not-enabled")
                sched.append(list(pick))
                end = "not-enabled"
                break
        else:
            if not en:
                end = "quiescent" if all(a.done for a in eng.actors) else "blocked"
                break
            if n >= max_steps:
                end = "maxsteps"
                break
            ws = [pt if v == "timeout" else 1.0 for _, v in en]
            pick = rnd.choices(en, weights=ws)[0]
        n += 1
        i, v = pick
        a = eng.actors[i]
        lab = _label(a.pending)
        try:
            eng.run_one(i, v)
        except Hang as e:
            lines.append("HANG " + str(e))
            end = "hang"
            break
        sched.append([i, v])
        oplog.append((eng.step_no, i, lab, v))
        lines.append(f"t{i} {lab} {v} | {enabled_str()} | {obs_str()}")
        # user-level critical sections: actors that believe they hold the condition's lock
        cl = [j for j in range(len(scripts)) if depth[j] > 0 and not inwait[j]]
        if len(cl) > 1 and claims_bad is None:
            claims_bad = (eng.step_no, cl)
    final = {k: o.value for k, o in roles.items()}
    final["lock_count"] = roles["lock"].count
    excs = [a.exc for a in eng.actors if a.exc]
    pending_end = [(a.idx, _label(a.pending)) for a in eng.actors if not a.done and a.pending is not None]
    return {"pending_end": pending_end, "lines": lines, "sched": sched, "events": events, "oplog": oplog, "end": end,
            "final": final, "claims_bad": claims_bad, "actor_exc": excs, "depth": depth}
