"""A property decided by several parts (e.g. an E2 part for the pure core and an E1 part for the
executor protocol).  Each part has the interface of `E2Prop`; results are merged."""
from . import common as C


class Composite:
    def __init__(self, pid, parts, assumptions=(), trusted_extra=()):
        self.id = pid
        self.parts = parts
        self.engine = "+".join(sorted({p.engine for p in parts}))
        self.lean_modules = []
        for p in parts:
            for m in p.lean_modules:
                if m not in self.lean_modules:
                    self.lean_modules.append(m)
        self.budget = {t: sum(p.budget.get(t, 0) for p in parts) for t in ("quick", "thorough")}
        self.assumptions = list(assumptions) + [a for p in parts for a in getattr(p, "assumptions", [])]
        self.trusted_extra = list(trusted_extra)

    def _part(self, name):
        for p in self.parts:
            if p.name == name:
                return p
        raise C.Infra(f"unknown part {name}")

    def correspondence(self, ctx, corr):
        rules = []
        self._sub = {}
        for p in self.parts:
            c = C.Corr()
            p.correspondence(ctx, c)
            self._sub[p.name] = c
            corr.evaluations += c.evaluations
            corr.distinct |= {p.name + ":" + h for h in c.distinct}
            rules.append(f"[{p.name}] {c.rule}")
            corr.samples += [{"part": p.name, **(s if isinstance(s, dict) else {"case": s})} for s in c.samples[:3]]
            for k, v in c.hist.items():
                corr.hist[f"{p.name}.{k}"] = v
            for d in c.disagreements:
                corr.disagreements.append(dict(d, part=p.name))
            for f in c.failures:
                corr.failures.append(dict(f, part=p.name))
            for k, v in c.known_hits.items():
                corr.known_hits[k] = corr.known_hits.get(k, 0) + v
            for k, v in c.extra.items():
                if isinstance(v, int) and isinstance(corr.extra.get(k), int):
                    corr.extra[k] += v
                elif k in corr.extra:
                    corr.extra[f"{p.name}.{k}"] = v
                else:
                    corr.extra[k] = v
            if c.model_error:
                corr.model_error = f"[{p.name}] {c.model_error}"
        corr.rule = " ;; ".join(rules)

    def search(self, ctx, corr, broken):
        for p in self.parts:
            c = self._sub.get(p.name) or C.Corr()
            r = p.search(ctx, c, broken)
            for k, v in c.extra.items():
                if k.startswith("search"):
                    corr.extra[f"{p.name}.{k}"] = v
            if r:
                return dict(r, part=p.name)
        return None

    def replay(self, ctx, data):
        res, fails = [], False
        for f in data.get("failing", []):
            p = self._part(f.get("part", self.parts[0].name))
            r = p.replay(ctx, {"failing": [f]})
            fails = fails or r.get("fails")
            res.append(r)
        return {"fails": fails, "results": res}

    def replay_finding(self, ctx, finding):
        p = self._part(finding.get("part", self.parts[0].name))
        return p.replay_finding(ctx, finding)
