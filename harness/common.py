"""Shared machinery of ./check: Lean obligations (build + axiom audit), drivers, evidence,
violation / known-finding reporting.  See DESIGN.md §3.3."""
import fcntl
import hashlib
import json
import os
import random
import re
import subprocess
import sys
import time

ROOT = os.path.dirname(os.path.dirname(os.path.abspath(__file__)))
LEAN = os.path.join(ROOT, "lean")
REPO = os.environ.get("VERIF_REPO", "/repo")
# evidence/ describes runs against /repo itself; a run against a scratch copy (seeded-change experiments) writes elsewhere
EVID = os.path.join(ROOT, "evidence") if "VERIF_REPO" not in os.environ else "/tmp/verif-scratch/evidence"
REPLAYS = os.path.join(ROOT, "replays")
ALLOWED_AXIOMS = {"propext", "Classical.choice", "Quot.sound"}
FORBIDDEN = re.compile(
    r"\bsorry\b|\badmit\b|^\s*axiom\s|native_decide|bv_decide|implemented_by|\bunsafe\s|maxHeartbeats\s+0\b",
    re.M,
)

TRUSTED_BASE = [
    "Lean 4.33.0 kernel (axioms allowed: propext, Classical.choice, Quot.sound; audited per theorem on every run)",
    "the hand-written Lean model, tied to /repo's working tree by the correspondence run of this check",
    "the correspondence harness itself (generators, substitutions of the environment, canonicalisation)",
    "CPython 3.12 and its C extensions, POSIX semantics of pipes/semaphores/signals (modelled, not verified)",
]


class Infra(Exception):
    """infrastructure problem (exit 2), never a violation"""


def log(*a):
    print(*a, file=sys.stderr, flush=True)


# ---------------------------------------------------------------------------- Lean side

def _flock():
    os.makedirs(os.path.join(LEAN, ".lake"), exist_ok=True)
    f = open(os.path.join(LEAN, ".lake", "verif.lock"), "w")
    fcntl.flock(f, fcntl.LOCK_EX)
    return f


def lake(args, timeout=1800):
    lk = _flock()
    try:
        r = subprocess.run(["lake"] + args, cwd=LEAN, capture_output=True, text=True, timeout=timeout)
    finally:
        lk.close()
    return r.returncode, r.stdout + r.stderr


def strip_comments(src):
    out, i, depth, n = [], 0, 0, len(src)
    while i < n:
        if src.startswith("/-", i):
            depth += 1
            i += 2
        elif depth and src.startswith("-/", i):
            depth -= 1
            i += 2
        elif depth:
            if src[i] == "\n":
                out.append("\n")
            i += 1
        elif src.startswith("--", i):
            while i < n and src[i] != "\n":
                i += 1
        else:
            out.append(src[i])
            i += 1
    return "".join(out)


def theorems_of(path):
    """fully qualified names of every `theorem` in a Props file (namespace stack tracked)"""
    src = strip_comments(open(path).read())
    ns, names = [], []
    for line in src.split("\n"):
        m = re.match(r"\s*namespace\s+(\S+)", line)
        if m:
            ns.append(m.group(1))
            continue
        m = re.match(r"\s*end\s+(\S+)\s*$", line)
        if m and ns and ns[-1] == m.group(1):
            ns.pop()
            continue
        if re.match(r"\s*(?:@\[[^\]]*\]\s*)?private\s+theorem\b", line):
            continue            # file-local helper: not an obligation of the property (and its name is mangled)
        m = re.match(r"\s*(?:@\[[^\]]*\]\s*)?(?:protected\s+)?theorem\s+([^\s:({\[]+)", line)
        if m:
            names.append(".".join(ns + [m.group(1)]))
    return names


def forbidden_hits(files):
    hits = []
    for f in files:
        src = strip_comments(open(f).read())
        for m in FORBIDDEN.finditer(src):
            ln = src.count("\n", 0, m.start()) + 1
            hits.append(f"{os.path.relpath(f, ROOT)}:{ln}: {m.group(0).strip()}")
    return hits


def import_closure(modules):
    """source files of the given modules and of everything of this project they import, transitively"""
    seen, todo = {}, list(modules)
    while todo:
        m = todo.pop()
        if m in seen:
            continue
        path = os.path.join(LEAN, *m.split(".")) + ".lean"
        if not os.path.exists(path):
            continue
        seen[m] = path
        for line in strip_comments(open(path).read()).split("\n"):
            mm = re.match(r"\s*(?:public\s+)?import\s+(\S+)", line)
            if mm and (mm.group(1).startswith("LokyModel") or mm.group(1).startswith("Drivers")):
                todo.append(mm.group(1))
    return sorted(seen.values())


def lean_files():
    res = []
    for d, _, fs in os.walk(LEAN):
        if "/.lake" in d or d.endswith("/.audit"):
            continue
        res += [os.path.join(d, f) for f in fs if f.endswith(".lean")]
    return sorted(res)


class Obligations:
    def __init__(self):
        self.theorems = []       # names
        self.discharged = []     # names that built and passed the audit
        self.failed = []         # (name or module, reason)
        self.axioms = {}         # name -> list
        self.cmd = ""
        self.leanchecker = None

    @property
    def ok(self):
        return not self.failed and len(self.discharged) == len(self.theorems) and self.theorems


def obligations(pid, modules, tier, extra_targets=()):
    """build the property's theorem modules and audit every theorem in them"""
    ob = Obligations()
    audit_dir = os.path.join(LEAN, ".audit")
    os.makedirs(audit_dir, exist_ok=True)
    # one audit file per module: two theorem modules of one property need not be importable together
    # (helper lemma files of independent proof chains may reuse a name)
    audits = []
    for k, m in enumerate(modules):
        ths = theorems_of(os.path.join(LEAN, *m.split(".")) + ".lean")
        ob.theorems += ths
        audit = os.path.join(audit_dir, pid + ("" if k == 0 else f"_{k}") + ".lean")
        with open(audit, "w") as f:
            f.write(f"import {m}\n")
            for t in ths:
                f.write(f"#print axioms {t}\n")
        audits.append(audit)
    ob.cmd = (f"cd lean && lake build {' '.join(modules)} && " +
              " && ".join(f"lake env lean {os.path.relpath(a, LEAN)}" for a in audits) +
              "  # + grep for sorry/admit/axiom/native_decide/bv_decide/implemented_by/unsafe")
    rc, out = lake(["build"] + list(modules) + list(extra_targets))
    if rc != 0:
        errs = [l for l in out.split("\n") if l.startswith("error")][:6]
        ob.failed.append((",".join(modules), "lake build failed: " + " | ".join(errs)))
        return ob
    hits = forbidden_hits(import_closure(modules))
    if hits:
        ob.failed.append(("lean tree", "forbidden construct: " + "; ".join(hits[:5])))
    out = ""
    for audit in audits:
        rc, o = lake(["env", "lean", os.path.relpath(audit, LEAN)])
        if rc != 0:
            ob.failed.append((audit, "audit file failed: " + o[-400:]))
            return ob
        out += "\n" + o
    flat = re.sub(r"\s+", " ", out)
    for t in ob.theorems:
        m = re.search(r"'" + re.escape(t) + r"' (does not depend on any axioms|depends on axioms: \[([^\]]*)\])", flat)
        if not m:
            ob.failed.append((t, "no #print axioms output"))
            continue
        ax = [a.strip() for a in (m.group(2) or "").split(",") if a.strip()]
        ob.axioms[t] = ax
        bad = [a for a in ax if a not in ALLOWED_AXIOMS]
        if bad:
            ob.failed.append((t, "depends on non-standard axioms " + ",".join(bad)))
        else:
            ob.discharged.append(t)
    if tier == "thorough" and not ob.failed:
        rc, out = lake(["env", "leanchecker"] + list(modules), timeout=3600)
        ob.leanchecker = (rc == 0)
        if rc != 0:
            ob.failed.append(("leanchecker", out[-400:]))
    return ob


class Driver:
    """a compiled Lean line-protocol driver; batch mode (all lines in, all lines out)"""

    def __init__(self, exe):
        self.exe = exe
        self.path = os.path.join(LEAN, ".lake", "build", "bin", exe)

    def ensure(self):
        rc, out = lake(["build", self.exe])
        if rc != 0 or not os.path.exists(self.path):
            raise Infra(f"cannot build driver {self.exe}: {out[-600:]}")

    def run(self, lines, timeout=600):
        data = "\n".join(lines) + "\n"
        r = subprocess.run([self.path], input=data, capture_output=True, text=True, timeout=timeout)
        if r.returncode != 0:
            raise Infra(f"driver {self.exe} exited {r.returncode}: {r.stderr[-400:]}")
        out = r.stdout.split("\n")
        if out and out[-1] == "":
            out.pop()
        if len(out) != len(lines):
            raise Infra(f"driver {self.exe}: {len(lines)} lines in, {len(out)} lines out")
        return out


def model_build_broken(out):
    return out


# ---------------------------------------------------------------------------- results

class Corr:
    """what a correspondence + monitor run covered"""

    def __init__(self):
        self.evaluations = 0
        self.distinct = set()          # hashes of distinct non-trivial cases
        self.rule = ""
        self.samples = []
        self.hist = {}
        self.disagreements = []        # model vs implementation differ: dict(input, model, impl)
        self.failures = []             # implementation fails the property's oracle: dict(input, what, ...)
        self.known_hits = {}           # finding id -> count of failing runs attributed to it
        self.extra = {}                # additional coverage keys
        self.model_error = None        # driver could not be built / run

    def count(self, key, k=1):
        self.hist[key] = self.hist.get(key, 0) + k

    def nontrivial(self, case):
        self.distinct.add(hashlib.sha1(repr(case).encode()).hexdigest()[:16])


def rng_for(seed, *salt):
    h = hashlib.sha256(("/".join([str(seed)] + [str(s) for s in salt])).encode()).digest()
    return random.Random(int.from_bytes(h[:8], "big"))


def write_json(path, obj):
    os.makedirs(os.path.dirname(path), exist_ok=True)
    tmp = path + ".tmp%d" % os.getpid()
    with open(tmp, "w") as f:
        json.dump(obj, f, indent=1, sort_keys=True, default=str)
        f.write("\n")
    os.replace(tmp, path)


def load_known():
    p = os.path.join(ROOT, "known_findings.json")
    if not os.path.exists(p):
        return {"findings": [], "fixed": []}
    return json.load(open(p))


class Timer:
    def __init__(self, budget):
        self.t0 = time.time()
        self.budget = budget

    def left(self):
        return self.budget - (time.time() - self.t0)

    def elapsed(self):
        return time.time() - self.t0
