"""E1 part: the real executor code under the deterministic scheduler, (a) in lock-step with the Lean
model M1 and (b) judged by the implementation-side oracles of harness/simengine/monitors.py."""
import collections
import hashlib
import json
import multiprocessing
import os
import re

from . import common as C
from .simengine import lockstep, monitors, resizestep, sweep, world as W

LOCKSTEP_FAMILIES = {"saturatetmo", "killwith", "cancelshut", "concurrent", "respawn", "saturate", "mixed", "notimeout", "contain", "crash", "kill", "init", "leak", "break", "graceful", "timeouts"}


def _sig(rec):
    return hashlib.sha1(json.dumps(rec["trace"]).encode()).hexdigest()[:16]


def _kinds(rec):
    ks = set()
    for a, v, lab in rec["trace"]:
        kind = "U" if a.startswith("U") else "W" if a.startswith("W") else a.rstrip("0123456789")
        ks.add(f"{kind}:{re.sub(r'[0-9]+', 'N', lab)}:{v}")
    return ks


def run_job(job):
    """one scenario, one schedule.  job = dict(family, seed, props, lockstep, schedule?, scen?)"""
    scen = job.get("scen") or sweep.gen_scenario(job["seed"], job["family"])
    if job.get("futyield"):
        scen = dict(scen, futyield=True)
    if job.get("schedule") is not None:
        pt = 0.15 if (scen.get("timeout") and job.get("tolerate_divergence")) else 0.0
        chooser = W.replay_chooser(job["schedule"], then=W.random_chooser(job["seed"], p_timeout=pt, p_crash=0.0))
    elif job.get("starve_bodies"):
        LONG_FROM[0] = scen.get("long_from", 0)
        chooser = starving_chooser(job["seed"], p_timeout=scen["sched"].get("p_timeout", 0.0) if scen.get("timeout") else 0.0)
    elif job.get("delay"):
        chooser = W.delay_chooser(job["seed"], p_timeout=min(0.1, scen["sched"].get("p_timeout", 0.0)),
                                  crash=scen["sched"].get("p_crash", 0.0) > 0)
    elif job.get("pct"):
        chooser = W.pct_chooser(job["seed"], depth=1 + job["seed"] % 4, p_timeout=scen["sched"].get("p_timeout", 0.0),
                                p_crash=(0.5 if scen["sched"].get("p_crash", 0.0) > 0 else 0.0))
    else:
        chooser = W.random_chooser(job["seed"], **scen["sched"])
    st, rec = W.forked(W.run_scenario, scen, chooser, job.get("max_steps", 4000))
    out = {"family": job["family"], "seed": job["seed"], "status": st}
    if st != "ok":
        out["detail"] = str(rec)[-500:]
        return out
    if rec["end"] == "diverged" and job.get("tolerate_divergence"):
        return {"family": job["family"], "seed": job["seed"], "status": "ok", "end": "diverged", "steps": rec["steps"], "fails": [],
                "known": {}, "sig": "diverged", "kinds": [], "nontrivial": False, "ntimeouts": 0, "ncrashes": 0}
    fails, known, facts = monitors.evaluate_attributed(scen, rec, job["props"])
    if job.get("starve_bodies"):
        # (failures of the body-starving oracles are attributed like the others: a forced shutdown whose own SIGKILL hit
        #  a worker inside the management-lock window is the listed D5, not a new violation)
        for fl in monitors.starved(scen, rec, facts, job["props"]):
            kid = monitors.attribute(scen, rec, facts, fl)
            if kid:
                known.setdefault(kid, []).append(fl)
            else:
                fails.append(fl)
    out.update(end=rec["end"], steps=rec["steps"], fails=fails, known={k: v for k, v in known.items()},
               sig=_sig(rec), kinds=sorted(_kinds(rec)),
               nontrivial=bool(facts["timeouts"] or facts["crashes"] or facts["cancels"] or facts["kill_shutdown"]
                               or facts["init_fail"] or facts["breaking_spec"] or rec["steps"] > 60),
               ntimeouts=facts["timeouts"], ncrashes=len(facts["crashes"]))
    if fails or known:
        out["scen"] = scen
        out["schedule"] = [[a, v] for a, v, _ in rec["trace"]]
    if job.get("lockstep") and scen.get("kind") == "plain":
        try:
            d = lockstep.compare(scen, rec)
        except Exception as e:      # driver missing / crashed
            d = {"kind": "driver-error", "error": repr(e)[:300]}
        out["lockstep"] = d
        if d is not None:
            out["scen"] = scen
            out["schedule"] = [[a, v] for a, v, _ in rec["trace"]]
    if scen.get("kind") == "reusable":
        if job.get("resize_lockstep", True):
            # the caller's operations inside _resize, one by one, against the Lean model M1Z (LokyModel/Resize.lean)
            try:
                out["resize"] = resizestep.compare(scen, rec)
            except Exception as e:
                out["resize"] = {"calls": 0, "ops": 0, "diff": {"kind": "driver-error", "error": repr(e)[:300]}}
            if out["resize"]["diff"] is not None:
                out["scen"] = scen
                out["schedule"] = [[a, v] for a, v, _ in rec["trace"]]
        out["reuse_calls"] = rec.get("reuse_calls", [])
        out["nusers"] = len(scen["users"])
        out["cpu_count"] = scen.get("cpu_count", 2)
        out["clean"] = not facts["crashes"] and not facts["timeouts"]
        if "scen" not in out:
            out["scen_small"] = scen
    if job.get("sample"):
        out["sample"] = {"scenario": scen, "schedule_head": [[a, v, l] for a, v, l in rec["trace"][:25]],
                         "steps": rec["steps"], "end": rec["end"], "final": rec["final"].get("canon")}
    return out


LONG_FROM = [0]


def starving_chooser(seed, p_timeout=0.0):
    """never lets a task body finish: what happens must not depend on the bodies"""
    # half of the starved runs use priority scheduling (e.g. all submissions racing ahead of the workers)
    base = W.pct_chooser(seed, depth=1 + seed % 3, p_timeout=p_timeout, p_crash=0.0) if seed % 2 else \
        W.random_chooser(seed, p_timeout=p_timeout, p_crash=0.0)

    def factory(eng):
        ch = base(eng)

        def choose(e, choices):
            cs = [c for c in choices if not (e.actors[c[0]].pending is not None and e.actors[c[0]].pending.kind == "taskend"
                                             and e.actors[c[0]].pending.arg >= LONG_FROM[0])]
            if not any(v != "crash" for _, v in cs):
                return None
            return ch(e, cs)
        return choose
    return factory


# a quarter of the runs of these families also switch actors between two Future method calls of parent threads
# (Future.cancel racing with the manager's dispatch, set_result racing with cancel, …): oracle only, no lock-step
FUTYIELD_FAMILIES = {"mixed", "notimeout", "contain", "concurrent", "callback", "timeouts", "break", "crash"}


class E1Part:
    engine = "E1"
    name = "e1"
    budget = {"quick": 170, "thorough": 1700}

    def __init__(self, pid, families, props, lean_modules, quick=1200, thorough=40000, lockstep_on=True,
                 starve=0, name="e1"):
        self.id = pid
        self.families = families            # list of (family, weight)
        self.props = props
        self.lean_modules = lean_modules
        self.n = {"quick": quick, "thorough": thorough}
        self.lockstep_on = lockstep_on
        self.starve = starve                # share of runs with the body-starving scheduler
        self.name = name
        self.assumptions = [
            "E1 switches actors only at announced operations (semaphore, pipe, wait, start/join, kill, body, API boundaries; "
            "in a quarter of the runs also before every Future method call of a parent thread — those runs are judged by "
            "the oracles only, M1 keeps each Future call atomic with its neighbouring operation): "
            "other races between two pure-Python statements of threads of the parent are outside the model and the engine",
            "pickling is real; pipes are unbounded message lists; time is adversarial (a time-out can fire whenever the awaited condition is false)",
            "an executor caught in a reference cycle (e.g. after submit() raised the stored BrokenProcessPool) is treated as never collected: cyclic GC is not modelled",
        ]

    # ------------------------------------------------------------------------------
    def jobs(self, ctx, n, salt="gen"):
        tot = sum(w for _, w in self.families)
        jobs = []
        base = (ctx.seed * 1000003) % (2 ** 31)
        for fam, w in self.families:
            k = max(1, round(n * w / tot))
            for i in range(k):
                fy = i % 4 == 2 and fam in FUTYIELD_FAMILIES
                jobs.append({"family": fam, "seed": base + i, "props": self.props, "futyield": fy,
                             "lockstep": self.lockstep_on and fam in LOCKSTEP_FAMILIES and not fy,
                             "starve_bodies": bool(self.starve and i % self.starve == 0
                                                   and fam in ("kill", "killwith", "saturate", "saturatetmo", "saturateleak", "satreuse")),
                             "pct": i % 5 in (1, 3) and fam not in ("saturate",),
                             "delay": (i % 5 == 4 or (i % 5 == 2 and fam.startswith("reuse"))) and not fy
                                      and fam not in ("saturate", "saturatetmo", "saturateleak", "satreuse"),
                             "sample": i == 0})
        return jobs

    def corpus_jobs(self):
        p = os.path.join(C.ROOT, "harness", "corpus", f"e1_{self.id}.json")
        if not os.path.exists(p):
            return []
        jobs = []
        for c in json.load(open(p)):
            jobs.append({"family": c.get("family", "corpus"), "seed": c.get("seed", 0), "props": self.props,
                         "lockstep": self.lockstep_on and c["scen"].get("kind") == "plain", "scen": c["scen"],
                         "schedule": c.get("schedule")})
        return jobs

    def run(self, jobs):
        ctx = multiprocessing.get_context("fork")
        with ctx.Pool(min(16, os.cpu_count() or 1)) as pool:
            return pool.map(run_job, jobs, chunksize=4)

    def listed(self, ctx):
        return {f["id"] for f in ctx.known}

    def absorb(self, ctx, corr, results):
        listed = self.listed(ctx)
        kinds = set()
        agree = 0
        for r in results:
            corr.evaluations += 1
            if r["status"] != "ok":
                if r["status"] == "timeout":
                    raise C.Infra(f"E1 run timed out: {r}")
                raise C.Infra(f"E1 harness failure: {r}")
            corr.count("family=" + r["family"])
            corr.count("end=" + r["end"])
            corr.count("steps", r["steps"])
            corr.count("timeouts_fired", r["ntimeouts"])
            corr.count("crashes", r["ncrashes"])
            kinds |= set(r["kinds"])
            if r["nontrivial"]:
                corr.distinct.add(r["sig"])
            for fl in r["fails"]:
                corr.failures.append({"input": {"scenario": r["scen"], "schedule": r["schedule"]},
                                      "what": f"{fl[0]} {fl[1]}: {fl[2]}", "family": r["family"], "seed": r["seed"]})
            for kid, fls in r["known"].items():
                if kid in listed:
                    corr.known_hits[kid] = corr.known_hits.get(kid, 0) + 1
                else:
                    for fl in fls:
                        corr.failures.append({"input": {"scenario": r["scen"], "schedule": r["schedule"]},
                                              "what": f"{fl[0]} {fl[1]}: {fl[2]} (class {kid}, not a listed finding of {self.id})",
                                              "family": r["family"], "seed": r["seed"]})
            if "lockstep" in r:
                if r["lockstep"] is None:
                    agree += 1
                else:
                    corr.disagreements.append({"input": {"scenario": r["scen"], "schedule": r["schedule"]},
                                               "model_vs_impl": r["lockstep"], "family": r["family"], "seed": r["seed"]})
            if "sample" in r:
                corr.samples.append(r["sample"])
        return kinds, agree

    def correspondence(self, ctx, corr):
        drv = C.Driver("exec_driver")
        try:
            drv.ensure()
        except C.Infra as e:
            corr.model_error = str(e)
        jobs = self.corpus_jobs() + self.jobs(ctx, self.n[ctx.tier])
        if corr.model_error:
            for j in jobs:
                j["lockstep"] = False
        res = self.run(jobs)
        kinds, agree = self.absorb(ctx, corr, res)
        corr.rule = (f"scenarios (families {[f for f, _ in self.families]}: workers 1-3, tasks 1-6 of every outcome kind, 1-2 user "
                     "threads issuing submit/cancel/shutdown(wait,kill)/drop/interpreter-exit) generated from the seed and executed by "
                     "the REAL loky code under a seeded random schedule with adversarial time-outs and worker crashes; every run is judged by "
                     f"the oracles {self.props} and, for single-executor scenarios, compared step by step (operation label, enabled set, "
                     "observable state) with the Lean model. Distinct = distinct schedule traces; non-trivial = a time-out, crash, cancel, "
                     "forced shutdown, initializer failure or pool-breaking payload occurred, or more than 60 steps.")
        corr.extra["traces_validated_against_impl"] = agree
        corr.extra["transitions"] = len(kinds)
        corr.extra["states"] = len(corr.distinct)
        corr.extra["operation_kinds_hit"] = len(kinds)
        corr.failures.sort(key=lambda f: len(f["input"]["schedule"]))
        corr.disagreements.sort(key=lambda f: len(f["input"]["schedule"]))

    def search(self, ctx, corr, broken):
        """proofs or lock-step broken, no oracle failure yet: more and more adversarial schedules, oracles only"""
        n = 6000 if ctx.tier == "quick" else 60000
        jobs = []
        # the disagreeing scenarios first, each under many schedules
        for d in corr.disagreements[:20]:
            for i in range(40):
                jobs.append({"family": d["family"], "seed": d["seed"] * 131 + i, "props": self.props, "lockstep": False,
                             "scen": dict(d["input"]["scenario"])})
        # fault enumeration on the disagreeing traces: a crash of every worker at every operation index
        # (and, where idle time-outs are configured, a continuation in which they keep firing)
        picked, seen_fam = [], collections.Counter()
        for d in sorted(corr.disagreements, key=lambda d: -sum(1 for x in d["input"]["schedule"] if x[1] == "timeout")):
            if seen_fam[d["family"]] < 3 and len(picked) < 10:
                picked.append(d)
                seen_fam[d["family"]] += 1
        for d in picked:
            sched = d["input"]["schedule"]
            stride = max(1, len(sched) // 120)
            for i in range(2, len(sched), stride):
                workers = sorted({a for a, _ in sched[:i] if a.startswith("W")})
                for w in workers:
                    jobs.append({"family": d["family"], "seed": d["seed"] * 977 + i, "props": self.props, "lockstep": False,
                                 "scen": dict(d["input"]["scenario"]), "schedule": [list(x) for x in sched[:i]] + [[w, "crash"]],
                                 "tolerate_divergence": True})
        for j in self.jobs(ctx, n):
            j["seed"] += 7919
            j["lockstep"] = False
            jobs.append(j)
        c2 = C.Corr()
        self.absorb(ctx, c2, self.run(jobs))
        corr.extra["search_runs"] = c2.evaluations
        if c2.failures:
            return c2.failures[0]
        return None

    def replay_case(self, case, props="own"):
        job = {"family": "replay", "seed": 0, "props": self.props if props == "own" else props, "lockstep": False,
               "scen": case["scenario"], "schedule": case["schedule"]}
        return run_job(job)

    def replay(self, ctx, data):
        res, fails = [], False
        for f in data.get("failing", []):
            r = self.replay_case(f["input"])
            bad = bool(r.get("fails") or r.get("known"))
            fails = fails or bad
            res.append({"fails": r.get("fails"), "known": r.get("known"), "end": r.get("end")})
        return {"fails": fails, "results": res}

    def replay_finding(self, ctx, finding):
        w = finding.get("witness")
        if not w:
            return {"fails": False}
        # a finding is a class of stuck / wrong runs: its witness is judged by every oracle
        r = self.replay_case(w, props=None)
        hit = list(r.get("fails", []))
        for kid, fls in r.get("known", {}).items():
            hit += fls
        return {"fails": bool(hit), "what": [list(h) for h in hit][:3], "end": r.get("end")}


class ReusePart(E1Part):
    """get_reusable_executor / _resize on the real code under E1, each call compared with the decision model M1R"""

    def __init__(self, pid, props, lean_modules, quick=1000, thorough=30000, families=None):
        super().__init__(pid, families or [("reuse", 4), ("reusecrash", 1)], props, lean_modules, quick=quick,
                         thorough=thorough, lockstep_on=False, name="reuse")

    def correspondence(self, ctx, corr):
        drv = C.Driver("reusable_driver")
        try:
            drv.ensure()
        except C.Infra as e:
            corr.model_error = str(e)
            drv = None
        jobs = self.jobs(ctx, self.n[ctx.tier])
        try:
            C.Driver("resize_driver").ensure()
        except C.Infra as e:
            corr.model_error = (corr.model_error or "") + str(e)
            for j in jobs:
                j["resize_lockstep"] = False
        res = self.run(jobs)
        kinds, agree = self.absorb(ctx, corr, res)
        rs_calls = rs_ops = 0
        for r in res:
            d = r.get("resize")
            if not d:
                continue
            rs_calls += d["calls"]
            rs_ops += d["ops"]
            if d["diff"] is not None:
                corr.disagreements.append({"input": {"scenario": r.get("scen"), "schedule": r.get("schedule", [])},
                                           "model_vs_impl": dict(d["diff"], part="_resize operation lock-step (LokyModel/Resize.lean)"),
                                           "family": r["family"], "seed": r["seed"]})
        corr.extra["resize_calls_in_lockstep"] = rs_calls
        corr.extra["resize_operations_in_lockstep"] = rs_ops
        lines, refs = [], []
        for r in res:
            if r.get("status") != "ok" or r.get("nusers") != 1:
                continue
            next_id = 0
            for c in sorted(r.get("reuse_calls", []), key=lambda c: c["t1"]):
                a, b, after = c["args"], c["before"], c["after"]
                if c.get("death_before"):
                    # a death may be detected between the caller's look at the previous instance and the decision
                    next_id = max(next_id, after["id"] + 1)
                    continue
                # identities of the keyword arguments: what the module remembered before the call, what this call asks for,
                # what it remembers afterwards
                kws = []

                def kwid(d):
                    k = json.dumps(d, sort_keys=True)
                    if k not in kws:
                        kws.append(k)
                    return kws.index(k) + 1
                prev = "none" if b is None else f"{b['id']}:{b['mw']}:{int(b['broken'])}:{int(b['shutdown'])}:{kwid(b.get('stored'))}"
                reuse = {True: "yes", False: "no"}.get(a.get("reuse", "auto"), "auto")
                lines.append(f"callk {prev} {next_id} {r['cpu_count']} {a.get('max_workers') or 'none'} {reuse} "
                             f"{int(a.get('kill_workers', False))} {kwid(after.get('want_cfg'))}")
                if b is None:
                    obs = f"created {after['id']}"
                elif after["id"] == b["id"]:
                    obs = f"reused {b['id']} {b['mw']} {after['mw']}"
                else:
                    obs = f"replaced {b['id']} {int(a.get('kill_workers', False))} {after['id']}"
                obs += f" kw={kwid(after.get('stored'))}"
                refs.append((obs, r, c))
                next_id = max(next_id, after["id"] + 1)
                if b is not None and after["id"] == b["id"] and b["started"] and r["clean"] and not c["faults_during"] \
                        and not b["broken"] and not b["shutdown"] and r["family"] != "reusecb":
                    # (reusecb: a done-callback's own request may resize the pool while this call waits for the lock)
                    lines.append(f"resize {len(b['pids'])} {after['mw']}")
                    kept = len(set(after["pids"]) & set(b["pids"]))
                    refs.append((("resize", kept, len(after["pids"])), r, c))
        if drv and lines:
            outs = drv.run(lines)
            ok = 0
            for o, (obs, r, c) in zip(outs, refs):
                if isinstance(obs, tuple):
                    parts = o.split(" ")
                    good = len(parts) == 4 and int(parts[2]) == obs[1] and int(parts[3]) == obs[2]
                else:
                    good = (o == obs)
                if good:
                    ok += 1
                else:
                    corr.disagreements.append({"input": {"scenario": r.get("scen") or r.get("scen_small"), "schedule": r.get("schedule", [])},
                                               "model_vs_impl": {"model": o, "impl": obs, "call": c},
                                               "family": r["family"], "seed": r["seed"]})
            corr.extra["calls_compared_with_model"] = len(refs)
            corr.extra["traces_validated_against_impl"] = ok
        corr.rule = ("histories of get_reusable_executor calls (max_workers 1-4, reuse True/False/auto, kill_workers, changed initializer) "
                     "interleaved with submissions and explicit shutdowns from 1-2 threads, executed by the REAL reusable_executor.py + "
                     "process_executor.py under the deterministic scheduler with idle time-outs (and crashes in the reusecrash family); "
                     f"oracles {self.props}; every call of single-thread histories is compared with the Lean decision model (action, ids, sizes), "
                     "every fault-free resize with the resize plan (survivors, size); and in EVERY call that reused the live instance (any "
                     "number of threads, time-outs, deaths, flags raised meanwhile) the caller's announced operations inside _resize are "
                     "compared one by one with the operation-level model LokyModel/Resize.lean fed with the shared state observed after "
                     "the caller's previous operation. Distinct = distinct schedule traces.")
        corr.extra["transitions"] = len(kinds)
        corr.extra["states"] = len(corr.distinct)
