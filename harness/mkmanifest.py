"""regenerate /verif/MANIFEST.json from harness/manifest_data.py (python3 harness/mkmanifest.py)"""
import json, os, sys
sys.path.insert(0, os.path.dirname(os.path.dirname(os.path.abspath(__file__))))
from harness.manifest_data import CLAIMS, NOT_YET, HOOKS, ENGINES, NOTES
ROOT = os.path.dirname(os.path.dirname(os.path.abspath(__file__)))
ids = [json.loads(l)["id"] for l in open(os.path.join(ROOT, "properties.jsonl"))]
checks = []
for pid in ids:
    if pid not in CLAIMS:
        continue
    c = CLAIMS[pid]
    checks.append({
        "property_id": pid,
        "quick_cmd": f"./check {pid} --tier quick",
        "thorough_cmd": f"./check {pid} --tier thorough",
        "evidence_file": f"evidence/{pid}.json",
        "replay_cmd_template": f"./check {pid} --replay {{path}}",
        "engine": c["engine"],
        "level_claimed": {"category": "proof", "text": c["text"], "design_ref": c["design_ref"]},
        "level_note": c["note"],
        "technique": c["technique"],
    })
na = [{"property_id": p, "reason": NOT_YET.get(p, "check not built yet in this session; see DESIGN.md §10")}
      for p in ids if p not in CLAIMS]
m = {"version": 1,
     "setup_cmd": "cd lean && lake build && lake build " + " ".join(sorted({d for c in CLAIMS.values() for d in c.get("drivers", [])})),
     "hooks": HOOKS, "engines": ENGINES, "checks": checks, "notes": NOTES, "not_applicable": na}
json.dump(m, open(os.path.join(ROOT, "MANIFEST.json"), "w"), indent=1)
print("claimed:", [c["property_id"] for c in checks], "not claimed:", [x["property_id"] for x in na])
