"""Seeded scenario generation and parallel sweeps of the real code under random schedules.

    python -m harness.simengine.sweep N [family] [--seed0 S]     # summary of oracle failures
    python -m harness.simengine.sweep --show SEED [family]       # one run, verbose
"""
import collections
import json
import multiprocessing
import os
import random
import sys

from . import monitors, world as W

BODIES = ["ok"] * 10 + ["raise", "raise", "sysexit", "kbi"]


def gen_task(rnd, family):
    spec = {"body": rnd.choice(BODIES)}
    r = rnd.random()
    if family in ("contain", "mixed") and r < 0.25:
        spec["args"] = rnd.choice(["unpicklable", "toolarge"])
    elif family in ("contain", "mixed") and r < 0.40:
        spec["res"] = "unpicklable"
    elif family in ("contain", "mixed") and r < 0.50:
        spec["body"], spec["exc"] = "raise", "unpicklable"
    elif family in ("contain", "mixed") and r < 0.58:
        spec["body"], spec["exc"] = "raise", "falsy"     # an exception object that is falsy (has a length, 0)
    if family in ("contain", "mixed") and rnd.random() < 0.15:
        spec["cb"] = rnd.choice(["ok", "raise"])
    if family in ("crash", "mixed") and rnd.random() < 0.12:
        spec["body"] = "die"
    if family == "break" and rnd.random() < 0.3:
        spec[rnd.choice(["args", "res"])] = "badunpickle"
    return spec


def gen_scenario(seed, family="mixed"):
    if family.startswith("reuse"):
        return gen_reusable(seed, family)
    rnd = random.Random(f"scen/{family}/{seed}")
    if family == "pickler":
        mw = rnd.choice([1, 2])
        nt = rnd.randint(2, 6)
        u0 = [["create"]]
        for k in range(nt):
            if rnd.random() < 0.6:
                u0.append(["setpickler", rnd.choice(["pickle", "cloudpickle"])])
            u0.append(["submit", k])
        if rnd.random() < 0.5:
            u0.append(["setpickler", rnd.choice(["pickle", "cloudpickle"])])
        if rnd.random() < 0.5:
            u0.append(["shutdown", True, False])
        return {"kind": "plain", "max_workers": mw, "timeout": rnd.choice([None, 5]), "tasks": [{"body": "ok"}] * nt,
                "family": family, "users": [u0], "sched": {"p_timeout": 0.1, "p_crash": 0.0, "max_crashes": 0}}
    if family == "callback":
        # done-callbacks that submit more work from whatever thread resolves the future (manager, feeder, canceller)
        mw = rnd.choice([1, 2])
        n = rnd.randint(1, 4)
        tasks = [gen_task(rnd, rnd.choice(["plain", "contain", "crash"])) for _ in range(n)]
        extra = []
        for k in range(n):
            if rnd.random() < 0.6:
                tasks[k] = dict(tasks[k], cb="submit", cb_task=n + len(extra))
                extra.append({"body": rnd.choice(["ok", "ok", "raise"])})
        tasks += extra
        u0 = [["create"]] + [["submit", k] for k in range(n)]
        if rnd.random() < 0.3:
            u0.append(["cancel", rnd.randrange(n)])
        r = rnd.random()
        if r < 0.4:
            u0.append(["shutdown", True, rnd.random() < 0.3])
        return {"kind": "plain", "max_workers": mw, "timeout": rnd.choice([None, 5]), "tasks": tasks, "family": family,
                "users": [u0], "sched": {"p_timeout": 0.1, "p_crash": rnd.choice([0.0, 0.01, 0.02]), "max_crashes": 1}}
    if family == "respawn":
        # work, a pause long enough for every worker to time out, then more work - possibly fatal to the new worker
        mw = rnd.choice([1, 1, 2])
        n1, n2 = rnd.randint(0, 2), rnd.randint(1, 3)
        tasks = [{"body": "ok"}] * n1 + [{"body": rnd.choice(["ok", "die", "die", "raise"])} for _ in range(n2)]
        u0 = [["create"]] + [["submit", k] for k in range(n1)] + [["idle"]] * rnd.choice([10, 25, 40])
        u0 += [["submit", k] for k in range(n1, n1 + n2)]
        r = rnd.random()
        if r < 0.3:
            u0.append(["shutdown", True, False])
        elif r < 0.4:
            u0.append(["shutdown", False, False])
        return {"kind": "plain", "max_workers": mw, "timeout": 5, "tasks": tasks, "family": family, "users": [u0],
                "sched": {"p_timeout": rnd.choice([0.3, 0.6]), "p_crash": rnd.choice([0.0, 0.01]), "max_crashes": 1}}
    if family == "concurrent":
        # several threads submitting (and cancelling) at the same time on one plain executor
        mw = rnd.choice([1, 2, 3])
        nu = rnd.choice([2, 2, 3])
        nt = rnd.randint(nu, 7)
        tasks = [{"body": rnd.choice(["ok", "ok", "ok", "raise"])} for _ in range(nt)]
        users = [[["create"]]] + [[] for _ in range(nu - 1)]
        for k in range(nt):
            u = users[k % nu]
            u.append(["submit", k])
            if rnd.random() < 0.15:
                u.append(["cancel", rnd.randrange(k + 1)])
        return {"kind": "plain", "max_workers": mw, "timeout": rnd.choice([None, None, 5]), "tasks": tasks, "family": family,
                "users": users, "sched": {"p_timeout": 0.1, "p_crash": 0.0, "max_crashes": 0}}
    if family == "cancelshut":
        # the work items still pending when the executor is flagged as shutting down have (mostly) been cancelled:
        # the manager must not go back to waiting with a table it has just emptied itself
        mw = rnd.choice([1, 1, 2])
        n1, n2 = rnd.randint(0, 2), rnd.randint(1, 3)
        tasks = [{"body": rnd.choice(["ok", "ok", "raise"])} for _ in range(n1 + n2)]
        u0 = [["create"]] + [["submit", k] for k in range(n1)] + [["idle"]] * rnd.choice([0, 10, 25])
        for k in range(n1, n1 + n2):
            u0.append(["submit", k])
            if rnd.random() < 0.8:
                u0.append(["cancel", k])
        r = rnd.random()
        u0.append(["shutdown", True, False] if r < 0.6 else ["shutdown", False, False] if r < 0.75 else
                  ["drop"] if r < 0.87 else ["pyexit"])
        if u0[-1] == ["shutdown", False, False] and rnd.random() < 0.6:
            # a second, waited shutdown must still find the manager thread to wake and join
            u0.append(["shutdown", True, False])
        return {"kind": "plain", "max_workers": mw, "timeout": rnd.choice([None, None, None, 5]), "tasks": tasks, "family": family,
                "users": [u0], "sched": {"p_timeout": 0.1, "p_crash": 0.0, "max_crashes": 0}}
    if family == "saturateleak":
        # a worker leaves through the memory-leak protection, then long tasks must still get a full pool
        mw = rnd.choice([1, 2, 2, 3])
        nt = mw + rnd.randint(0, 2)
        pre = rnd.randint(3, 5)
        tasks = [{"body": "ok", "quick": True}] * pre + [{"body": "ok"}] * nt
        u0 = [["create"]] + [["submit", k] for k in range(pre)] + [["idle"]] * rnd.choice([15, 30]) + \
             [["submit", k] for k in range(pre, pre + nt)]
        return {"kind": "plain", "max_workers": mw, "timeout": None, "tasks": tasks, "family": "saturate", "long_from": pre,
                "leak_after": list(range(1, pre)), "users": [u0], "sched": {"p_timeout": 0.0, "p_crash": 0.0, "max_crashes": 0}}
    if family == "satreuse":
        # a reusable executor created small, grown, then given a burst of long tasks
        small, big = rnd.choice([(1, 3), (1, 4), (2, 4), (1, 2)])
        tasks = [{"body": "ok"}] * big
        u0 = [["reusable", {"max_workers": small, "timeout": None}], ["reusable", {"max_workers": big, "timeout": None}]]
        u0 += [["submit", k] for k in range(big)]
        return {"kind": "reusable", "max_workers": big, "timeout": None, "cpu_count": 2, "tasks": tasks, "family": "saturate",
                "users": [u0], "sched": {"p_timeout": 0.0, "p_crash": 0.0, "max_crashes": 0}}
    if family == "saturatetmo":
        # as `saturate`, on a pool with an idle time-out: workers may leave between the submissions (and while items
        # are dispatched but not yet read); whatever leaves must be replaced as long as work is outstanding
        mw = rnd.choice([2, 2, 3])
        nt = mw + rnd.randint(0, 2)
        u0 = [["create"]]
        for k in range(nt):
            if rnd.random() < 0.5:
                u0 += [["idle"]] * rnd.choice([3, 8, 15])
            u0.append(["submit", k])
        return {"kind": "plain", "max_workers": mw, "timeout": 5, "tasks": [{"body": "ok"}] * nt, "family": family,
                "users": [u0], "sched": {"p_timeout": rnd.choice([0.1, 0.3, 0.5]), "p_crash": 0.0, "max_crashes": 0}}
    if family == "saturate":
        mw = rnd.choice([1, 2, 3])
        nt = mw + rnd.randint(0, 3)
        u0 = [["create"]] + [["submit", k] for k in range(nt)]
        users = [u0]
        if rnd.random() < 0.4 and nt > 1:
            cut = rnd.randint(1, nt - 1)
            users = [u0[:1 + cut], [["submit", k] for k in range(cut, nt)]]
        return {"kind": "plain", "max_workers": mw, "timeout": None, "tasks": [{"body": "ok"}] * nt, "family": family,
                "users": users, "sched": {"p_timeout": 0.0, "p_crash": 0.0, "max_crashes": 0}}
    mw = rnd.choice([1, 1, 2, 2, 3])
    nt = rnd.randint(1, 6)
    use_timeout = rnd.random() < (0.0 if family in ("notimeout",) else 1.0 if family == "timeouts" else 0.5)
    scen = {"kind": "plain", "max_workers": mw, "timeout": 5 if use_timeout else None,
            "tasks": [gen_task(rnd, family) for _ in range(nt)], "family": family}
    if family in ("init", "mixed") and rnd.random() < (0.5 if family == "init" else 0.1):
        scen["init"] = [rnd.choice(["ok", "ok", "ok", "fail"] if family == "init" else ["ok"]) for _ in range(6)]
    if family in ("leak",) or (family == "mixed" and rnd.random() < 0.1):
        scen["leak_after"] = [rnd.randrange(nt)]
    u0 = [["create"]]
    ids = list(range(nt))
    split = nt if rnd.random() < 0.7 else rnd.randint(0, nt)
    p_idle = 0.5 if family in ("timeouts", "crash", "leak") else 0.15
    for k in ids[:split]:
        if use_timeout and rnd.random() < p_idle:
            u0 += [["idle"]] * rnd.choice([3, 8, 20])
        u0.append(["submit", k])
        if rnd.random() < 0.15:
            u0.append(["cancel", rnd.choice(ids[:k + 1])])
    users = [u0]
    if split < nt:
        u1 = []
        for k in ids[split:]:
            u1.append(["submit", k])
            if rnd.random() < 0.2:
                u1.append(["cancel", k])
        users.append(u1)
    r = rnd.random()
    if family == "graceful":
        r = r * 0.68 if r > 0.1 else 0.9
    if family == "killwith":
        # a forced shutdown that does not wait, then the plain shutdown(wait=True) that leaving a `with executor:` block
        # issues: the kill request must survive it
        end = ["shutdown", False, True]
    elif family == "kill":
        end = ["shutdown", True, True]
    elif r < 0.35:
        end = ["shutdown", True, False]
    elif r < 0.5:
        end = ["shutdown", False, False]
    elif r < 0.6:
        end = ["drop"]
    elif r < 0.68:
        end = ["pyexit"]
    elif r < 0.80:
        end = ["shutdown", rnd.random() < 0.7, True]
    else:
        end = None
    if end:
        u0.append(end)
        if family == "killwith":
            u0.append(["shutdown", True, False])
        if end[0] == "shutdown" and rnd.random() < 0.3:
            u0.append(["submit", 0])
        if end[0] == "shutdown" and not end[1] and rnd.random() < 0.5:
            u0.append(["drop"])
    scen["users"] = users
    # schedule parameters
    scen["sched"] = {"p_timeout": (rnd.choice([0.02, 0.1, 0.3, 0.6] if family == "timeouts" else [0.02, 0.1, 0.3])
                                   if use_timeout else 0.0),
                     "p_crash": (rnd.choice([0.0, 0.004, 0.015]) if family in ("crash", "mixed") else 0.0),
                     "max_crashes": rnd.choice([1, 1, 2])}
    return scen


def gen_reusable(seed, family="reuse"):
    """histories of get_reusable_executor calls (resizes, replacements) interleaved with submissions"""
    rnd = random.Random(f"scen/{family}/{seed}")
    if family == "reusecb":
        # a done-callback asks for the singleton with another size: the request runs in the manager thread.  Growing
        # the pool with nothing else in flight must work; what waits for something only the manager thread can
        # deliver (other jobs, departing workers) is the listed finding D26
        mw = rnd.choice([1, 2])
        nt = rnd.choice([1, 1, 1, 2, 3])
        tasks = [{"body": rnd.choice(["ok", "ok", "raise"])} for _ in range(nt)]
        k = rnd.randrange(nt)
        tasks[k]["cb"] = "resize"
        tasks[k]["cb_mw"] = rnd.choice([mw + 1, mw + 1, mw + 2, mw, max(1, mw - 1)])
        u0 = [["reusable", {"max_workers": mw, "timeout": None}]] + [["submit", i] for i in range(nt)]
        if rnd.random() < 0.3:
            u0.append(["reusable", {"max_workers": rnd.choice([1, 2, 3]), "timeout": None}])
        return {"kind": "reusable", "max_workers": 2, "timeout": None, "cpu_count": 2, "tasks": tasks, "family": family,
                "users": [u0], "sched": {"p_timeout": 0.0, "p_crash": 0.0, "max_crashes": 0}}
    if family == "reuseput":
        # a shrink by more workers than the call queue has slots (cpu_count 1: three): the resize blocks in put(None)
        # with the management lock held until workers make room - while one of them may die
        mw = rnd.choice([5, 6, 7])
        nt = rnd.randint(1, 3)
        tasks = [{"body": "ok"} for _ in range(nt)]
        u0 = [["reusable", {"max_workers": mw, "timeout": None}]] + [["submit", i] for i in range(nt)]
        u0.append(["reusable", {"max_workers": rnd.choice([1, 1, 2]), "timeout": None}])
        return {"kind": "reusable", "max_workers": 2, "timeout": None, "cpu_count": 1, "tasks": tasks, "family": family,
                "users": [u0], "sched": {"p_timeout": 0.0, "p_crash": rnd.choice([0.0, 0.02, 0.05]), "max_crashes": 1}}
    if family == "reusecancel":
        # more queued tasks than the call queue holds (cpu_count 1: three slots), the last ones cancelled while still
        # PENDING (they stay in the table until the manager reaches them), then a resize that waits for the jobs while
        # a worker may die
        mw = rnd.choice([1, 1, 2])
        nt = rnd.randint(5, 6)
        tasks = [{"body": "ok"} for _ in range(nt)]
        u0 = [["reusable", {"max_workers": mw, "timeout": None}]] + [["submit", i] for i in range(nt)]
        for i in range(nt - rnd.choice([1, 2]), nt):
            u0.append(["cancel", i])
        u0.append(["reusable", {"max_workers": rnd.choice([m for m in (1, 2, 3) if m != mw]), "timeout": None}])
        return {"kind": "reusable", "max_workers": 2, "timeout": None, "cpu_count": 1, "tasks": tasks, "family": family,
                "users": [u0], "sched": {"p_timeout": 0.0, "p_crash": rnd.choice([0.01, 0.03, 0.06]), "max_crashes": 1}}
    nt = rnd.randint(1, 2) if family == "reusegrow" else rnd.randint(1, 6)
    use_timeout = rnd.random() < 0.6
    scen = {"kind": "reusable", "max_workers": 2, "timeout": 5 if use_timeout else None, "cpu_count": 2,
            "tasks": [gen_task(rnd, "plain") for _ in range(nt)], "family": family}
    big = family in ("reusebig", "reusebigcrash")   # more workers than call-queue slots (2*cpu_count+1): the sentinel loop meets Full
    if big:
        scen["cpu_count"] = 1
    grow = family == "reusegrow"    # a small pool grown while a worker may die: crashes around _resize's spawn
    if grow:
        use_timeout = False
        scen["timeout"] = None
    def call(first=False, after_dead=False):
        a = {"max_workers": rnd.choice([4, 5, 6, 2] if big else [1, 2, 3, 4]), "timeout": 5 if use_timeout else None}
        if grow:
            a["max_workers"] = rnd.choice([1, 2]) if first else rnd.choice([3, 4, 5])
        if not first:
            r = rnd.random()
            if r < 0.15:
                a["reuse"] = True
            elif r < 0.3:
                a["reuse"] = False
            if rnd.random() < 0.15:
                a["kill_workers"] = True
            if rnd.random() < 0.12:
                a["newinit"] = True
            if use_timeout and rnd.random() < 0.1:
                a["timeout"] = 7            # another finite idle time-out: the arguments have changed
            # reuse=True together with changed arguments: only a dead previous instance is replaced, and the fresh
            # one must be built from the arguments of THIS call
            if rnd.random() < (0.4 if after_dead else 0.1 if family == "reusecrash" else 0.04):
                a["reuse"] = True
                if rnd.random() < 0.7:
                    a["newinit"] = True
                elif use_timeout:
                    a["timeout"] = 7
        return ["reusable", a]
    if family == "reusecbsub":
        # done-callbacks that submit more work (the joblib pattern) while the owner resizes the pool
        extra = []
        for k in range(nt):
            if rnd.random() < 0.5:
                scen["tasks"][k] = dict(scen["tasks"][k], cb="submit", cb_task=nt + len(extra))
                extra.append({"body": rnd.choice(["ok", "ok", "raise"])})
        scen["tasks"] += extra
    users = []
    nu = 1 if (grow or family == "reusecbsub") else rnd.choice([1, 1, 2])
    ids = list(range(nt))
    rnd.shuffle(ids)
    for u in range(nu):
        sc = [call(first=(u == 0))]
        mine = ids[u::nu]
        for k in mine:
            sc.append(["submit", k])
            if rnd.random() < 0.12:
                sc.append(["cancel", k])     # a cancelled item may still sit in the table when a resize waits for the jobs
            if rnd.random() < 0.45:
                sc.append(call())
        if rnd.random() < (0.7 if big else 0.2):
            # an explicit shutdown of the singleton - waited for or not - then the next request must replace it
            sc.append(["shutdown", rnd.random() < 0.6, rnd.random() < 0.3])
            sc.append(call(after_dead=True))
        users.append(sc)
    scen["users"] = users
    scen["sched"] = {"p_timeout": (rnd.choice([0.02, 0.1, 0.3]) if use_timeout else 0.0),
                     "p_crash": (rnd.choice([0.0, 0.01, 0.02]) if family == "reusecrash" else
                                 rnd.choice([0.02, 0.05]) if (grow or family == "reusebigcrash") else 0.0), "max_crashes": 1}
    return scen


def run_one(job):
    family, seed, props = job
    scen = gen_scenario(seed, family)
    if os.environ.get("SWEEP_PCT"):
        ch = W.pct_chooser(seed, depth=1 + seed % 4, p_timeout=scen["sched"].get("p_timeout", 0.0),
                           p_crash=(0.5 if scen["sched"].get("p_crash", 0.0) > 0 else 0.0))
    else:
        ch = W.random_chooser(seed, **scen["sched"])
    st, rec = W.forked(W.run_scenario, scen, ch)
    if st != "ok":
        return {"seed": seed, "status": st, "detail": rec}
    fails, known, facts = monitors.evaluate_attributed(scen, rec, props)
    return {"seed": seed, "status": "ok", "end": rec["end"], "steps": rec["steps"], "fails": fails, "known": known,
            "facts": {k: (len(v) if isinstance(v, (list, set)) else v) for k, v in facts.items()}}


def sweep(n, family="mixed", seed0=0, props=None, procs=None):
    ctx = multiprocessing.get_context("fork")
    jobs = [(family, seed0 + i, props) for i in range(n)]
    with ctx.Pool(procs or min(16, os.cpu_count() or 1)) as pool:
        return pool.map(run_one, jobs, chunksize=4)


def main():
    a = sys.argv[1:]
    if a[0] == "--show":
        seed = int(a[1])
        family = a[2] if len(a) > 2 else "mixed"
        scen = gen_scenario(seed, family)
        print(json.dumps(scen))
        st, rec = W.forked(W.run_scenario, scen, W.random_chooser(seed, **scen["sched"]))
        if st != "ok":
            print(st, rec)
            return
        for i, t in enumerate(rec["trace"]):
            print(i + 1, t)
        for k in ("end", "steps", "final", "events", "blocked", "api", "results", "procs", "actors_exc", "actors_done", "exec_log", "cancel_ok"):
            print(k, "=", rec[k])
        print(monitors.evaluate(scen, rec))
        return
    n = int(a[0])
    family = a[1] if len(a) > 1 and not a[1].startswith("--") else "mixed"
    seed0 = int(a[a.index("--seed0") + 1]) if "--seed0" in a else 0
    res = sweep(n, family, seed0)
    cnt = collections.Counter()
    first = {}
    ends = collections.Counter()
    steps = 0
    for r in res:
        if r["status"] != "ok":
            cnt[("HARNESS", r["status"])] += 1
            first.setdefault(("HARNESS", r["status"]), (r["seed"], str(r.get("detail"))[-400:]))
            continue
        ends[r["end"]] += 1
        steps += r["steps"]
        for pid, code, msg in r["fails"]:
            cnt[(pid, code)] += 1
            first.setdefault((pid, code), (r["seed"], msg))
        for kid, fl in r["known"].items():
            cnt[("known", kid)] += 1
            first.setdefault(("known", kid), (r["seed"], str(fl[0])))
    print("runs", len(res), "ends", dict(ends), "steps", steps)
    for k, v in sorted(cnt.items()):
        print(f"{k[0]:8s} {k[1]:24s} {v:5d}   first: seed={first[k][0]} {first[k][1][:260]}")


if __name__ == "__main__":
    main()
