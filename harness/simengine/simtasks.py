"""Task bodies, initializers and (un)picklable payloads used by E1 scenarios.
Lives in an importable module so that cloudpickle pickles everything by reference."""
import pickle
import struct

from . import engine as E

LOG = []          # (worker name, task id) for every body that started
INIT_LOG = []     # (worker name, args) for every initializer run
PICKLER_RES_LOG = []  # (task id, pickler name in force in the worker when the result is pickled)
PICKLER_LOG = []  # (task id, pickler name in force in the worker when the body runs)


class Unpicklable:
    """pickling fails — with the error types real objects fail with (PicklingError, an OSError from a closed handle,
    a TypeError from an un-picklable member, an IndexError / KeyError from a container's own __reduce__)"""

    def __init__(self, how=0):
        self.how = how

    def __reduce__(self):
        if self.how % 5 == 1:
            raise OSError("simulated: handle is closed")
        if self.how % 5 == 2:
            raise TypeError("simulated: cannot pickle '_thread.lock' object")
        if self.how % 5 == 3:
            raise IndexError("simulated: index out of range while pickling")
        if self.how % 5 == 4:
            raise KeyError("simulated: missing key while pickling")
        raise pickle.PicklingError("simulated: cannot pickle")


class TooLarge:
    """pickles fine; the simulated pipe refuses it the way `send_bytes` refuses > 2 GiB (struct.error)"""


def _raise_unpickle():
    raise pickle.UnpicklingError("simulated: cannot un-pickle")


class BadUnpickle:
    def __reduce__(self):
        return (_raise_unpickle, ())


class Payload:
    """a picklable value that compares by content"""

    def __init__(self, v):
        self.v = v

    def __eq__(self, o):
        return isinstance(o, Payload) and o.v == self.v

    def __repr__(self):
        return f"Payload({self.v})"

    def __reduce__(self):
        # the pickler in force when a worker pickles the result of task v/10 (what the property is about)
        me = E.ENG.me() if E.ENG is not None else None
        if me is not None and me.kind == "proc" and E.WORLD is not None:
            PICKLER_RES_LOG.append((self.v // 10, sim_get_pickler()))
        return (Payload, (self.v,))


class TaskError(ValueError):
    pass


class FalsyError(ValueError):
    """an exception object whose truth value is False (it has a length, and it is 0)"""

    def __len__(self):
        return 0


class UnpicklableError(Exception):
    def __reduce__(self):
        raise pickle.PicklingError("simulated: exception cannot be pickled")


def make_arg(kind, i=0):
    return {"ok": None, "unpicklable": Unpicklable(i), "toolarge": TooLarge(), "badunpickle": BadUnpickle()}[kind]


def task(i, spec, arg=None):
    """body of task i.  `spec` = dict(body=..., res=..., exc=...)"""
    E.ENG.op("task", None, i)
    me = E.ENG.me()
    LOG.append((me.name, i))
    if E.WORLD is not None:
        PICKLER_LOG.append((i, sim_get_pickler()))
    me.in_body = i
    try:
        E.ENG.op("taskend", None, i)
    finally:
        me.in_body = None
    me.tasks_done.append(i)
    body = spec.get("body", "ok")
    if body == "die":
        # the task takes its worker down (os._exit / segfault)
        me.killed = True
        me.proc._die(spec.get("code", -11))
        E.ENG.events.append((me.name, "DIE", f"task({i})", E.ENG.steps))
        raise E.ActorKilled()
    if body == "raise":
        if spec.get("exc") == "unpicklable":
            raise UnpicklableError(i)
        if spec.get("exc") == "falsy":
            raise FalsyError(i)
        raise TaskError(i)
    if body == "sysexit":
        raise SystemExit(3)
    if body == "kbi":
        raise KeyboardInterrupt()
    res = spec.get("res", "ok")
    if res == "unpicklable":
        return Unpicklable()
    if res == "badunpickle":
        return BadUnpickle()
    return Payload(i * 10)


def initializer(outcomes, tag):
    """initializer(outcomes, tag): outcome of the n-th spawned worker is outcomes[n] (default ok)"""
    E.ENG.op("init", None)
    me = E.ENG.me()
    INIT_LOG.append((me.name, tag))
    n = me.proc.pid - 100
    if n < len(outcomes) and outcomes[n] == "fail":
        raise RuntimeError("simulated initializer failure")


def cb_ok(fut):
    pass


def cb_raise(fut):
    raise RuntimeError("simulated callback failure")


def sim_set_pickler(name=None):
    """stand-in for reduction.set_loky_pickler: the selection is per simulated process"""
    E.WORLD.pickler[E._owner()] = name or "cloudpickle"


def sim_get_pickler():
    return E.WORLD.pickler.get(E._owner(), "cloudpickle")


HOLDER = None      # the scenario's holder (executor, futures); set by world.run_scenario


class CbSubmit:
    """done-callback that re-enters the executor: submits task `k` (as user code in callbacks does)"""

    def __init__(self, k, tasks):
        self.k, self.tasks = k, tasks

    def __call__(self, fut):
        H = HOLDER
        ex = H.ex
        if ex is None:
            return
        spec = self.tasks[self.k]
        f = ex.submit(task, self.k, spec, make_arg(spec.get("args", "ok"), self.k))
        H.futs[self.k] = f
        H.by_wid.append((self.k, f))
        H.cb_submitted.append(self.k)


class CbResize:
    """done-callback that asks for the reusable executor with another size (user code does that: "the batch is over,
    shrink the pool") - it runs in whatever thread resolves the future, normally the executor manager thread"""

    def __init__(self, mw):
        self.mw = mw

    def __call__(self, fut):
        H = HOLDER
        ex = H.ex
        rec = {"mw": self.mw, "returned": False, "thread": E.ENG.me().name}
        if ex is not None:
            rec.update(pending_others=len([k for k, it in list(ex._pending_work_items.items()) if it.future is not fut]),
                       own_in_table=any(it.future is fut for it in list(ex._pending_work_items.values())),
                       old_mw=ex._max_workers, registered=len(ex._processes))
        H.cb_resizes.append(rec)
        H.cb_resize(self.mw)
        rec["returned"] = True
