"""Loads loky's real source files into fresh modules whose imports resolve to the simulated
kernel of engine.py, and runs scenarios on them.  No line of loky is edited or re-implemented."""
import builtins
import gc
import weakref
import json
import os
import pickle
import random
import re
import sys
import types
import warnings

from . import engine as E
from . import simtasks

_CODE_CACHE = {}


def _load(modname, relpath, shims, extra_globals=None):
    path = os.path.join(E.REPO, relpath)
    key = path
    if key not in _CODE_CACHE:
        _CODE_CACHE[key] = compile(open(path).read(), path, "exec")
    m = types.ModuleType(modname)
    m.__file__ = path
    m.__package__ = modname.rpartition(".")[0]
    real_import = builtins.__import__

    def imp(name, globals=None, locals=None, fromlist=(), level=0):
        key = ("." * level) + name
        if key in shims:
            return shims[key]
        return real_import(name, globals, locals, fromlist, level)

    b = dict(builtins.__dict__)
    b["__import__"] = imp
    m.__dict__["__builtins__"] = b
    if extra_globals:
        m.__dict__.update(extra_globals)
    exec(_CODE_CACHE[key], m.__dict__)
    return m


class World:
    """one simulated parent process with loky loaded over the simulated kernel"""

    def __init__(self, scen):
        import multiprocessing as real_mp
        import multiprocessing.queues as mpq
        self.scen = scen
        self.ctx = E.SimCtx()
        self.executors = []             # weak info about every executor constructed: dict
        self.leak_after = set(scen.get("leak_after", []))
        eng = E.ENG

        def tick():
            eng.clock += 2.0
            return eng.clock

        time_shim = types.SimpleNamespace(monotonic=lambda: 0.0, time=tick,
                                          sleep=lambda s: E.ENG.op("sleep"))
        # the stdlib Queue implementation is executed as it is; only its module globals are redirected
        mpq.threading = E.make_threading_shim(yielding_locks=False)
        mpq.connection = types.SimpleNamespace(Pipe=lambda duplex=False: E.SimPipe(duplex))
        mpq.time = time_shim
        mpq.register_after_fork = lambda *a, **k: None

        th = E.make_threading_shim(yielding_locks=True)
        self.lq = _load("loky.backend.queues", "loky/backend/queues.py", {"threading": th})
        mp_shim = types.ModuleType("mp_shim")
        mp_shim.Pipe = lambda duplex=False: E.SimPipe(duplex)
        mp_shim.util = real_mp.util
        mp_shim.connection = types.SimpleNamespace(wait=E.sim_wait)
        time_mod = types.SimpleNamespace(time=tick, sleep=lambda s: E.ENG.op("sleep"))

        def kill_process_tree(p, use_psutil=True):
            E.ENG.op("kill", p)
            if p.alive:
                E.ENG.kill_actor(p._actor, -9)
            p.join()

        import loky.backend.utils as real_utils

        def exitcodes(processes):
            return real_utils._format_exitcodes(
                [p.exitcode for p in list(processes.values()) if p.exitcode is not None])

        utils_shim = types.SimpleNamespace(kill_process_tree=kill_process_tree,
                                           get_exitcodes_terminated_worker=exitcodes)
        backend_shim = types.SimpleNamespace(get_context=lambda *a, **k: self.ctx)
        ncpu = scen.get("cpu_count", 2)
        context_shim = types.SimpleNamespace(cpu_count=lambda *a, **k: ncpu, _MAX_WINDOWS_WORKERS=61)
        shims = {
            "threading": th,
            "multiprocessing": mp_shim,
            "multiprocessing.connection": mp_shim.connection,
            "time": time_mod,
            ".backend": backend_shim,
            ".backend.context": context_shim,
            ".backend.queues": self.lq,
            ".backend.utils": utils_shim,
        }
        self.pe = _load("loky.process_executor", "loky/process_executor.py", shims)
        rshims = {
            "threading": th,
            "time": time_mod,
            "multiprocessing": mp_shim,
            ".process_executor": self.pe,
            ".backend.context": context_shim,
            ".backend": backend_shim,
        }
        self.re = _load("loky.reusable_executor", "loky/reusable_executor.py", rshims)
        if scen.get("futyield"):
            # scheduling points *between* Future method calls of parent threads (each call itself is atomic:
            # it runs under the Future's own condition lock); such runs are judged by the oracles only
            base = self.pe.Future

            def yielding(name):
                orig = getattr(base, name)

                def meth(f, *a, **k):
                    if getattr(E.ENG._tls, "actor", None) is not None:
                        E.ENG.op("fut", None, name)
                    return orig(f, *a, **k)
                meth.__name__ = name
                return meth
            self.pe.Future = type("Future", (base,), {n: yielding(n) for n in (
                "cancel", "cancelled", "running", "done", "set_running_or_notify_cancel", "set_result",
                "set_exception")})
        # per simulated process pickler selection (the real one is interpreter-global)
        self.pickler = {}

        self.pe.set_loky_pickler = simtasks.sim_set_pickler
        self.pe.get_loky_pickler_name = simtasks.sim_get_pickler
        self.pe._global_shutdown_lock.label = "gshut"
        self.re._executor_lock.label = "execlock"
        # label the kernel objects of every executor right after construction (harness glue)
        orig_init = self.pe.ProcessPoolExecutor.__init__
        world = self

        def init(ex, *a, **k):
            world.ctx.exit_labels = False
            orig_init(ex, *a, **k)
            world.label(ex)
            world.ctx.exit_labels = True

        self.pe.ProcessPoolExecutor.__init__ = init

    # -- labels -----------------------------------------------------------------
    def label(self, ex):
        n = len(self.executors)
        pre = "" if n == 0 else f"e{n}."
        ex._processes_management_lock.label = pre + "mgmt"
        ex._shutdown_lock.label = pre + "shut"
        cq = ex._call_queue
        cq._rlock.label = pre + "cq.rlock"
        cq._wlock.label = pre + "cq.wlock"
        cq._sem.label = pre + "cq.sem"
        cq._reader.label = cq._writer.label = pre + "cq.pipe"
        cq._reader.pipe.label = pre + "cq.pipe"
        rq = ex._result_queue
        rq._wlock.label = pre + "rq.wlock"
        rq._rlock.label = pre + "rq.rlock"
        rq._reader.label = rq._writer.label = pre + "rq.pipe"
        w = ex._executor_manager_thread_wakeup
        w._reader.label = w._writer.label = pre + "wakeup"
        self.executors.append({"flags": ex._flags, "processes": ex._processes, "pending": ex._pending_work_items,
                               "running": ex._running_work_items, "max_workers0": ex._max_workers,
                               "id": getattr(ex, "executor_id", None), "cq_sem": cq._sem,
                               "wakeup": w, "rq_pipe": rq._reader.pipe, "cq_pipe": cq._reader.pipe,
                               "ref": weakref.ref(ex), "cq": cq})

    # -- child processes ----------------------------------------------------------
    def before_child_start(self, proc):
        """a child gets *copies* of queue objects (pickling semantics), sharing only kernel objects"""
        import multiprocessing.context as mpctx
        import multiprocessing.queues as mpq

        def copy_arg(a):
            if isinstance(a, (mpq.Queue, mpq.SimpleQueue)):
                mpctx.set_spawning_popen(object())
                try:
                    st = a.__getstate__()
                finally:
                    mpctx.set_spawning_popen(None)
                b = type(a).__new__(type(a))
                for k_ in ("thread_wakeup", "shutdown_lock", "pending_work_items", "running_work_items"):
                    if hasattr(a, k_):
                        setattr(b, k_, None)
                b.__setstate__(st)
                for c in (b._reader, b._writer):
                    (c.pipe.r_open if c.readable else c.pipe.w_open).add(proc.pid)
                return b
            return a

        proc._args = tuple(copy_arg(a) for a in proc._args)

    def on_process_death(self, proc):
        for o in list(E._BY_ID.values()):
            if isinstance(o, E.SimConn):
                o.pipe.r_open.discard(proc.pid)
                o.pipe.w_open.discard(proc.pid)

    def worker_entry(self, proc):
        """give the worker its own copy of the process-global state of process_executor"""
        pe = self.pe
        g = dict(pe.__dict__)
        g["_threads_wakeups"] = {}
        g["_global_shutdown"] = False
        g["_CURRENT_DEPTH"] = 0
        osshim = types.ModuleType("os_shim")
        osshim.__dict__.update(os.__dict__)
        osshim.getpid = lambda: proc.pid
        g["os"] = osshim
        g["_USE_PSUTIL"] = True
        world = self

        def mem(pid, force_gc=False):
            a = E.ENG.me()
            done = getattr(a, "tasks_done", [])
            return 10 ** 10 if (world.leak_after & set(done)) else 0

        g["_get_memory_usage"] = mem
        g["gc"] = types.SimpleNamespace(collect=lambda *a: 0)
        g["_enable_faulthandler_if_needed"] = lambda: None

        def rebind(f):
            return types.FunctionType(f.__code__, g, f.__name__, f.__defaults__, f.__closure__)

        g["_python_exit"] = rebind(pe._python_exit)
        target = rebind(proc._target)
        proc.depth_arg = proc._args[7] if len(proc._args) > 7 else None
        proc.init_args = (proc._args[2], proc._args[3]) if len(proc._args) > 3 else None

        def entry():
            code = 0
            try:
                target(*proc._args)
            except SystemExit as e:
                code = e.code if isinstance(e.code, int) else 1
            except E.ActorKilled:
                raise
            except BaseException as e:        # uncaught exception in the worker's main: exit code 1
                E.ENG.events.append((proc.name, "WORKER-EXC", f"{type(e).__name__}: {e}"[:200]))
                code = 1
            E.ENG.op("exit", None, code)
            proc._die(code)

        return entry


# ----------------------------------------------------------------------------- scenarios

class Holder:
    pass


def fut_obs(f):
    st = f._state
    if st == "PENDING":
        return "P"
    if st == "RUNNING":
        return "R"
    if st in ("CANCELLED", "CANCELLED_AND_NOTIFIED"):
        return "C"
    if f._exception is not None:
        return "E:" + type(f._exception).__name__
    return "D"


def fut_canon(f, spec):
    """the model's name of a future's state (Exec.Fut)"""
    o = fut_obs(f)
    if not o.startswith("E:"):
        return o
    t = o[2:]
    if t == "ShutdownExecutorError":
        return "Es"
    if t == "TerminatedWorkerError":
        return "Et"
    if t == "BrokenProcessPool":
        return "Eb"
    if spec.get("args", "ok") in ("unpicklable", "toolarge"):
        return "Ef"
    return "Ew"


def run_scenario(scen, chooser_factory, max_steps=4000, observe=True):
    """run one scenario under one schedule; returns a JSON-able record.  Call in a forked child."""
    gc.disable()
    warnings.simplefilter("ignore")
    import logging
    logging.disable(logging.CRITICAL)
    eng = E.Engine()
    E.set_engine(eng)
    E._BY_ID.clear()
    world = World(scen)
    E.set_world(world)
    simtasks.LOG.clear()
    simtasks.INIT_LOG.clear()
    simtasks.PICKLER_LOG.clear()
    simtasks.PICKLER_RES_LOG.clear()
    H = Holder()
    H.ex = None
    H.futs = {}
    H.by_wid = []
    H.reuse_calls = []
    H.seen_ids = set()
    H.api_tb = []
    H.cb_submitted = []
    H.cb_resizes = []
    H.last_reuse_kwargs = None
    simtasks.HOLDER = H
    H.pickler_at_submit = {}
    H.cb_resize = lambda mw: RE.get_reusable_executor(max_workers=mw, **(H.last_reuse_kwargs or {}))
    H.api = []              # (user, op index, op, outcome)
    H.cancel_ok = {}
    tasks = scen.get("tasks", [])
    reusable = scen.get("kind") == "reusable"
    init = scen.get("init")
    PE, RE = world.pe, world.re

    def kwargs():
        kw = {}
        if init is not None:
            kw["initializer"] = simtasks.initializer
            kw["initargs"] = (tuple(init), "tag0")
        return kw

    def do_op(ui, op):
        """one script operation; every local reference to the executor dies when this returns"""
        kind = op[0]
        out = "ok"
        try:
            if kind == "create":
                H.ex = PE.ProcessPoolExecutor(max_workers=scen["max_workers"], context=world.ctx,
                                              timeout=scen.get("timeout"), **kwargs())
            elif kind == "reusable":
                a = dict(op[1])
                kw = kwargs()
                if a.pop("newinit", False):
                    kw = {"initializer": simtasks.initializer, "initargs": ((), "tag1")}
                want_cfg = {"timeout": a.get("timeout", 10), "init": (kw.get("initargs") or (None, None))[1]}
                prev = RE._executor
                before = None
                if prev is not None:
                    before = {"id": prev.executor_id, "mw": prev._max_workers, "broken": prev._flags.broken is not None,
                              "shutdown": prev._flags.shutdown, "pids": sorted(prev._processes),
                              "kwargs_same": RE._executor_kwargs == dict(
                                  context=None, timeout=a.get("timeout", 10), job_reducers=None, result_reducers=None,
                                  initializer=kw.get("initializer"), initargs=kw.get("initargs", ()), env=None),
                              "started": prev._executor_manager_thread is not None,
                              "pending": len(prev._pending_work_items),
                              "stored": None if RE._executor_kwargs is None else
                              {"timeout": RE._executor_kwargs.get("timeout"),
                               "init": (RE._executor_kwargs.get("initargs") or (None, None))[1]
                               if RE._executor_kwargs.get("initializer") is not None else None}}
                del prev
                t0 = len(E.ENG.trace)
                H.last_reuse_kwargs = dict(timeout=a.get("timeout", 10), **kw)
                ex = RE.get_reusable_executor(max_workers=a.get("max_workers"), timeout=a.get("timeout", 10),
                                              kill_workers=a.get("kill_workers", False),
                                              reuse=a.get("reuse", "auto"), **kw)
                H.ex = ex
                after = {"id": ex.executor_id, "mw": ex._max_workers, "broken": ex._flags.broken is not None,
                         "shutdown": ex._flags.shutdown, "pids": sorted(ex._processes),
                         "alive": sorted(p.pid for p in ex._processes.values() if p.alive),
                         "started": ex._executor_manager_thread is not None,
                         # how the instance handed out is configured, and what the module remembers about it
                         "cfg": {"timeout": ex._timeout, "init": (ex._initargs or (None, None))[1]
                                 if ex._initializer is not None else None},
                         "stored": None if RE._executor_kwargs is None else
                         {"timeout": RE._executor_kwargs.get("timeout"),
                          "init": (RE._executor_kwargs.get("initargs") or (None, None))[1]
                          if RE._executor_kwargs.get("initializer") is not None else None},
                         "want_cfg": want_cfg}
                if ex.executor_id not in H.seen_ids:
                    # a fresh instance is handed out: every earlier instance must be completely shut down by now
                    mine = set(ex._processes)
                    after["stale_live"] = sorted(
                        [a.name for a in E.ENG.actors.values()
                         if re.fullmatch(r"M\d*", a.name) and not a.done and not a.killed] +
                        [a.name for a in E.ENG.actors.values()
                         if a.kind == "proc" and a.proc is not None and a.proc.alive and a.proc.pid not in mine])
                    H.seen_ids.add(ex.executor_id)
                window = E.ENG.trace[t0:]
                H.reuse_calls.append({"user": ui, "args": a, "before": before, "after": after,
                                      "faults_during": sum(1 for t in window if t[1] in ("timeout", "crash")),
                                      "death_before": any(e[1] in ("CRASH", "DIE") for e in E.ENG.events),
                                      "t0": t0, "t1": len(E.ENG.trace)})
                out = f"id={ex.executor_id},mw={ex._max_workers},nproc={len(ex._processes)}," \
                      f"shutdown={ex._flags.shutdown},broken={ex._flags.broken is not None}"
            elif kind == "submit":
                k = op[1]
                ex = H.ex
                if ex is None:
                    out = "noexec"
                else:
                    spec = tasks[k]
                    f = ex.submit(simtasks.task, k, spec, simtasks.make_arg(spec.get("args", "ok"), k))
                    cb = spec.get("cb")
                    if cb == "submit":
                        f.add_done_callback(simtasks.CbSubmit(spec["cb_task"], tasks))
                    elif cb == "resize":
                        f.add_done_callback(simtasks.CbResize(spec["cb_mw"]))
                    elif cb:
                        f.add_done_callback(simtasks.cb_raise if cb == "raise" else simtasks.cb_ok)
                    H.futs[k] = f
                    H.by_wid.append((k, f))
                    H.pickler_at_submit[k] = PE.get_loky_pickler_name()
            elif kind == "cancel":
                f = H.futs.get(op[1])
                if f is None:
                    out = "nofut"
                else:
                    r = f.cancel()
                    H.cancel_ok[op[1]] = H.cancel_ok.get(op[1], False) or r
                    out = f"cancel={r}"
            elif kind == "shutdown":
                ex = H.ex
                if ex is None:
                    out = "noexec"
                else:
                    ex.shutdown(wait=op[1], kill_workers=op[2])
            elif kind == "idle":
                pass
            elif kind == "setpickler":
                PE.set_loky_pickler(op[1])
            elif kind == "drop":
                H.ex = None
            elif kind == "pyexit":
                PE._python_exit()
            else:
                raise RuntimeError("unknown script op " + kind)
        except E.ActorKilled:
            raise
        except BaseException as e:
            out = "raise:" + type(e).__name__
            if kind != "submit":
                import traceback
                H.api_tb.append((ui, kind, "".join(traceback.format_exception(type(e), e, e.__traceback__))[-1500:]))
            if any(e is i["flags"].broken for i in world.executors):
                out += ":flag"
        return out

    def user(ui, script):
        def body():
            for oi, op in enumerate(script):
                E.ENG.op("api", None, f"{op[0]}")
                out = do_op(ui, op)
                H.api.append((ui, oi, op[0], out))
        return body

    for ui, script in enumerate(scen["users"]):
        a = eng.spawn(f"U{ui}", user(ui, script), "thread")
        a.owner_pid = 0

    obs_log = []

    def observe_now():
        o = {"futs": {k: fut_obs(f) for k, f in sorted(H.futs.items())}}
        exs = []
        for n, info in enumerate(world.executors):
            fl = info["flags"]
            mgr = eng.actors.get(eng.manager_of.get(id(fl)))
            exs.append({"shutdown": fl.shutdown, "broken": None if fl.broken is None else type(fl.broken).__name__,
                        "kill": fl.kill_workers, "nproc": len(info["processes"]),
                        "pending": len(info["pending"]), "running": len(info["running"]),
                        "mgr": "none" if mgr is None else ("done" if mgr.done else "running"),
                        "alive_pids": sorted(p.pid for p in list(info["processes"].values()) if p.alive),
                        # what a thread inside _resize reads (harness/props: lock-step with LokyModel/Resize.lean)
                        "id": getattr(info["ref"](), "executor_id", None),
                        "procs": [[p.pid, bool(p.alive)] for p in list(info["processes"].values())],
                        "mw": getattr(info["ref"](), "_max_workers", None),
                        "started": getattr(info["ref"](), "_executor_manager_thread", None) is not None,
                        "feeder": getattr(info["cq"], "_thread", None) is not None,
                        "feeder_started": getattr(getattr(info["cq"], "_thread", None), "_actor", None) is not None,
                        "tstarting": sorted(a.name for a in eng.actors.values()
                                            if a.pending is not None and a.pending.kind == "tstart"),
                        "nextpid": eng.next_pid})
        o["ex"] = exs
        o["in_body"] = sorted((a.name, a.in_body) for a in eng.actors.values()
                              if getattr(a, "in_body", None) is not None and not a.killed and not a.done)
        o["alive"] = sorted(a.name for a in eng.actors.values() if a.kind == "proc" and a.proc.alive)
        if exs:
            e0 = exs[0]
            b = {None: "-", "TerminatedWorkerError": "t", "BrokenProcessPool": "b"}.get(e0["broken"], "?")
            o["canon"] = ("futs=[" + ",".join(fut_canon(f, tasks[k]) for k, f in H.by_wid) + "] "
                          f"sd={str(e0['shutdown']).lower()} br={b} kill={str(bool(e0['kill'])).lower()} nproc={e0['nproc']} "
                          f"pend={e0['pending']} run={e0['running']} alive=[{','.join(o['alive'])}] "
                          f"body=[{','.join(f'{n}:{t}' for n, t in o['in_body'])}]")
        else:
            o["canon"] = "futs=[] sd=false br=- kill=false nproc=0 pend=0 run=0 alive=[] body=[]"
        return o

    if observe:
        eng.on_step = lambda e: obs_log.append(observe_now())

    chooser = chooser_factory(eng)
    enabled_log = []

    def wrapped(e, choices):
        enabled_log.append(sorted(f"{a}:{v}" for a, v in choices))
        return chooser(e, choices)

    end = eng.run(wrapped, max_steps=max_steps)
    final_enabled = sorted(f"{a}:{v}" for a, v in eng.enabled())
    rec = {
        "end": end,
        "steps": eng.steps,
        "trace": [list(t) for t in eng.trace],
        "enabled": enabled_log,
        "final_enabled": final_enabled,
        "obs": obs_log,
        "final": observe_now(),
        "events": [list(e) for e in eng.events],
        "blocked": eng.pending_ops(),
        "api": [list(x) for x in H.api],
        "cancel_ok": {str(k): v for k, v in H.cancel_ok.items()},
        "exec_log": [list(x) for x in simtasks.LOG],
        "init_log": [list(x) for x in simtasks.INIT_LOG],
        "results": {},
        "procs": {},
        "actors_exc": {a.name: f"{type(a.exc).__name__}: {a.exc}"[:200] for a in eng.actors.values() if a.exc},
        "actors_done": {a.name: a.done for a in eng.actors.values()},
        # kernel locks whose holder is dead (they stay locked for ever)
        "dead_holders": {o.label: o.owner.name for o in E._BY_ID.values()
                         if isinstance(o, E.SimSem) and o.value == 0 and o.owner is not None
                         and o.owner.kind == "proc" and not o.owner.proc.alive},
        "dropped": H.ex is None,
        "api_tb": H.api_tb,
        "reuse_calls": H.reuse_calls,
        "cb_resizes": H.cb_resizes,
        "pickler_at_submit": {str(k): v for k, v in H.pickler_at_submit.items()},
        "pickler_in_worker": [list(x) for x in simtasks.PICKLER_LOG],
        "pickler_at_result": [list(x) for x in simtasks.PICKLER_RES_LOG],
    }
    for k, f in H.futs.items():
        r = {"state": fut_obs(f)}
        if f._state == "FINISHED":
            if f._exception is not None:
                ex_ = f._exception
                r["exc_type"] = type(ex_).__name__
                r["exc_args"] = repr(getattr(ex_, "args", None))[:120]
                r["cause"] = type(ex_.__cause__).__name__ if ex_.__cause__ is not None else None
                if os.environ.get("VERIF_DEBUG"):
                    r["cause_text"] = str(ex_.__cause__)[-600:]
                r["is_bpp"] = isinstance(ex_, PE._BPPException)
                r["is_flag"] = any(ex_ is i["flags"].broken for i in world.executors)
            else:
                r["value"] = repr(f._result)
        rec["results"][str(k)] = r
    for a in eng.actors.values():
        if a.kind == "proc":
            p = a.proc
            rec["procs"][a.name] = {"alive": p.alive, "exitcode": p.exitcode, "depth": getattr(p, "depth_arg", None),
                                    "nops": a.nops}
    return rec


# ----------------------------------------------------------------------------- choosers

def random_chooser(seed, p_timeout=0.15, p_crash=0.0, max_crashes=1, p_sleep=0.3):
    def factory(eng):
        rnd = random.Random(seed)
        st = {"crashes": 0}

        def choose(e, choices):
            cs = sorted(choices)
            normal = [c for c in cs if c[1] in ("ok", "fail")]
            touts = [c for c in cs if c[1] == "timeout"]
            crashes = [c for c in cs if c[1] == "crash"] if st["crashes"] < max_crashes else []
            if crashes and rnd.random() < p_crash:
                st["crashes"] += 1
                return rnd.choice(crashes)
            if touts and (not normal or rnd.random() < p_timeout):
                return rnd.choice(touts)
            if normal:
                # de-prioritise pure polling steps a little so that runs make progress
                sl = [c for c in normal if e.actors[c[0]].pending.kind in ("sleep", "alive")]
                rest = [c for c in normal if c not in sl]
                if rest and (not sl or rnd.random() > p_sleep):
                    return rnd.choice(rest)
                return rnd.choice(normal)
            return None
        return choose
    return factory


def delay_chooser(seed, p_timeout=0.1, crash=False, p_delay=0.08):
    """noise injection at lock acquisitions: now and then an actor that is about to acquire a lock is held back
    for a few steps while everybody else runs (what a pre-emption right before `with lock:` does) — optionally
    with a worker killed at that very moment.  Finds check-then-lock races: the held-back actor has already
    read whatever it read before the `with`."""
    def factory(eng):
        rnd = random.Random(f"delay/{seed}")
        base = random_chooser(seed, p_timeout=p_timeout, p_crash=0.0)(eng)
        st = {"who": None, "until": 0, "n": 0, "crashed": False}

        def choose(e, choices):
            st["n"] += 1
            cs = sorted(choices)
            if st["who"] is not None and st["n"] >= st["until"]:
                st["who"] = None
            if st["who"] is None and rnd.random() < p_delay:
                acq = sorted({a for a, v in cs if v != "crash" and e.actors[a].pending.kind == "acquire"
                              and e.actors[a].kind != "proc"})
                if acq:
                    st["who"] = rnd.choice(acq)
                    st["until"] = st["n"] + rnd.randint(4, 14)
                    cr = [c for c in cs if c[1] == "crash"]
                    if crash and cr and not st["crashed"] and rnd.random() < 0.6:
                        st["crashed"] = True
                        return rnd.choice(cr)
            if st["who"] is not None:
                rest = [c for c in cs if c[0] != st["who"] and c[1] != "crash"]
                if any(v in ("ok", "fail") for _, v in rest):
                    return base(e, rest)
                st["who"] = None
            return base(e, [c for c in cs if c[1] != "crash"] or cs)
        return choose
    return factory


def pct_chooser(seed, depth=3, p_timeout=0.15, p_crash=0.0, horizon=260):
    """priority-based scheduling (PCT): every actor gets a random priority when it first appears; the
    highest-priority enabled actor always runs; at depth-1 random step indices the running actor is
    demoted below everybody.  Finds orderings that uniform random choice almost never produces
    (one actor racing far ahead of another)."""
    def factory(eng):
        rnd = random.Random(f"pct/{seed}")
        prio = {}
        low = [0.0]
        change = {rnd.randrange(horizon) for _ in range(max(0, depth - 1))}
        crash_at = rnd.randrange(horizon) if rnd.random() < p_crash else None
        st = {"n": 0, "crashed": False}

        def pr(a):
            if a not in prio:
                prio[a] = rnd.random() + 1.0
            return prio[a]

        fair = random_chooser(seed, p_timeout=min(p_timeout, 0.1), p_crash=0.0)(eng)

        def choose(e, choices):
            st["n"] += 1
            cs = sorted(choices)
            if st["n"] > 2 * horizon:
                return fair(e, choices)          # unfair priorities only for a bounded prefix
            if crash_at is not None and not st["crashed"] and st["n"] >= crash_at:
                cr = [c for c in cs if c[1] == "crash"]
                if cr:
                    st["crashed"] = True
                    return rnd.choice(cr)
            by_actor = {}
            for a, v in cs:
                if v != "crash":
                    by_actor.setdefault(a, []).append(v)
            order = sorted(by_actor, key=lambda a: -pr(a))
            for a in order:
                vs = by_actor[a]
                normal = [v for v in vs if v in ("ok", "fail")]
                if normal:
                    pick = (a, normal[0])
                elif "timeout" in vs and rnd.random() < max(p_timeout, 0.05):
                    pick = (a, "timeout")
                else:
                    continue
                if st["n"] in change or e.actors[a].pending.kind in ("sleep", "alive"):
                    # a change point — or the actor sleeps / polls: time passes, everybody else gets to run
                    # (a back-off loop must not be counted as "the others never ran for 30 s")
                    low[0] -= 1.0
                    prio[a] = low[0]
                return pick
            # only time-out variants left and none was drawn: fire the first one (time passes)
            for a in order:
                if "timeout" in by_actor[a]:
                    return (a, "timeout")
            return None
        return choose
    return factory


def replay_chooser(schedule, then=None):
    """follow a fixed list of (actor, variant); afterwards `then` (a chooser factory) or stop"""
    def factory(eng):
        it = iter(schedule)
        tail = then(eng) if then else None

        def choose(e, choices):
            nxt = next(it, None)
            if nxt is not None:
                return tuple(nxt)
            if tail:
                return tail(e, choices)
            return None
        return choose
    return factory


# ----------------------------------------------------------------------------- process isolation

def forked(fn, *args, timeout=120):
    """run fn(*args) in a forked child (own interpreter state, cyclic GC off), return its result"""
    r, w = os.pipe()
    pid = os.fork()
    if pid == 0:
        os.close(r)
        try:
            devnull = os.open(os.devnull, os.O_WRONLY)
            os.dup2(devnull, 1)
            os.dup2(devnull, 2)
            try:
                d = pickle.dumps(("ok", fn(*args)))
            except BaseException:
                import traceback
                d = pickle.dumps(("harness-exc", traceback.format_exc()[-1500:]))
            with os.fdopen(w, "wb") as f:
                f.write(d)
        finally:
            os._exit(0)
    os.close(w)
    chunks = []
    import select
    import time as _t
    deadline = _t.time() + timeout
    with os.fdopen(r, "rb") as f:
        while True:
            left = deadline - _t.time()
            if left <= 0:
                os.kill(pid, 9)
                os.waitpid(pid, 0)
                return ("timeout", None)
            rl, _, _ = select.select([f], [], [], min(left, 1.0))
            if rl:
                b = f.read1(1 << 20) if hasattr(f, "read1") else f.read()
                if not b:
                    break
                chunks.append(b)
    os.waitpid(pid, 0)
    d = b"".join(chunks)
    if not d:
        return ("child-died", None)
    return pickle.loads(d)
