"""Lock-step of the calling thread's operations inside `_ReusablePoolExecutor._resize` with the Lean model
LokyModel/Resize.lean (M1Z): for every `get_reusable_executor` call of a run that reused the live instance, the labels
of the operations the caller announced between taking and releasing `_submit_resize_lock` are compared, one by one, with
what the model announces when it is fed the shared state as observed right after the caller's previous operation."""
import os
import re
import subprocess

DRIVER = os.path.join(os.path.dirname(os.path.dirname(os.path.dirname(os.path.abspath(__file__)))),
                      "lean", ".lake", "build", "bin", "resize_driver")


def _norm(label):
    return re.sub(r"^tstart\(F\d+\)$", "tstart(F)", re.sub(r"\be\d+\.", "", label))


def _env(e, last="ok", me=None, res=1):
    # the feeder thread counts as started for the caller unless the caller itself is the one about to start it
    # (Queue.put sets `_thread` before the announced start)
    feeder = bool(e["feeder"]) and (e["feeder_started"] or me not in e["tstarting"])
    procs = ",".join(f"{p}:{int(a)}" for p, a in e["procs"]) or "-"
    return (f"env pending={e['pending']} procs={procs} broken={int(e['broken'] is not None)} shutdown={int(bool(e['shutdown']))} "
            f"mw={e['mw']} started={int(bool(e['started']))} feeder={int(feeder)} nextpid={e['nextpid']} last={last} res={res}")


def compare(scen, rec):
    """{"calls": n, "ops": n, "diff": None | description of the first disagreement}"""
    lines, expect = [], []
    ncalls = 0
    for c in rec.get("reuse_calls", []):
        a, b, after = c["args"], c["before"], c["after"]
        if b is None or after["id"] != b["id"] or b["broken"] or b["shutdown"]:
            continue                      # only calls that went to _resize
        u = f"U{c['user']}"
        idx = [i for i in range(c["t0"], c["t1"]) if rec["trace"][i][0] == u and rec["trace"][i][2] != "api(reusable)"]
        labels = [_norm(rec["trace"][i][2]) for i in idx]
        if len(labels) < 4 or labels[0] != "acquire(execlock,B)" or labels[-1] != "release(execlock)":
            return {"calls": ncalls, "ops": len(expect), "diff": {"kind": "shape", "labels": labels[:40], "call": a}}
        new = a.get("max_workers") or (b["mw"] if a.get("reuse") is True else scen.get("cpu_count", 2))
        exi = None
        for n, e in enumerate(rec["obs"][idx[0]]["ex"]):
            if e.get("id") == b["id"]:
                exi = n
        if exi is None:
            continue
        ncalls += 1
        lines.append(f"begin {new}")
        expect.append(("ok", None))
        for j in range(1, len(idx) - 1):
            o = rec["obs"][idx[j - 1]]
            e = o["ex"][exi]
            m = re.fullmatch(r"alive\((\d+)\)", labels[j - 1])
            res = int(m is None or f"W{m.group(1)}" in o["alive"])      # what the previous is_alive() call returned
            lines.append(_env(e, "timeout" if rec["trace"][idx[j - 1]][1] == "timeout" else "ok", u, res))
            expect.append((labels[j], {"call": a, "op_index": j, "step": idx[j], "env": lines[-1], "labels_so_far": labels[max(0, j - 8):j + 1]}))
        # after the inner release the model must be done
        e = rec["obs"][idx[-2]]["ex"][exi]
        lines.append(_env(e, "ok", u))
        expect.append(("return", {"call": a, "op_index": len(idx) - 1, "env": lines[-1], "labels_so_far": labels[-8:]}))
    if not lines:
        return {"calls": 0, "ops": 0, "diff": None}
    r = subprocess.run([DRIVER], input="\n".join(lines) + "\n", capture_output=True, text=True, timeout=60)
    out = r.stdout.strip().split("\n")
    if len(out) != len(lines):
        return {"calls": ncalls, "ops": len(lines), "diff": {"kind": "driver-lines", "got": len(out), "want": len(lines)}}
    for o, (want, info) in zip(out, expect):
        if o != want:
            return {"calls": ncalls, "ops": len(lines), "diff": {"kind": "op-mismatch", "model": o, "impl": want, "at": info}}
    return {"calls": ncalls, "ops": len(lines) - ncalls, "diff": None}
