"""Implementation-side oracles for C01–C10, evaluated on the record of one E1 run.
Written from the property statements; independent of the Lean model."""

POLL_KINDS = ("sleep", "alive(")


def expected(spec, i):
    """outcome class of task i on an unbroken, not force-stopped pool"""
    args = spec.get("args", "ok")
    if args == "unpicklable":
        return ("exc", "PicklingError")
    if args == "toolarge":
        return ("exc", "RuntimeError")
    if args == "badunpickle":
        return ("breaks", None)
    body = spec.get("body", "ok")
    if body == "die":
        return ("breaks", None)
    if body == "raise":
        if spec.get("exc") == "unpicklable":
            return ("exc", None)            # some exception on its own future
        if spec.get("exc") == "falsy":
            return ("exc", "FalsyError")
        return ("exc", "TaskError")
    if body == "sysexit":
        return ("exc", "SystemExit")
    if body == "kbi":
        return ("exc", "KeyboardInterrupt")
    res = spec.get("res", "ok")
    if res == "unpicklable":
        return ("exc", None)
    if res == "badunpickle":
        return ("breaks", None)
    return ("value", f"Payload({i * 10})")


def facts(scen, rec):
    """derived facts about a run, shared by the oracles and by known-finding predicates"""
    f = {}
    ev = rec["events"]
    f["crashes"] = [e for e in ev if e[1] in ("CRASH", "DIE")]
    f["worker_exc"] = [e for e in ev if e[1] == "WORKER-EXC"]
    f["announced"] = {e[0] for e in ev if e[1] == "ANNOUNCE"}
    f["init_fail"] = bool(scen.get("init")) and any(x == "fail" for x in scen["init"])
    f["timeouts"] = sum(1 for t in rec["trace"] if t[1] == "timeout")
    f["breaking_spec"] = any(expected(s, i)[0] == "breaks" for i, s in enumerate(scen.get("tasks", [])))
    ops = [op for u in scen["users"] for op in u]
    f["kill_shutdown"] = any(o[0] == "shutdown" and o[2] for o in ops) or \
        any(o[0] == "reusable" and o[1].get("kill_workers") for o in ops)
    f["shutdown_nowait"] = any(o[0] == "shutdown" and not o[1] for o in ops)
    f["dropped"] = any(o[0] == "drop" for o in ops)
    f["pyexit"] = any(o[0] == "pyexit" for o in ops)
    f["cancels"] = any(o[0] == "cancel" for o in ops)
    f["clean_run"] = not f["crashes"] and not f["worker_exc"] and not f["init_fail"] and not f["breaking_spec"]
    f["unannounced_deaths"] = [e for e in f["crashes"] if e[0] not in f["announced"]]
    return f


def c01(scen, rec, f):
    """every future resolves, no API call hangs, no thread of the machinery dies"""
    out = []
    if rec["end"] == "maxsteps":
        tail = rec["trace"][-200:]
        if all(any(t[2].startswith(k) for k in POLL_KINDS) or t[2].startswith("acquire(") or t[2].startswith("release(")
               for t in tail):
            out.append(("C01", "livelock", "only polling steps in the last 200 steps: " + str(sorted({t[0] + ' ' + t[2] for t in tail}))[:300]))
        else:
            out.append(("C01", "maxsteps", "run did not finish within the step bound"))
        return out
    # an API call may raise only what the API promises: submit on a broken / shut-down executor (or after the
    # interpreter started to exit); create / get_reusable_executor / shutdown / cancel never raise
    tbs = {(u, k): tb for u, k, tb in rec.get("api_tb", [])}
    for ui, oi, op, outc in rec["api"]:
        o = str(outc)
        if not o.startswith("raise:"):
            continue
        if op == "submit" and o in ("raise:ShutdownExecutorError", "raise:TerminatedWorkerError:flag",
                                    "raise:BrokenProcessPool:flag", "raise:RuntimeError"):
            continue
        out.append(("C01", "api-exception", f"{op} (user thread {ui}, script op {oi}) raised {o[6:]}: "
                    + tbs.get((ui, op), "")[-400:].replace("\n", " | ")))
    if rec["end"] != "quiescent":
        return out
    for name, txt in rec["actors_exc"].items():
        out.append(("C01", "actor-exception", f"{name} died with {txt}"))
    for name, done in rec["actors_done"].items():
        if name.startswith("U") and not done:
            out.append(("C01", "api-hang", f"{name} blocked in {rec['blocked'].get(name)} ({_cur_api(rec, name)})"))
    for k, r in rec["results"].items():
        if r["state"] in ("P", "R"):
            out.append(("C01", "future-unresolved", f"future {k} is {r['state']} at quiescence; blocked={rec['blocked']}"))
    return out


def _cur_api(rec, name):
    ui = int(name[1:])
    done = [a for a in rec["api"] if a[0] == ui]
    return f"after {len(done)} completed script operations"


def c02(scen, rec, f):
    """an unannounced worker death fails the pool loudly"""
    out = []
    if rec["end"] != "quiescent":
        return out
    deaths = f["unannounced_deaths"]
    if not deaths or len(rec["final"]["ex"]) != 1:
        return out
    ex = rec["final"]["ex"][0]
    first = min(e[3] for e in deaths)
    obs_before = rec["obs"][first - 2]["futs"] if first >= 2 and rec["obs"] else {}
    # deaths after the executor finished shutting down with nothing pending are not observable through the API
    pending_at_death = rec["obs"][first - 1]["ex"][0]["pending"] if rec["obs"] and first >= 1 else 1
    shut_at_death = rec["obs"][first - 1]["ex"][0]["shutdown"] if rec["obs"] and first >= 1 else False
    if shut_at_death and pending_at_death == 0:
        return out
    sent = {e[2] for e in rec["events"] if e[1] == "RESULT" and e[3] <= first}
    if ex["broken"] is None and not ex["shutdown"]:
        # (a user-requested shutdown racing with the detection is accepted when no future is affected)
        out.append(("C02", "not-flagged", f"worker died unannounced at step {first}; at quiescence the pool is neither flagged broken nor shut down"))
    for k, r in rec["results"].items():
        before = obs_before.get(int(k), obs_before.get(k))
        if before in ("D", "C") or (before or "").startswith("E:"):
            if r["state"] != before:
                out.append(("C02", "outcome-changed", f"future {k} was {before} before the death, is {r['state']} after"))
            continue
        if r["state"] in ("P", "R"):
            continue        # reported by C01
        if r["state"] == "C":
            continue
        if r.get("is_bpp"):
            continue
        if r.get("exc_type") == "ShutdownExecutorError" and f["kill_shutdown"]:
            continue
        exp = expected(scen["tasks"][int(k)], int(k))
        own = (exp[0] == "value" and r.get("value") == exp[1]) or \
            (exp[0] == "exc" and r["state"].startswith("E:") and (exp[1] is None or r["exc_type"] == exp[1]))
        if own:
            continue        # completed by a surviving worker between the death and its detection: its own outcome
        out.append(("C02", "not-failed", f"future {k} unresolved at the death ended as {r} instead of a BrokenProcessPool error"))
    if rec["final"]["alive"]:
        out.append(("C02", "survivors", f"workers still alive after the pool broke: {rec['final']['alive']}"))
    # later submits raise the same error
    for a in rec["api"]:
        pass
    return out


def c03(scen, rec, f):
    out = []
    seen = {}
    for w, i in rec["exec_log"]:
        if i in seen:
            out.append(("C03", "executed-twice", f"task {i} ran on {seen[i]} and on {w}"))
        seen[i] = w
    for k, ok in rec["cancel_ok"].items():
        if ok and int(k) in seen:
            out.append(("C03", "cancelled-ran", f"cancel() returned True for task {k} but its body ran on {seen[int(k)]}"))
        if ok and rec["results"][k]["state"] != "C":
            out.append(("C03", "cancelled-resolved", f"cancel() returned True for task {k} but it ended as {rec['results'][k]['state']}"))
    for k, r in rec["results"].items():
        if "value" in r:
            exp = expected(scen["tasks"][int(k)], int(k))
            if exp[0] != "value" or r["value"] != exp[1]:
                out.append(("C03", "wrong-value", f"future {k} holds {r['value']}, its own call gives {exp}"))
            if int(k) not in seen:
                out.append(("C03", "fabricated", f"future {k} holds a value but its body never ran"))
    return out


def c04(scen, rec, f):
    """task-level failures are contained (runs without worker deaths / pool-breaking payloads)"""
    out = []
    if rec["end"] != "quiescent" or not f["clean_run"]:
        return out
    for ex in rec["final"]["ex"]:
        if ex["broken"] is not None:
            out.append(("C04", "pool-broken", f"pool flagged {ex['broken']} although no worker died and every failure was task-level"))
    for k, r in rec["results"].items():
        if r["state"] in ("P", "R", "C"):
            continue
        if r.get("exc_type") == "ShutdownExecutorError" and f["kill_shutdown"]:
            continue
        exp = expected(scen["tasks"][int(k)], int(k))
        if exp[0] == "value":
            if r.get("value") != exp[1]:
                out.append(("C04", "sibling-wrong", f"future {k}: expected {exp[1]}, got {r}"))
        elif exp[0] == "exc":
            if not r["state"].startswith("E:"):
                out.append(("C04", "failure-lost", f"future {k}: expected an exception, got {r}"))
            elif exp[1] is not None and r["exc_type"] != exp[1]:
                out.append(("C04", "wrong-exception", f"future {k}: expected {exp[1]}, got {r['exc_type']}"))
            elif exp[1] in ("TaskError", "SystemExit", "KeyboardInterrupt") and r.get("cause") != "_RemoteTraceback":
                out.append(("C04", "no-remote-traceback", f"future {k}: __cause__ is {r.get('cause')}"))
            elif exp[1] == "TaskError" and r.get("exc_args") != f"({int(k)},)":
                out.append(("C04", "wrong-args", f"future {k}: args {r.get('exc_args')}"))
    return out


def c05(scen, rec, f):
    """graceful shutdown drains and leaves nothing behind"""
    out = []
    if rec["end"] != "quiescent" or not f["clean_run"] or f["kill_shutdown"] or len(rec["final"]["ex"]) != 1:
        return out
    ops = [(ui, oi, op) for ui, u in enumerate(scen["users"]) for oi, op in enumerate(u)]
    graceful = any(op[0] in ("shutdown", "drop", "pyexit") for _, _, op in ops)
    if not graceful:
        return out
    ex = rec["final"]["ex"][0]
    submitted = {a[1]: a for a in rec["api"] if a[2] == "submit"}
    for k, r in rec["results"].items():
        if r["state"] in ("P", "R", "C"):
            continue
        exp = expected(scen["tasks"][int(k)], int(k))
        if exp[0] == "value" and r.get("value") != exp[1]:
            out.append(("C05", "not-drained", f"future {k} submitted before the shutdown ended as {r}"))
        if r.get("exc_type") in ("ShutdownExecutorError",) or r.get("is_bpp"):
            out.append(("C05", "not-drained", f"future {k} submitted before the shutdown ended as {r.get('exc_type')}"))
    if ex["broken"] is not None:
        out.append(("C05", "flagged-broken", f"graceful shutdown flagged the pool {ex['broken']}"))
    # the shutdown has completed when the manager thread has ended
    mgr_done = rec["actors_done"].get("M")
    if mgr_done:
        for name, p in rec["procs"].items():
            if p["alive"]:
                out.append(("C05", "worker-left-behind", f"{name} still alive after the manager finished; blocked in {rec['blocked'].get(name)}"))
            elif p["exitcode"] != 0:
                out.append(("C05", "unclean-exit", f"{name} exit code {p['exitcode']}"))
        if rec["actors_done"].get("F") is False:
            out.append(("C05", "feeder-left-behind", f"feeder thread still alive: {rec['blocked'].get('F')}"))
    elif mgr_done is False and ex["shutdown"] and ex["pending"] == 0 and all(d for n, d in rec["actors_done"].items() if n.startswith("U")):
        out.append(("C05", "manager-left-behind", f"executor shut down, nothing pending, manager blocked in {rec['blocked'].get('M')}"))
    # submit after a completed shutdown call raises ShutdownExecutorError
    for ui, u in enumerate(scen["users"]):
        after = False
        for oi, op in enumerate(u):
            a = [x for x in rec["api"] if x[0] == ui and x[1] == oi]
            if not a:
                break
            if op[0] == "shutdown":
                after = True
            elif op[0] == "submit" and after and a[0][3] not in ("raise:ShutdownExecutorError", "noexec"):
                out.append(("C05", "submit-after-shutdown", f"submit after shutdown gave {a[0][3]}"))
    return out


def c06(scen, rec, f):
    """forced shutdown is total and explicit"""
    out = []
    if rec["end"] != "quiescent" or not f["kill_shutdown"] or len(rec["final"]["ex"]) != 1:
        return out
    # applies once a kill-shutdown call has returned
    def kill_before(ui, oi):
        return any(o[0] == "shutdown" and o[2] for o in scen["users"][ui][:oi])
    returned = [a for a in rec["api"] if a[2] == "shutdown" and a[3] == "ok"
                and scen["users"][a[0]][a[1]][1] and (scen["users"][a[0]][a[1]][2] or kill_before(a[0], a[1]))]
    if not returned:
        return out
    for k, r in rec["results"].items():
        if r["state"] in ("P", "R"):
            out.append(("C06", "future-hangs", f"future {k} is {r['state']} after shutdown(kill_workers=True) returned"))
    if rec["final"]["alive"]:
        out.append(("C06", "survivors", f"workers alive after shutdown(kill_workers=True): {rec['final']['alive']}"))
    return out


def c07(scen, rec, f):
    """idle time-outs are invisible"""
    out = []
    if rec["end"] != "quiescent" or not f["clean_run"] or not scen.get("timeout") or f["timeouts"] == 0:
        return out
    for ex in rec["final"]["ex"]:
        if ex["broken"] is not None:
            out.append(("C07", "timeout-broke-pool", f"pool flagged {ex['broken']} in a run whose only faults were idle time-outs"))
    for k, r in rec["results"].items():
        if r.get("is_bpp"):
            out.append(("C07", "timeout-as-crash", f"future {k} failed with {r['exc_type']}"))
    return out


def c08(scen, rec, f):
    """never more than max_workers registered / executing"""
    out = []
    if scen.get("kind") == "reusable":
        return out
    mw = scen["max_workers"]
    for i, o in enumerate(rec["obs"]):
        for ex in o["ex"]:
            if ex["nproc"] > mw:
                out.append(("C08", "too-many-registered", f"step {i + 1}: {ex['nproc']} workers registered, max_workers={mw}"))
                return out
        if len(o["in_body"]) > mw:
            out.append(("C08", "too-many-executing", f"step {i + 1}: {len(o['in_body'])} bodies executing, max_workers={mw}"))
            return out
    return out


def attribute(scen, rec, f, fail):
    """known-finding classes (DESIGN.md §6): returns the finding id whose delimiting predicate the
    stuck configuration of this run satisfies, else None.  Predicates are on the final state."""
    blocked = rec["blocked"]
    dh = rec.get("dead_holders", {})
    if fail[1] == "api-exception" and fail[2].startswith("reusable") and "_resize" in fail[2] \
            and (("ValueError" in fail[2] and "is closed" in fail[2]) or
                 ("TypeError" in fail[2] and "_processes_management_lock" in fail[2])) \
            and any(op[0] == "shutdown" for u in scen["users"] for op in u) and len(scen["users"]) > 1:
        # get_reusable_executor resizing an executor that another thread's explicit shutdown() is closing
        return "D19"
    if fail[1] in ("api-hang", "future-unresolved", "maxsteps", "livelock"):
        # a resize requested from a done-callback, i.e. from the manager thread, that waits for something only that
        # thread can deliver: other jobs in flight, or workers that have to leave (their exit messages are read by the
        # manager).  Growing the pool with nothing else in flight is NOT in this class.
        exs = rec["final"]["ex"]
        for r in rec.get("cb_resizes", []):
            # (workers that have to leave: also when another thread resized the pool between the callback's start and
            #  its turn at the module lock - judged on the final state: jobs submitted meanwhile, more registered workers than asked for, or a
            #  registered worker that has exited and whose exit message only the manager could read)
            leaving = any(e["nproc"] > r["mw"] or len(e["alive_pids"]) < e["nproc"] or e["pending"] > 0 for e in exs[-1:])
            if not r["returned"] and str(r.get("thread", "")).startswith("M") and not r.get("own_in_table") and \
                    (r.get("pending_others", 0) > 0 or r["mw"] < r.get("registered", 0) or leaving or
                     str(blocked.get(r["thread"], "")).startswith("acquire(execlock")):
                # (third case: the callback waits for the module lock that another thread holds while that thread's own
                #  resize waits for the jobs - which only the blocked manager thread can complete)
                return "D26"
    if fail[1] in ("api-hang", "future-unresolved", "maxsteps", "livelock") and \
            any(t.get("cb") == "submit" for t in scen.get("tasks", [])) and scen.get("kind") == "reusable" and \
            any(n.startswith("M") and str(b).startswith("acquire(execlock") for n, b in blocked.items()):
        # a done-callback that submits to the reusable executor (submit takes the module lock) runs in the manager
        # thread while another thread is inside get_reusable_executor() with that lock, waiting for the manager thread
        # (replacement: shutdown(wait=True) joins it; resize: waits for the jobs or for workers to leave)
        return "D30"
    if (fail[1] == "actor-exception" and "Full" in fail[2]) or \
            (fail[0] == "C09" and fail[1] in ("previous-not-shut-down", "workers-left-behind")):
        # the manager's sentinel loop gave up (queue.Full after its back-off) because the workers that should drain the
        # call queue are blocked behind a dead holder of a queue lock: the D7 class, seen from shutdown_workers
        if any(l.endswith("cq.rlock") or l.endswith("rq.wlock") for l in dh) and \
                any("Full" in str(x) for x in rec.get("actors_exc", {}).values()):
            return "D7"
    if fail[0] in ("C01", "C02", "C05", "C06") and fail[1] in ("api-hang", "future-unresolved", "manager-left-behind",
                                                           "worker-left-behind", "survivors", "not-flagged", "future-hangs",
                                                           "maxsteps", "livelock", "needs-task-progress"):
        if any(l.endswith("mgmt") for l in dh) and (fail[1] in ("maxsteps", "livelock") or
                                                   any("acquire(" in b and "mgmt" in b for b in blocked.values())):
            return "D5"
        qlocks = [l for l in dh if l.endswith("cq.rlock") or l.endswith("rq.wlock")]
        m = blocked.get("M", "")
        for q in qlocks:
            # a worker died holding a queue lock while the manager was not (or no longer) watching its sentinel
            holder = dh[q]
            watched = m.startswith("wait(") and ("sentinel" + holder[1:]) in m
            starving = any(n.startswith("W") and f"acquire({q}" in b for n, b in blocked.items())
            if (starving or fail[1] in ("maxsteps", "livelock")) and not watched:
                return "D7"
        ex = rec["final"]["ex"][0] if rec["final"]["ex"] else None
        if ex and rec.get("dropped") and m == "wait(rq.pipe,wakeup)" and ex["pending"] > 0 and not rec["final"]["alive"] \
                and ex["broken"] is None and not f["unannounced_deaths"]:
            return "D4"
    return None


def starved(scen, rec, f, props):
    """runs under the scheduler that never lets a task body finish"""
    out = []
    if rec["end"] not in ("stopped", "quiescent"):
        return out
    if "C06" in (props or []) and f["kill_shutdown"] and not f["crashes"]:
        for ui, u in enumerate(scen["users"]):
            for oi, op in enumerate(u):
                # a waited shutdown that asks for the workers to be killed - or that follows, in the same thread, a
                # completed shutdown(kill_workers=True) (a kill request is not undone by a later plain shutdown: the
                # `with executor:` exit after executor.shutdown(wait=False, kill_workers=True))
                earlier_kill = any(o[0] == "shutdown" and o[2] and
                                   any(a[0] == ui and a[1] == oj and a[3] == "ok" for a in rec["api"])
                                   for oj, o in enumerate(u[:oi]))
                if op[0] == "shutdown" and op[1] and (op[2] or earlier_kill):
                    done = [a for a in rec["api"] if a[0] == ui and a[1] == oi]
                    started = [a for a in rec["api"] if a[0] == ui and a[1] == oi - 1] or oi == 0
                    if started and not done and rec["blocked"].get(f"U{ui}", "").startswith(("tjoin", "acquire")):
                        out.append(("C06", "needs-task-progress",
                                    f"shutdown(kill_workers=True) has not returned although every actor except the task bodies is "
                                    f"quiescent: U{ui} blocked in {rec['blocked'].get(f'U{ui}')}, M in {rec['blocked'].get('M')}"))
    if "C08" in (props or []) and scen.get("family") in ("saturate", "saturatetmo") and not f["crashes"]:
        nsub = sum(1 for a in rec["api"] if a[2] == "submit" and a[3] == "ok") - scen.get("long_from", 0)
        want = min(scen["max_workers"], nsub)
        users_done = all(d for n, d in rec["actors_done"].items() if n.startswith("U"))
        if users_done and len(rec["final"]["in_body"]) != want:
            out.append(("C08", "parallelism-not-delivered",
                        f"{nsub} long tasks submitted to a healthy executor with max_workers={scen['max_workers']}: "
                        f"{len(rec['final']['in_body'])} bodies executing when nothing else can move; blocked={rec['blocked']}"))
    return out


def c18(scen, rec, f):
    """every worker that runs a task has run the initializer first; an initializer failure breaks the pool"""
    out = []
    if scen.get("init") is None:
        return out
    inited = [w for w, _ in rec["init_log"]]
    for w, t in rec["exec_log"]:
        if w not in inited:
            out.append(("C18", "uninitialised-worker", f"{w} ran task {t} without having run the initializer"))
    for w in set(inited):
        if inited.count(w) > 1:
            out.append(("C18", "initializer-twice", f"{w} ran the initializer {inited.count(w)} times"))
    for w, tag in rec["init_log"]:
        if tag != "tag0" and scen.get("kind") != "reusable":
            out.append(("C18", "wrong-initargs", f"{w} initialised with {tag}"))
    failing = {f"W{100 + i}" for i, x in enumerate(scen["init"]) if x == "fail"}
    ran_failed = [w for w in inited if w in failing]
    if ran_failed and rec["end"] == "quiescent" and len(rec["final"]["ex"]) == 1:
        for w in ran_failed:
            if any(x == w for x, _ in rec["exec_log"]):
                out.append(("C18", "failed-init-worker-used", f"{w} ran a task although its initializer failed"))
    return out


def c19(scen, rec, f):
    """the depth shipped to every worker is the parent's depth + 1 (the simulated parent is at depth 0)"""
    out = []
    for name, p in rec["procs"].items():
        if p.get("depth") != 1:
            out.append(("C19", "wrong-depth", f"{name} was started with current_depth={p.get('depth')}, expected 1"))
    return out


def c09(scen, rec, f):
    """get_reusable_executor returns a live, correctly configured singleton"""
    out = []
    last_id = -1
    replaced = set()        # ids of instances a call has replaced (C09_replaced_never_returned_again)
    for c in sorted(rec.get("reuse_calls", []), key=lambda c: c["t1"]):
        a, b, r = c["args"], c["before"], c["after"]
        single = len(scen["users"]) == 1 and not rec.get("cb_resizes")     # one requester at a time
        if single and r["id"] in replaced:
            out.append(("C09", "replaced-instance-returned-again", f"executor id {r['id']} was replaced by an earlier call "
                        f"and is handed out again ({c})"))
        if single and b is not None and r["id"] != b["id"]:
            replaced.add(b["id"])
        want_mw = a.get("max_workers") or (b["mw"] if (a.get("reuse") is True and b) else scen.get("cpu_count", 2))
        if single and r["mw"] != want_mw:
            out.append(("C09", "wrong-size", f"asked for max_workers={want_mw}, executor has {r['mw']} ({c})"))
        if b is None:
            if single and r["id"] <= last_id:
                out.append(("C09", "id-not-fresh", f"first executor id {r['id']} after {last_id}"))
        elif single and not any(e[1] in ("CRASH", "DIE") and e[3] <= c["t1"] for e in rec["events"]):
            # (a worker death may be detected - and the pool flagged - between the caller's look at the
            #  previous instance and the decision under the lock: such histories are not judged here)
            reuse = a.get("reuse", "auto")
            allowed = reuse is True or (reuse == "auto" and b["kwargs_same"])
            healthy = not b["broken"] and not b["shutdown"]
            same = r["id"] == b["id"]
            if same != (healthy and allowed):
                out.append(("C09", "identity-rule", f"previous healthy={healthy} reuse-allowed={allowed} but same-instance={same} ({c})"))
            if not same and r["id"] <= b["id"]:
                out.append(("C09", "id-not-larger", f"replacement id {r['id']} <= previous {b['id']}"))
            if not same:
                # the previous instance must be completely shut down first: its manager ended, its workers gone
                prev_alive = [n for n in rec["final"]["alive"] if int(n[1:]) in b["pids"]]
                if prev_alive and rec["end"] == "quiescent":
                    out.append(("C09", "previous-not-shut-down", f"workers of the replaced executor still alive: {prev_alive}"))
        if single and "cfg" in r and (b is None or r["id"] != b["id"]) and r["id"] > last_id:
            # a fresh instance is built from the arguments of THIS call, and that is what the module remembers of it
            if r["cfg"] != r["want_cfg"]:
                out.append(("C09", "fresh-not-from-new-arguments", f"the fresh executor (id {r['id']}) is configured {r['cfg']}, "
                            f"the call asked for {r['want_cfg']} ({c['args']})"))
            elif r.get("stored") != r["want_cfg"]:
                out.append(("C09", "fresh-not-from-new-arguments", f"after handing out a fresh executor (id {r['id']}) built from "
                            f"{r['want_cfg']} the module remembers the arguments {r.get('stored')} ({c['args']})"))
        if r.get("stale_live"):
            # (any number of calling threads) a fresh instance was handed out while an earlier one still had a
            # running manager thread or live workers
            out.append(("C09", "previous-not-shut-down", f"a fresh executor (id {r['id']}) was returned while earlier "
                        f"instances were still running: {r['stale_live']} ({c['args']})"))
        if single and b is not None and r["id"] == b["id"] and (b["broken"] or b["shutdown"]):
            out.append(("C09", "returned-dead", f"the instance returned was already flagged when the call began ({c})"))
        last_id = max(last_id, r["id"])
    if rec["end"] == "quiescent":
        # an instance that is broken or shut down and whose manager thread has ended must have no live worker left
        # (workers started onto it afterwards would never be stopped by anybody)
        for n, ex in enumerate(rec["final"]["ex"]):
            if (ex["broken"] or ex["shutdown"]) and ex.get("mgr") in ("done", "none") and ex.get("alive_pids"):
                out.append(("C09", "workers-left-behind", f"executor #{n} is {'broken' if ex['broken'] else 'shut down'}, its "
                            f"manager thread has ended, but its workers {ex['alive_pids']} are still alive"))
    return out


def c10(scen, rec, f):
    """a resize preserves work and surviving workers and returns with the requested size"""
    out = []
    if len(scen["users"]) != 1 or rec.get("cb_resizes"):
        return out          # (several requesters - threads, or a done-callback: sizes are sampled outside the module lock)
    for c in rec.get("reuse_calls", []):
        a, b, r = c["args"], c["before"], c["after"]
        if b is None or r["id"] != b["id"]:
            continue
        new = r["mw"]
        if not b["started"] or b["mw"] == new:
            continue            # never started: only the number is recorded; same size: not a resize (an idle pool
                                # below its size is topped up by the next submit)
        head = rec["trace"][:c["t1"]]
        # deaths before the return; idle time-outs of workers that were still registered when the call began, or of any
        # worker during the call (those may be leaving at any moment: only termination is demanded then)
        died = any(v == "crash" for _, v, _ in head) or any(e[1] in ("CRASH", "DIE") and e[3] <= c["t1"] for e in rec["events"])
        tmo_reg = any(v == "timeout" and x.startswith("W") and int(x[1:]) in b["pids"] for x, v, _ in head)
        tmo_win = any(v == "timeout" and x.startswith("W") for x, v, _ in rec["trace"][c["t0"]:c["t1"]])
        if died or tmo_reg or tmo_win or r["broken"] or r["shutdown"] or b["broken"] or b["shutdown"]:
            continue
        # departures the call did not ask for: a registered worker that had announced its exit before the call began, or
        # more exits announced during the call than stop sentinels it posted (a sentinel left over from an earlier resize
        # that counted a worker already in its exit handshake is consumed now: "timed out meanwhile", one call earlier)
        u = f"U{c['user']}"
        posted = sum(1 for x, v, l in rec["trace"][c["t0"]:c["t1"]] if x == u and v == "ok" and l.startswith("acquire(") and "cq.sem" in l)
        ann = [e for e in rec["events"] if e[1] == "ANNOUNCE"]
        if any(e[3] <= c["t0"] and int(e[0][1:]) in b["pids"] for e in ann) or \
                sum(1 for e in ann if c["t0"] < e[3] <= c["t1"]) > posted:
            continue
        if len(r["pids"]) != new or len(r["alive"]) != new:
            out.append(("C10", "wrong-size-at-return", f"resize {b['mw']}->{new}: {len(r['pids'])} registered, {len(r['alive'])} alive ({c})"))
        kept = len(set(r["pids"]) & set(b["pids"]))
        # (the manager thread re-spawning a worker during the call - for one that timed out before it - changes what
        #  "the previous workers" are while the call waits for the jobs: not judged)
        respawn = any(x.startswith("M") and l == "pstart" for x, v, l in rec["trace"][c["t0"]:c["t1"]])
        if kept != min(len(b["pids"]), new) and not respawn:
            out.append(("C10", "survivors-restarted", f"resize {b['mw']}->{new}: {kept} of the previous {len(b['pids'])} workers kept, expected {min(len(b['pids']), new)} ({c})"))
    return out


def c15(scen, rec, f):
    """the pickler selected when a task is submitted is the one its worker uses"""
    out = []
    for t, name in rec.get("pickler_in_worker", []):
        want = rec.get("pickler_at_submit", {}).get(str(t))
        if want is not None and name != want:
            out.append(("C15", "pickler-not-from-submit", f"task {t} was submitted under loky_pickler={want} but its worker used {name}"))
    for t, name in rec.get("pickler_at_result", []):
        want = rec.get("pickler_at_submit", {}).get(str(t))
        if want is not None and name != want:
            out.append(("C15", "result-pickler-not-from-submit", f"task {t} was submitted under loky_pickler={want} but its "
                        f"result was pickled in the worker under {name}"))
    return out


ALL = {"C01": c01, "C02": c02, "C03": c03, "C04": c04, "C05": c05, "C06": c06, "C07": c07, "C08": c08, "C18": c18, "C19": c19, "C09": c09, "C10": c10, "C15": c15}


def evaluate(scen, rec, props=None):
    f = facts(scen, rec)
    out = []
    for pid, fn in ALL.items():
        if props and pid not in props:
            continue
        out += fn(scen, rec, f)
    return out, f


def evaluate_attributed(scen, rec, props=None):
    """(unexplained failures, {finding id: [failures]}, facts)"""
    out, f = evaluate(scen, rec, props)
    real, known = [], {}
    for fl in out:
        k = attribute(scen, rec, f, fl)
        if k:
            known.setdefault(k, []).append(fl)
        else:
            real.append(fl)
    return real, known, f
