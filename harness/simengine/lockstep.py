"""Lock-step comparison: the real code under the scheduler vs the Lean model M1 on the same schedule."""
import os
import subprocess
import sys

from . import world as W

DRIVER = os.path.join(os.path.dirname(os.path.dirname(os.path.dirname(os.path.abspath(__file__)))),
                      "lean", ".lake", "build", "bin", "exec_driver")


def spec_code(sp):
    a = {"ok": "o", "unpicklable": "u", "toolarge": "l", "badunpickle": "b"}[sp.get("args", "ok")]
    body = sp.get("body", "ok")
    raises = body in ("raise", "sysexit", "kbi") or sp.get("res") == "unpicklable"
    b = "d" if body == "die" else ("r" if raises else "o")
    r = "b" if sp.get("res") == "badunpickle" else "o"
    return f"{a}.{b}.{r}"


def model_lines(scen):
    init = scen.get("init")
    fails = [str(i) for i, x in enumerate(init or []) if x == "fail"]
    leak = [str(t) for t in scen.get("leak_after", [])]
    tasks = ";".join(spec_code(t) for t in scen.get("tasks", [])) or "-"
    lines = [f"cfg mw={scen['max_workers']} timeout={1 if scen.get('timeout') else 0} init={1 if init is not None else 0} "
             f"initfail={','.join(fails) or '-'} leak={','.join(leak) or '-'} tasks={tasks}"]
    for k, script in enumerate(scen["users"]):
        ops = []
        for op in script:
            if op[0] in ("submit", "cancel"):
                ops.append(f"{op[0]}:{op[1]}")
            elif op[0] == "shutdown":
                ops.append(f"shutdown:{1 if op[1] else 0}:{1 if op[2] else 0}")
            else:
                ops.append(op[0])
        lines.append(f"script {k} " + " ".join(ops))
    lines.append("begin")
    return lines


def compare(scen, rec):
    """returns None if model and implementation agree on every step, else a description"""
    lines = model_lines(scen) + [f"step {a} {v}" for a, v, _ in rec["trace"]]
    r = subprocess.run([DRIVER], input="\n".join(lines) + "\n", capture_output=True, text=True, timeout=120)
    out = r.stdout.strip().split("\n")
    nhead = len(scen["users"]) + 1
    if any(o != "ok" for o in out[:nhead]):
        return {"kind": "driver-config", "out": out[:nhead]}
    out = out[nhead:]
    n = len(rec["trace"])
    if len(out) != n + 1:
        return {"kind": "driver-lines", "got": len(out), "want": n + 1, "last": out[-1] if out else None}
    for i in range(n + 1):
        line = out[i]
        if line.startswith("DISABLED") or line.startswith("bad"):
            return {"kind": "model-disabled", "step": i, "model": line, "impl": rec["trace"][i - 1],
                    "impl_enabled": rec["enabled"][i - 1]}
        parts = [x.strip() for x in line.split(" | ")]
        m_label, m_en, m_obs = parts[0], parts[1], parts[2]
        m_en = sorted(x for x in m_en.split(",") if x)
        if i > 0 and m_label != rec["trace"][i - 1][2]:
            return {"kind": "op-mismatch", "step": i, "actor": rec["trace"][i - 1][0], "model": m_label,
                    "impl": rec["trace"][i - 1][2]}
        i_en = rec["enabled"][i] if i < len(rec["enabled"]) else rec["final_enabled"]
        if rec["end"] in ("quiescent", "stopped", "maxsteps") or i < n:
            if m_en != i_en:
                return {"kind": "enabled-mismatch", "step": i, "after": rec["trace"][i - 1] if i else "init",
                        "model": m_en, "impl": i_en, "model_obs": m_obs}
        if i > 0 and rec["obs"]:
            i_obs = rec["obs"][i - 1]["canon"]
            if i_obs != m_obs:
                return {"kind": "obs-mismatch", "step": i, "after": rec["trace"][i - 1], "model": m_obs, "impl": i_obs}
    return None
