"""E1 — deterministic scheduler + simulated kernel for running loky's REAL executor code.

Every blocking / inter-process primitive used by loky/process_executor.py, reusable_executor.py,
backend/queues.py and the stdlib multiprocessing.queues module is replaced by a simulated one
that announces the operation to the scheduler and parks until it is handed the baton.  Actors
(user threads, manager thread, feeder thread, worker "processes") are OS threads; exactly one
runs at any time.  See DESIGN.md §4.2.
"""
import builtins
import collections
import os
import pickle
import sys
import threading as _rt
import types

REPO = os.environ.get("VERIF_REPO", "/repo")


class ActorKilled(BaseException):
    pass


class Op:
    __slots__ = ("kind", "obj", "arg", "timeout")

    def __init__(self, kind, obj=None, arg=None, timeout=None):
        self.kind, self.obj, self.arg, self.timeout = kind, obj, arg, timeout


def lab(o):
    return getattr(o, "label", "?")


def canon(op):
    """canonical text of an announced operation (the contract with the Lean model)"""
    k = op.kind
    if k == "acquire":
        return f"acquire({lab(op.obj)},{'B' if op.arg else 'NB'}{',T' if op.timeout is not None else ''})"
    if k in ("release", "send", "recv"):
        return f"{k}({lab(op.obj)})"
    if k == "poll":
        return f"poll({lab(op.obj)},{'NB' if op.arg == 'nb' else 'T'})"
    if k == "wait":
        return "wait(" + ",".join(lab(o) for o in op.arg) + ")"
    if k == "cwait":
        return "cwait"
    if k == "tstart":
        return f"tstart({op.arg})"
    if k == "tjoin":
        return f"tjoin({op.obj.aname if op.obj._actor else op.obj.name})"
    if k == "pstart":
        return "pstart"
    if k == "pjoin":
        return f"pjoin({op.obj.pid})"
    if k == "alive":
        return f"alive({op.obj.pid})"
    if k == "kill":
        return f"kill({op.obj.pid})"
    if k == "task":
        return f"task({op.arg})"
    if k == "taskend":
        return f"taskend({op.arg})"
    if k == "init":
        return "init"
    if k == "exit":
        return f"exit({op.arg})"
    if k == "sleep":
        return "sleep"
    if k == "fut":
        return f"fut({op.arg})"
    if k == "start":
        return "start"
    if k == "api":
        return f"api({op.arg})"
    return k


class Actor:
    def __init__(self, eng, name, target, kind):
        self.eng, self.name, self.kind = eng, name, kind
        self.baton = _rt.Semaphore(0)
        self.pending = None
        self.variant = None
        self.done = False
        self.killed = False
        self.exc = None
        self.proc = None
        self.nops = 0
        self.in_body = None
        self.killer_waits = False
        self.finished = _rt.Semaphore(0)
        self.owner_pid = 0
        self.tasks_done = []

        box = [target]

        def main():
            self.baton.acquire()
            eng._tls.actor = self
            try:
                if not self.killed:
                    box[0]()
            except ActorKilled:
                pass
            except SystemExit:
                pass
            except BaseException as e:      # the actor's top-level code raised: recorded, reported by monitors
                self.exc = e
                eng.events.append((self.name, "EXC", f"{type(e).__name__}: {e}"[:300]))
            finally:
                box[0] = None           # a finished thread no longer keeps its Thread object alive
                self.done = True
                self.pending = None
                eng._tls.actor = None
                if self.killer_waits:
                    self.finished.release()     # killed while parked: whoever killed it waits for the unwinding
                else:
                    eng.sched_sem.release()

        self.th = _rt.Thread(target=main, daemon=True, name="sim-" + name)


class Engine:
    def __init__(self):
        self.actors = collections.OrderedDict()
        self.sched_sem = _rt.Semaphore(0)
        self._tls = _rt.local()
        self.events = []            # (actor, "EXC"/"CRASH", text)
        self.trace = []             # per executed step: (actor, variant, op label)
        self.clock = 0.0
        self.next_pid = 100
        self.steps = 0
        self.thread_counts = {}
        self.manager_of = {}
        self.on_step = None         # callback(engine) after each step (observations)

    # -- actor side ---------------------------------------------------------------
    def me(self):
        return getattr(self._tls, "actor", None)

    def spawn(self, name, target, kind):
        a = Actor(self, name, target, kind)
        a.pending = Op("start")
        self.actors[name] = a
        a.th.start()
        return a

    def op(self, kind, obj=None, arg=None, timeout=None):
        a = self.me()
        if a is None:               # set-up code outside any actor: execute directly
            return "ok"
        if a.killed:
            raise ActorKilled()
        a.pending = Op(kind, obj, arg, timeout)
        self.sched_sem.release()
        a.baton.acquire()
        if a.killed:
            raise ActorKilled()
        return a.variant

    # -- scheduler side -----------------------------------------------------------
    def variants(self, a):
        op = a.pending
        if op is None or a.done or a.killed:
            return []
        k = op.kind
        vs = []
        if k in ("start", "release", "send", "sleep", "task", "taskend", "init", "exit", "tstart", "pstart", "kill",
                 "alive", "api", "fut"):
            vs = ["ok"]
        elif k == "acquire":
            if op.obj.value > 0 or op.obj.owned_by(a):
                vs = ["ok"]
            elif not op.arg:
                vs = ["fail"]
            elif op.timeout is not None:
                vs = ["timeout"]
        elif k in ("recv", "poll"):
            if op.obj.pipe.msgs or op.obj.pipe.writers_closed():
                vs = ["ok"]
            elif op.arg == "nb":
                vs = ["fail"]
            elif op.timeout is not None:
                vs = ["timeout"]
        elif k == "wait":
            if any(o.ready() for o in op.arg):
                vs = ["ok"]
        elif k == "cwait":
            if op.obj.notified:
                vs = ["ok"]
        elif k == "tjoin":
            if op.obj._actor is None or op.obj._actor.done:
                vs = ["ok"]
        elif k == "pjoin":
            if not op.obj.alive:
                vs = ["ok"]
        else:
            raise RuntimeError("unknown op " + k)
        if a.kind == "proc" and k != "exit":
            vs = vs + ["crash"]
        return vs

    def enabled(self):
        return [(a.name, v) for a in self.actors.values() for v in self.variants(a)]

    def pending_ops(self):
        return {a.name: canon(a.pending) for a in self.actors.values()
                if a.pending is not None and not a.done and not a.killed}

    def kill_actor(self, a, code):
        """mark a worker dead where it stands; every simulated lock it holds stays held"""
        a.killed = True
        a.killer_waits = True
        a.proc._die(code)
        a.baton.release()
        a.finished.acquire()            # wait until its thread has unwound

    def run(self, chooser, max_steps=4000):
        while True:
            choices = self.enabled()
            if not any(v != "crash" for _, v in choices):
                return "quiescent"      # nothing can move unless the adversary crashes something
            pick = chooser(self, choices)
            if pick is None:
                return "stopped"
            name, v = pick
            if (name, v) not in choices:
                return "diverged"
            a = self.actors[name]
            self.steps += 1
            if self.steps > max_steps:
                return "maxsteps"
            label = canon(a.pending)
            self.trace.append((name, v, label))
            a.nops += 1
            if v == "crash":
                self.events.append((name, "CRASH", label, self.steps))
                self.kill_actor(a, -9)
            else:
                a.variant = v
                a.pending = None
                a.baton.release()
                self.sched_sem.acquire()    # until it announces again or finishes
            if self.on_step:
                self.on_step(self)


ENG = None


def set_engine(e):
    global ENG
    ENG = e


# ------------------------------------------------------------------------ kernel objects

class _SemLockView:
    def __init__(self, s):
        self.s = s

    def _is_zero(self):
        return self.s.value == 0

    def _get_value(self):
        return self.s.value

    def _is_mine(self):
        return self.s.owner is ENG.me()

    def _count(self):
        return self.s.count if self._is_mine() else 0


class SimSem:
    """kernel semaphore: ctx.Lock / ctx.BoundedSemaphore / threading.Lock / threading.RLock"""
    n = 0

    def __init__(self, value=1, maxvalue=1, label=None, recursive=False):
        SimSem.n += 1
        self.value, self.maxvalue = value, maxvalue
        self.label = label or f"sem{SimSem.n}"
        self.owner = None
        self.count = 0
        self.recursive = recursive
        self._semlock = _SemLockView(self)

    def owned_by(self, a):
        return self.recursive and self.owner is a and a is not None

    def acquire(self, block=True, timeout=None):
        if timeout is not None and timeout < 0:
            timeout = None
        me = ENG.me()
        if self.recursive and self.owner is me and me is not None:
            ENG.op("acquire", self, block, timeout)
            self.count += 1
            return True
        v = ENG.op("acquire", self, block, timeout)
        if v == "ok":
            assert self.value > 0
            self.value -= 1
            self.owner = ENG.me()
            self.count = 1
            return True
        return False

    def release(self):
        ENG.op("release", self)
        if self.recursive:
            if self.owner is not ENG.me():
                raise RuntimeError("cannot release un-acquired lock")
            self.count -= 1
            if self.count > 0:
                return
        if self.value >= self.maxvalue:
            raise ValueError("semaphore or lock released too many times")
        self.value += 1
        self.owner = None

    def __enter__(self):
        return self.acquire()

    def __exit__(self, *a):
        self.release()

    def locked(self):
        return self.value == 0

    # copies handed to a simulated child refer to the same kernel object
    def __reduce__(self):
        return (_same, (id(self),))


_BY_ID = {}


def _same(i):
    return _BY_ID[i]


class _Pipe:
    n = 0

    def __init__(self, label):
        self.msgs = collections.deque()
        self.label = label
        self.w_open = set()         # owners (process ids; 0 = parent) holding the write end open
        self.r_open = set()

    def writers_closed(self):
        return not self.w_open


def _owner():
    a = ENG.me()
    if a is not None and a.kind == "proc":
        return a.proc.pid
    if a is not None and getattr(a, "owner_pid", 0):
        return a.owner_pid
    return 0


class SimConn:
    def __init__(self, pipe, readable):
        self.pipe, self.readable = pipe, readable
        self.label = pipe.label
        (pipe.r_open if readable else pipe.w_open).add(0)

    def ready(self):
        return bool(self.pipe.msgs) or self.pipe.writers_closed()

    def fileno(self):
        return id(self) % 100000

    @property
    def closed(self):
        return _owner() not in (self.pipe.r_open if self.readable else self.pipe.w_open)

    def _check(self):
        if self.closed:
            raise OSError("handle is closed")

    def send_bytes(self, b, *a):
        ENG.op("send", self)
        self._check()
        b = bytes(b)
        if b"TooLarge" in b:
            import struct
            raise struct.error("simulated: message too large for send_bytes")
        if self.label.endswith("rq.pipe"):
            # semantic event for the monitors: what kind of message a worker sent back
            try:
                o = pickle.loads(b)
                kind = ("ANNOUNCE", o) if isinstance(o, int) else \
                    ("RESULT", o.work_id) if hasattr(o, "work_id") else ("REMOTE_TB", None)
            except BaseException:
                kind = ("RESULT", "unloadable")
            a = ENG.me()
            ENG.events.append((a.name if a else "?", kind[0], kind[1], ENG.steps))
        self.pipe.msgs.append(b)

    def send(self, obj):
        self.send_bytes(pickle.dumps(obj))

    def recv_bytes(self, *a):
        ENG.op("recv", self)
        self._check()
        if not self.pipe.msgs:
            raise EOFError
        return self.pipe.msgs.popleft()

    def recv(self):
        return pickle.loads(self.recv_bytes())

    def poll(self, timeout=0.0):
        if timeout is not None and timeout <= 0:
            v = ENG.op("poll", self, "nb")
        else:
            v = ENG.op("poll", self, None, timeout if timeout is not None else None)
        self._check()
        return v == "ok"

    def close(self):
        (self.pipe.r_open if self.readable else self.pipe.w_open).discard(_owner())

    def __reduce__(self):
        return (_same, (id(self),))


def SimPipe(duplex=False, label=None):
    _Pipe.n += 1
    p = _Pipe(label or f"pipe{_Pipe.n}")
    r, w = SimConn(p, True), SimConn(p, False)
    _BY_ID[id(r)] = r
    _BY_ID[id(w)] = w
    return r, w


class Sentinel:
    def __init__(self, proc):
        self.proc = proc

    @property
    def label(self):
        return f"sentinel{self.proc.pid}"

    def ready(self):
        return not self.proc.alive


def sim_wait(objs, timeout=None):
    objs = list(objs)
    ENG.op("wait", None, objs, timeout)
    return [o for o in objs if o.ready()]


# ------------------------------------------------------------------------ threads

class SimThread:
    def __init__(self, group=None, target=None, name=None, args=(), kwargs=None, daemon=None):
        self._target, self._args, self._kwargs = target, args, kwargs or {}
        self.name = name or "Thread"
        self.daemon = daemon
        self._actor = None
        self.aname = None

    def run(self):
        if self._target:
            self._target(*self._args, **self._kwargs)

    def start(self):
        base = {"ExecutorManagerThread": "M", "QueueFeederThread": "F"}.get(self.name, self.name)
        k = ENG.thread_counts.get(base, 0)
        ENG.thread_counts[base] = k + 1
        self.aname = base if k == 0 else f"{base}{k}"
        ENG.op("tstart", None, self.aname)
        self._actor = ENG.spawn(self.aname, self.run, "thread")
        self._actor.owner_pid = _owner()
        fl = getattr(self, "executor_flags", None)
        if fl is not None:              # a manager thread: remember whose it is (by its flags object)
            ENG.manager_of[id(fl)] = self.aname

    def join(self, timeout=None):
        ENG.op("tjoin", self)

    def is_alive(self):
        return self._actor is not None and not self._actor.done

    def __hash__(self):
        return id(self)


class SimCond:
    """non-yielding lock, yielding wait (Queue._notempty: in-process, never contended for long)"""

    def __init__(self, lock=None):
        self.notified = False
        self.label = "notempty"

    def acquire(self, *a):
        return True

    def release(self):
        pass

    __enter__ = acquire

    def __exit__(self, *a):
        pass

    def wait(self, timeout=None):
        self.notified = False
        ENG.op("cwait", self)

    def notify(self, n=1):
        self.notified = True

    notify_all = notify


def make_threading_shim(yielding_locks):
    m = types.ModuleType("threading_shim")
    m.__dict__.update({k: getattr(_rt, k) for k in dir(_rt) if not k.startswith("__")})
    m.Thread = SimThread
    if yielding_locks:
        m.Lock = lambda: _reg(SimSem(1, 1, "tlock"))
        m.RLock = lambda: _reg(SimSem(1, 1, "trlock", recursive=True))
    m.Condition = SimCond
    m._register_atexit = lambda f, *a: f
    return m


def _reg(o):
    _BY_ID[id(o)] = o
    return o


# ------------------------------------------------------------------------ processes

class SimProcess:
    def __init__(self, target=None, args=(), env=None, name=None, **kw):
        self._target, self._args, self.env = target, args, env
        self.pid = None
        self.alive = False
        self.exitcode = None
        self.name = name or "LokyProcess"
        self._actor = None

    def start(self):
        ENG.op("pstart", None)
        self.pid = ENG.next_pid
        ENG.next_pid += 1
        self.sentinel = Sentinel(self)
        self.alive = True
        self.name = f"W{self.pid}"
        WORLD.before_child_start(self)
        a = ENG.spawn(self.name, WORLD.worker_entry(self), "proc")
        a.proc = self
        self._actor = a

    def _die(self, code):
        self.alive = False
        self.exitcode = code
        WORLD.on_process_death(self)

    def is_alive(self):
        ENG.op("alive", self)
        return self.alive

    def join(self, timeout=None):
        ENG.op("pjoin", self)

    def kill(self):
        if self.alive:
            ENG.kill_actor(self._actor, -9)


class SimCtx:
    def __init__(self):
        self.exit_labels = False

    def get_start_method(self):
        return "loky"

    def Lock(self):
        return _reg(SimSem(1, 1))

    def BoundedSemaphore(self, v=1):
        s = _reg(SimSem(v, v))
        if self.exit_labels and v == 1:
            s.label = f"exit[{ENG.next_pid}]"
        return s

    def Process(self, **kw):
        return SimProcess(**kw)

    def get_context(self):
        return self


WORLD = None


def set_world(w):
    global WORLD
    WORLD = w
