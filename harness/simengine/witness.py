"""Search short witness schedules for the known finding classes on hand-made small scenarios.
    python -m harness.simengine.witness            # prints JSON (scenario, schedule) per class + Lean text
"""
import json
import multiprocessing
import sys

from . import monitors, world as W

SCENS = {
    "D4": {"kind": "plain", "max_workers": 1, "timeout": 5, "tasks": [{"body": "ok"}], "family": "witness",
           "users": [[["create"], ["submit", 0], ["drop"]]], "sched": {"p_timeout": 0.5, "p_crash": 0.0, "max_crashes": 0}},
    "D5": {"kind": "plain", "max_workers": 1, "timeout": 5, "tasks": [{"body": "ok"}], "family": "witness",
           "users": [[["create"], ["submit", 0], ["shutdown", True, False]]],
           "sched": {"p_timeout": 0.4, "p_crash": 0.08, "max_crashes": 1}},
    "D7": {"kind": "plain", "max_workers": 2, "timeout": None, "tasks": [{"body": "ok"}], "family": "witness",
           "users": [[["create"], ["submit", 0], ["shutdown", True, False]]],
           "sched": {"p_timeout": 0.0, "p_crash": 0.05, "max_crashes": 1}},
}


def one(job):
    kid, seed = job
    scen = SCENS[kid]
    st, rec = W.forked(W.run_scenario, scen, W.random_chooser(seed, **scen["sched"]))
    if st != "ok":
        return None
    fails, known, facts = monitors.evaluate_attributed(scen, rec, ["C01"])
    if kid in known and not fails:
        return (rec["steps"], seed, [[a, v] for a, v, _ in rec["trace"]], [list(f) for f in known[kid]])
    return None


def lean_actor(a):
    return f".U {a[1:]}" if a.startswith("U") else ".M" if a == "M" else ".F" if a == "F" else f".W {a[1:]}"


def main():
    out = {}
    with multiprocessing.get_context("fork").Pool(16) as pool:
        for kid in SCENS:
            res = [r for r in pool.map(one, [(kid, s) for s in range(3000)], chunksize=8) if r]
            if not res:
                print("no witness for", kid, file=sys.stderr)
                continue
            res.sort()
            steps, seed, sched, what = res[0]
            out[kid] = {"scenario": SCENS[kid], "schedule": sched, "what": what, "found": len(res)}
            print(kid, "witnesses:", len(res), "shortest:", steps, "seed", seed, file=sys.stderr)
    json.dump(out, open("/tmp/witnesses.json", "w"), indent=1)
    for kid, w in out.items():
        sc = ", ".join(f"({lean_actor(a)}, .{v})" for a, v in w["schedule"])
        print(f"-- {kid}: {w['what'][0][2][:150]}")
        print(f"def sched{kid} : List (Actor × Variant) := [{sc}]")


if __name__ == "__main__":
    main()
