"""E3 runner for C15 (part "reuse"): `python -m harness.realproc.c15_runner < case.json`.

A fresh process (imports loky from the current PYTHONPATH, so `VERIF_REPO` is honoured) that runs a history of
`get_reusable_executor(...)` requests, user shutdowns and plain `ProcessPoolExecutor`s with real workers.  After
every request two probe tasks are submitted to the executor that request returned; the answer says which
reducer pickled the task arguments (parent side, feeder thread), which one pickled the result (worker side),
which initializer ran in the worker and what its environment holds.  Output: one canonical line per op (the
format of the `reuse` command of `lean/Drivers/PickleDriver.lean`).  Every wait has a deadline; a missed
deadline is {"infra": ...} and exit status 3.
"""
import json
import os
import sys
import threading

DEADLINE = float(os.environ.get("VERIF_E3_DEADLINE", "120"))


class InfraError(Exception):
    pass


def main():
    case = json.load(sys.stdin)
    out = {}
    rc = 0
    watchdog = threading.Timer(DEADLINE * 3, lambda: (sys.stdout.write(json.dumps({"infra": "runner watchdog"})),
                                                      sys.stdout.flush(), os._exit(3)))
    watchdog.daemon = True
    watchdog.start()
    cur = None
    try:
        from concurrent.futures import TimeoutError as FTimeout
        from loky import ProcessPoolExecutor, get_reusable_executor
        from . import c15_member as M
        reds, inits = {}, {}

        def red(key):
            if key not in reds:
                reds[key] = M.make_reducer(*case["objs"][str(key)])
            return reds[key]

        def init(key):
            if key not in inits:
                inits[key] = M.make_initializer(*case["inits"][str(key)])
            return inits[key]

        def rmap(spec):
            return None if spec is None else {M.PAYLOAD[t]: red(k) for t, k in spec}

        def probe(ex, n=2):
            futs = [ex.submit(M.probe, M.payload()) for _ in range(n)]
            res = []
            for f in futs:
                try:
                    res.append(f.result(timeout=DEADLINE))
                except FTimeout:
                    raise InfraError("a probe task did not return")
            obs = []
            for r in res:
                i = r["init"]
                obs.append((",".join(r["seen"]), ",".join(M.tag(x) for x in r["back"]),
                            "none" if i is None else str(i[0]),
                            "-" if i is None or not i[1] else ",".join(map(str, i[1])),
                            "none" if r["env"] is None else r["env"]))
            if len(set(obs)) != 1:
                return "inconsistent:" + "|".join(sorted({"/".join(o) for o in obs}))
            return obs[0]

        lines = []
        for op in case["ops"]:
            k = op["op"]
            if k == "s":
                if cur is not None:
                    cur.shutdown(wait=True)
                lines.append("s")
            elif k == "p":
                ex = ProcessPoolExecutor(max_workers=1, job_reducers=rmap(op["job"]), result_reducers=rmap(op["res"]))
                try:
                    o = probe(ex, 1)
                finally:
                    ex.shutdown(wait=True)
                lines.append(o if isinstance(o, str) else f"plain,job={o[0]},res={o[1]}")
            elif k == "q":
                env = op["env"]
                if env is not None:
                    env = {M.ENV_NAME: str(env["v"])} if "v" in env else {}
                kw = dict(max_workers=op["w"], timeout=op["timeout"], job_reducers=rmap(op["job"]),
                          result_reducers=rmap(op["res"]), initializer=None if op["init"] is None else init(op["init"]),
                          initargs=tuple(op["initargs"]), env=env)
                ex = get_reusable_executor(**kw)
                reused = ex is cur
                cur = ex
                o = probe(ex)
                if isinstance(o, str):
                    lines.append(o)
                else:
                    envs = "none" if o[4] == "none" else f"1:{o[4]}"
                    if op["env"] == {} and o[4] == "none":
                        envs = "-"
                    lines.append(f"{'reused' if reused else 'new'},id={ex.executor_id},w={ex._max_workers},job={o[0]},"
                                 f"res={o[1]},init={o[2]},args={o[3]},env={envs}")
            else:
                lines.append("bad-op")
        out["lines"] = lines
    except InfraError as e:
        out["infra"] = str(e)
        rc = 3
    except Exception as e:  # noqa: BLE001
        import traceback
        out["exc"] = f"{type(e).__name__}: {e} | " + traceback.format_exc()[-400:].replace("\n", " | ")
    finally:
        try:
            if cur is not None:
                cur.shutdown(wait=True, kill_workers=True)
        except Exception:  # noqa: BLE001
            pass
    watchdog.cancel()
    sys.stdout.write(json.dumps(out))
    sys.stdout.flush()
    sys.exit(rc)


if __name__ == "__main__":
    main()
