"""tasks and arguments of the C20 lifecycles whose futures the caller keeps (importable in the workers)"""
import threading


class Unsendable:
    """an argument that cannot be pickled: the QueueFeederThread fails on it (`_on_queue_feeder_error`)"""

    def __init__(self):
        self.lock = threading.Lock()


def t_len(x):
    return len(x) if hasattr(x, "__len__") else -1


def t_raise(msg):
    raise ValueError(msg)


def t_badres():
    """a result that cannot be pickled in the worker"""
    return threading.Lock()
