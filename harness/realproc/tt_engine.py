"""E3 engine for the process-tree properties (C12, C13): real processes vs the M4 driver.

A case is an abstract history `{"steps": [...]}`.  Every step is executed (a) by `tt_runner` on a real
loky process tree, one fresh subprocess per scenario, up to `PAR` scenarios in parallel, and (b) by the
compiled Lean driver `trackertree_driver`; the canonical observation lines of both sides are compared
step by step (correspondence) and the property's oracle — written from the statement, independent of
the model — is evaluated on the raw real observations.
"""
import json
import os
import re
import subprocess
import sys
from concurrent.futures import ThreadPoolExecutor

from .. import common as C

PAR = int(os.environ.get("VERIF_E3_PAR", "8"))
RELAUNCH = "died unexpectedly, relaunching"
LEAK_RE = re.compile(r"There appear to be (\d+) leaked (\w+) objects")

# number of named semaphores behind each primitive (loky/backend/synchronize.py, multiprocessing/queues.py)
NSEMS = {"Lock": 1, "RLock": 1, "Semaphore": 1, "BoundedSemaphore": 1, "Condition": 4, "Event": 5,
         "Queue": 3, "SimpleQueue": 2}


# steps whose observation line carries the tracker incarnation of the acting member
TRK_STEPS = ("spawn", "op", "opsig", "info", "new", "del", "pop", "pnew")


def warn_cfg(case):
    return (case.get("cfg") or {}).get("warn")


def run_scenario(case, timeout=600):
    """run one scenario in a fresh runner subprocess; returns the runner's JSON"""
    env = dict(os.environ)
    pp = C.ROOT + (os.pathsep + env["PYTHONPATH"] if env.get("PYTHONPATH") else "")
    env["PYTHONPATH"] = pp
    try:
        r = subprocess.run([sys.executable, "-m", "harness.realproc.tt_runner"], input=json.dumps(case),
                           capture_output=True, text=True, timeout=timeout, cwd=C.ROOT, env=env)
    except subprocess.TimeoutExpired:
        raise C.Infra(f"E3 runner exceeded {timeout}s on {json.dumps(case)[:300]}")
    if r.returncode not in (0, 3) or not r.stdout.strip():
        raise C.Infra(f"E3 runner failed rc={r.returncode}: {r.stderr[-800:]}")
    out = json.loads(r.stdout)
    if r.returncode == 3 or "infra" in out:
        raise C.Infra(f"E3 scenario: {out.get('infra')} | steps={json.dumps(case['steps'])[:400]} | "
                      f"stderr={out.get('stderr_tail', '')[-400:]}")
    return out


def leak_tokens(stderr):
    toks = []
    for n, rtype in LEAK_RE.findall(stderr or ""):
        toks.append({"semlock": "S", "file": "F", "folder": "D"}.get(rtype, "?") + n)
    return sorted(toks)


def fmt_obs(trk, child, warn, snap, leaks):
    def key(m):
        return (0, int(m)) if str(m).isdigit() else (1, str(m))
    ws = ";".join(f"{k}:" + "+".join(str(m) for m in sorted(snap["writers"][k], key=key))
                  for k in sorted(snap["writers"], key=int))
    sems = ",".join(f"{m}:{len(snap['sems'][m])}" for m in sorted(snap["sems"], key=key))
    return (f"trk={'-' if trk is None else trk} child={'-' if child is None else child} warn={warn} "
            f"alive={','.join(str(a) for a in snap['alive'])} writers={ws} "
            f"files={','.join(str(f) for f in sorted(snap['files']))} sems={sems} leaks={leaks}")


class E3TreeProp:
    id = "C00"
    name = "e3"
    engine = "E3"
    lean_modules = []
    driver = "trackertree_driver"
    budget = {"quick": 170, "thorough": 1700}
    n_cases = {"quick": 20, "thorough": 200}
    search_cases = {"quick": 12, "thorough": 60}
    rule = ""
    assumptions = []

    # ---- provided by the property ---------------------------------------------------------
    def corpus(self):
        return []

    def gen(self, rng, i):
        raise NotImplementedError

    def model_lines_of_step(self, case, st):
        """driver lines for one abstract step (the observation of the last one is compared)"""
        raise NotImplementedError

    def oracle(self, case, out):
        return None

    def classify(self, case, out):
        return []

    def nontrivial(self, case, out):
        return True

    def shrink_candidates(self, case):
        return []

    # ---- real side ------------------------------------------------------------------------
    def impl(self, case):
        return run_scenario(case)

    def canon_real(self, case, out):
        lines = []
        for st, o in zip(case["steps"], out["obs"]):
            act = o.get("act") or {}
            warn = sum(1 for w in act.get("warnings", []) if RELAUNCH in w) + o.get("exit_warns", 0)
            trk = o.get("trk") if st[0] in TRK_STEPS else None
            thr = o.get("thr_trks")
            if thr and set(thr) != {trk}:
                trk = "/".join(sorted({str(t) for t in thr}))        # the threads of the member disagree
            child = o.get("child_trk") if st[0] == "spawn" else None
            imp = o.get("import")
            if imp:
                warn += sum(1 for w in imp.get("warnings", []) if RELAUNCH in w)
                if imp.get("trk") != child or not imp.get("ok"):
                    child = f"{child}@import:{imp.get('trk') if imp.get('ok') else imp.get('exc')}"
            # with warnings turned into errors the tracker's (guarded) "leaked" warning is swallowed: not compared
            leaks = ",".join(leak_tokens(o.get("stderr"))) if st[0] == "end" and not warn_cfg(case) else "*"
            line = fmt_obs(trk, child, warn, o, leaks)
            if o.get("skipped"):
                line = "skipped(" + o["skipped"] + ") " + line
            if act.get("ok") is False:
                line = f"raised:{act.get('exc')} " + line
            if act.get("errors"):
                line = f"raised-in-thread:{len(act['errors'])} " + line
            lines.append(line)
        return lines

    # ---- model side -----------------------------------------------------------------------
    def canon_model(self, case, raw):
        """raw: per step, the driver's output lines; keep the last, sort / mask the leak tokens"""
        lines = []
        for st, outs in zip(case["steps"], raw):
            last = outs[-1]
            bad = any(l.startswith("bad") for l in outs)
            m = re.match(r"(.* )leaks=(.*)$", last)
            if m:
                toks = sorted(t for t in m.group(2).split(",") if t)
                last = m.group(1) + "leaks=" + (",".join(toks) if st[0] == "end" and not warn_cfg(case) else "*")
            if st[0] not in TRK_STEPS:
                last = re.sub(r"^trk=\S+", "trk=-", last)
            lines.append(("bad-model-step " if bad else "") + last)
        return lines

    def run_model(self, cases, corr):
        drv = C.Driver(self.driver)
        try:
            drv.ensure()
        except C.Infra as e:
            corr.model_error = str(e)
            return None
        lines, spans = [], []
        for c in cases:
            lines.append("init")
            per = []
            for st in c["steps"]:
                ls = self.model_lines_of_step(c, st)
                per.append((len(lines), len(ls)))
                lines += ls
            spans.append(per)
        outs = drv.run(lines)
        res = []
        for c, per in zip(cases, spans):
            res.append(self.canon_model(c, [outs[a:a + n] for a, n in per]))
        return res

    # ---- engine ---------------------------------------------------------------------------
    def run_real_many(self, cases):
        with ThreadPoolExecutor(max_workers=PAR) as pool:
            futs = [pool.submit(self.impl, c) for c in cases]
            outs = []
            infra = None
            for f in futs:
                try:
                    outs.append(f.result())
                except C.Infra as e:
                    infra = infra or e
                    outs.append(None)
        if infra is not None:
            raise infra
        return outs

    def evaluate(self, cases, corr, with_model=True, ctx=None):
        outs = self.run_real_many(cases)
        model = self.run_model(cases, corr) if with_model else None
        known = getattr(ctx, "known", []) if ctx is not None else []
        for i, case in enumerate(cases):
            out = outs[i]
            corr.evaluations += 1
            for k in self.classify(case, out):
                corr.count(k)
            if self.nontrivial(case, out):
                corr.nontrivial(case)
            bad = self.oracle(case, out)
            real = self.canon_real(case, out)
            fid = self.attribute(case, out, bad, known) if bad else None
            if bad and fid:
                corr.known_hits[fid] = corr.known_hits.get(fid, 0) + 1
            elif bad:
                corr.failures.append({"input": case, "impl": real, "what": bad})
            if model is not None and model[i] != real and not fid:
                j = next((k for k in range(min(len(real), len(model[i]))) if real[k] != model[i][k]), None)
                corr.disagreements.append({"input": case, "model": model[i], "impl": real,
                                           "first_diff_step": None if j is None else case["steps"][j]})
        return outs, model

    def attribute(self, case, out, bad, known):
        """finding id when this failing run lies inside a listed finding's history class"""
        return None

    def correspondence(self, ctx, corr):
        corr.rule = self.rule
        cases = list(self.corpus())
        ncorp = len(cases)
        rng = C.rng_for(ctx.seed, self.id, self.name, "gen")
        cases += [self.gen(rng, i) for i in range(self.n_cases[ctx.tier])]
        outs, model = self.evaluate(cases, corr, ctx=ctx)
        corr.extra["corpus_cases"] = ncorp
        corr.extra["real_process_scenarios"] = len(cases)
        for j in sorted({0, len(cases) // 2, len(cases) - 1}):
            corr.samples.append({"input": cases[j], "impl": self.canon_real(cases[j], outs[j])[-3:],
                                 "model": None if model is None else model[j][-3:]})
        corr.failures = [self.shrink(f) for f in corr.failures[:2]] + corr.failures[2:]
        corr.disagreements.sort(key=lambda d: len(json.dumps(d["input"])))

    def shrink(self, f):
        cur = f
        for _ in range(6):
            for cand in list(self.shrink_candidates(cur["input"]))[:6]:
                try:
                    out = self.impl(cand)
                except C.Infra:
                    continue
                bad = self.oracle(cand, out)
                if bad:
                    cur = {"input": cand, "impl": self.canon_real(cand, out), "what": bad}
                    break
            else:
                break
        return cur

    def search(self, ctx, corr, broken):
        cands = [d["input"] for d in corr.disagreements[:8]]
        rng = C.rng_for(ctx.seed, self.id, self.name, "search")
        more = [self.gen(rng, i) for i in range(self.search_cases[ctx.tier])]
        c2 = C.Corr()
        self.evaluate(cands + more, c2, with_model=False, ctx=ctx)
        corr.extra["search_cases"] = c2.evaluations
        if c2.failures:
            return self.shrink(c2.failures[0])
        return None

    def replay(self, ctx, data):
        res = []
        for f in data.get("failing", []):
            out = self.impl(f["input"])
            bad = self.oracle(f["input"], out)
            res.append({"input": f["input"], "impl": self.canon_real(f["input"], out), "what": bad})
        return {"fails": any(r["what"] for r in res), "results": res}

    def replay_finding(self, ctx, finding):
        w = finding.get("witness")
        if w is None:
            return {"fails": False}
        out = self.impl(w)
        bad = self.oracle(w, out)
        return {"fails": bool(bad), "input": w, "impl": self.canon_real(w, out), "what": bad}
