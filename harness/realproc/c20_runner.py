"""E3 runner for C20: `python -m harness.realproc.c20_runner < sequence.json`.

A fresh process (imports loky from the current PYTHONPATH, so `VERIF_REPO` is honoured) that
  1. warms up: starts the loky and the multiprocessing resource trackers, runs one tiny executor lifecycle
     (first-use allocations: at-exit hooks, imports), waits for quiescence -> baseline counts;
  2. runs the given sequence of executor lifecycles once, observing the parent-side counts at the points
     the ledger model predicts (after the constructor, with all workers up, after the "mid" action, after
     shutdown + release);
  3. runs the sequence k-1 more times and counts again.
Counts: open descriptors (/proc/self/fd), live threads (threading.enumerate()), child processes incl.
zombies (/proc scan for ppid == self, the tracker processes aside), named semaphores created by this
process (/dev/shm/sem.loky-<pid>-*).  Every wait has a deadline; a missed deadline is {"infra": ...} and
exit status 3.

What the caller keeps.  A lifecycle may submit extra tasks (`"futs"`: a result, a task exception, arguments
that cannot be pickled, a result that cannot be pickled) and, with `"keep": true`, the caller KEEPS their
futures — and those of the tasks that were running when the pool was killed or broke — in a list that lives
until the end of the process, over all repetitions: user-held futures must not pin anything of a shut-down,
released executor.  Futures are waited for with `concurrent.futures.wait` and never `result()`-ed: raising the
stored exception would append the *caller's* frames (and through them the caller's local variables, the
executor included) to its traceback, which is not the library's doing.

Oversized queued tasks.  `"big": j` submits j tasks whose pickled arguments are far larger than a pipe buffer
while every worker is busy: nobody reads the call queue, the QueueFeederThread blocks in the middle of
`send_bytes` (positive signal: the call pipe holds >= 32 KiB unread).  The pool is then torn down by the
lifecycle's route (worker SIGKILLed, shutdown(kill_workers=True), get_reusable_executor(kill_workers=True), or
a graceful shutdown after the short busy tasks end).  A feeder thread that is still inside a pipe write when
the executor has completed shutdown and no child process is left can never be served (no reader exists but
this process, which does not read): it is not waited for but counted as a live thread.
"""
import array
import fcntl
import gc
import glob
import json
import os
import signal
import sys
import termios
import threading
import time
import weakref
from concurrent.futures import wait as wait_futures

DEADLINE = float(os.environ.get("VERIF_E3_DEADLINE", "60"))


class InfraError(Exception):
    pass


def wait_until(pred, what, deadline=None, step=0.005):
    t0 = time.time()
    deadline = DEADLINE if deadline is None else deadline
    while not pred():
        if time.time() - t0 > deadline:
            raise InfraError(f"deadline ({deadline}s) missed waiting for {what}")
        time.sleep(step)


def tracker_pids():
    from loky.backend import resource_tracker as rt
    from multiprocessing import resource_tracker as mrt
    return {p for p in (rt._resource_tracker._pid, mrt._resource_tracker._pid) if p}


def children():
    me = os.getpid()
    out = []
    for d in os.listdir("/proc"):
        if d.isdigit():
            try:
                with open(f"/proc/{d}/stat") as f:
                    s = f.read()
                rest = s[s.rindex(")") + 2:].split()
                if int(rest[1]) == me:
                    out.append((int(d), rest[0]))
            except (OSError, ValueError):
                pass
    return sorted(out)


def fd_table():
    tab = {}
    for fd in os.listdir("/proc/self/fd"):
        try:
            tab[int(fd)] = os.readlink(f"/proc/self/fd/{fd}")
        except OSError:
            pass                      # the descriptor of the listing itself
    return tab


def _in_pipe_write(thread):
    """the thread is inside Connection.send_bytes (blocked in, or about to return from, a write on a pipe)"""
    f = sys._current_frames().get(thread.ident)
    while f is not None:
        if f.f_code.co_name in ("_send", "_send_bytes", "send_bytes") and "connection" in f.f_code.co_filename:
            return True
        f = f.f_back
    return False


_STRANDED = set()      # feeder threads found stranded for good (they stay so: nobody will ever read their pipe)


def _stranded(thread):
    """positive signal that a feeder thread of a closed queue will never end: it is inside a pipe write, no child
    process of ours exists (the workers, the only other holders of the read end, are gone) and it has not moved
    for a second.  Such a thread is a leaked thread, not a missed deadline."""
    def live_children():
        trk = tracker_pids()
        return [p for p, st in children() if p not in trk and st not in ("Z", "X")]
    if thread in _STRANDED:
        return thread.is_alive()
    for _ in range(4):
        if not thread.is_alive() or not _in_pipe_write(thread) or live_children():
            return False
        time.sleep(0.25)
    if thread.is_alive():
        _STRANDED.add(thread)
    return thread.is_alive()


def quiesce():
    """positive signals only: feeder threads of closed queues have ended (or are stranded for good), garbage is
    collected"""
    from .tt_member import _closing
    t0 = time.time()
    while True:
        busy = [t for t in threading.enumerate() if t.name == "QueueFeederThread" and _closing(t)]
        busy = [t for t in busy if not _stranded(t)]
        if not busy:
            break
        if time.time() - t0 > DEADLINE:
            raise InfraError("a QueueFeederThread of a closed queue did not end")
        time.sleep(0.005)
    gc.collect()


def counts(detail=False):
    quiesce()
    trk = tracker_pids()
    fds = fd_table()
    ch = [(p, st) for p, st in children() if p not in trk]
    th = sorted(t.name for t in threading.enumerate())
    sems = sorted(os.path.basename(p) for p in glob.glob(f"/dev/shm/sem.loky-{os.getpid()}-*"))
    c = {"fds": len(fds), "threads": len(th), "children": len(ch), "sems": len(sems)}
    if detail:
        c["detail"] = {"fds": {str(k): v for k, v in sorted(fds.items())}, "threads": th,
                       "children": ch, "sems": sems}
    return c


def delta(c, base):
    return [c[k] - base[k] for k in ("fds", "threads", "children", "sems")]


def start_all(ex, n):
    from .tt_member import t_pid
    pids = set()
    t0 = time.time()
    while len(pids) < n:
        pids |= set(ex.map(t_pid, range(2 * n)))
        if time.time() - t0 > DEADLINE:
            raise InfraError(f"{n} workers did not come up")
    return pids


def pstate(pid):
    try:
        with open(f"/proc/{pid}/stat") as f:
            s = f.read()
        return s[s.rindex(")") + 2]
    except (OSError, ValueError, IndexError):
        return None


def workers_gone(pids):
    """positive signal: every worker process has ended (zombie or gone); then a short grace for the manager
    thread, which is blocked in join() on it, to reap it"""
    for p in pids:
        wait_until(lambda p=p: pstate(p) in (None, "Z", "X"), f"worker {p} to end")
    t0 = time.time()
    while time.time() - t0 < 3.0 and any(pstate(p) is not None for p in pids):
        time.sleep(0.005)


def join_manager(th, what):
    if th is not None:
        th.join(DEADLINE)
        if th.is_alive():
            raise InfraError(f"manager thread still alive after {what}")


KEPT = []          # what the caller keeps for the rest of the process: futures of completed lifecycles
BIG = 4 * 1024 * 1024


def keep(spec, futs):
    if spec.get("keep"):
        KEPT.extend(futs)


def settle(futs, what):
    """wait for futures without raising their exceptions in this frame"""
    if futs:
        done, pending = wait_futures(futs, timeout=DEADLINE)
        if pending:
            raise InfraError(f"{len(pending)} future(s) of {what} not resolved")


def extras(ex, spec):
    """the extra tasks of a lifecycle: each future is resolved before the lifecycle goes on"""
    from .c20_tasks import Unsendable, t_badres, t_len, t_raise
    futs = []
    for kind in spec.get("futs", []):
        if kind == "ok":
            futs.append(ex.submit(t_len, b"abc"))
        elif kind == "exc":
            futs.append(ex.submit(t_raise, "boom"))
        elif kind == "badarg":
            futs.append(ex.submit(t_len, Unsendable()))
        elif kind == "badres":
            futs.append(ex.submit(t_badres))
        else:
            raise InfraError(f"unknown future kind {kind}")
    settle(futs, "the extra tasks")
    keep(spec, futs)


def pipe_unread(conn):
    buf = array.array("i", [0])
    fcntl.ioctl(conn.fileno(), termios.FIONREAD, buf)
    return buf[0]


def submit_big(ex, spec):
    """oversized tasks behind busy workers: returns their futures once the feeder thread is mid-send"""
    from .c20_tasks import t_len
    j = spec.get("big", 0)
    if not j:
        return []
    futs = [ex.submit(t_len, b"x" * BIG) for _ in range(j)]
    reader = ex._call_queue._reader
    wait_until(lambda: pipe_unread(reader) >= 32768, "the feeder thread to block in the middle of a large task")
    return futs


def lifecycle(spec, base, observe):
    """run one lifecycle; returns the deltas at the observation points (only when `observe`)"""
    from loky import ProcessPoolExecutor, get_reusable_executor
    from .tt_member import t_noop, t_osexit, t_sleep, t_nested, t_desc_sleep
    kind, n, m = spec["kind"], spec.get("n", 1), spec.get("m", 0)
    obs = {}

    def look(tag):
        if observe:
            obs[tag] = delta(counts(), base)
    if kind == "unused":
        ex = ProcessPoolExecutor(n)
        look("ctor")
        ex.shutdown(wait=True)
        del ex
        look("end")
        return obs
    if kind == "resized":
        ex = get_reusable_executor(max_workers=n, timeout=300, kill_workers=True)
        start_all(ex, n)
        look("started")
        extras(ex, spec)
        ex2 = get_reusable_executor(max_workers=m, timeout=300)
        if ex2 is not ex:
            raise InfraError("resize replaced the executor")
        before = set(ex._processes)
        wait_until(lambda: len(ex._processes) == m, "the pool to reach its new size")
        start_all(ex, m)
        workers_gone(before - set(ex._processes))
        look("mid")
        th = ex._executor_manager_thread
        ex.shutdown(wait=True)
        join_manager(th, "shutdown")
        del ex, ex2, th
        look("end")
        return obs
    if kind == "rekill":
        # busy workers (and oversized tasks behind them), then a request with other arguments and kill_workers=True
        ex = get_reusable_executor(max_workers=n, timeout=300, kill_workers=True)
        start_all(ex, n)
        look("started")
        extras(ex, spec)
        th = ex._executor_manager_thread
        futs = [ex.submit(t_sleep, 60) for _ in range(n)]
        time.sleep(0.1)
        futs += submit_big(ex, spec)
        ex2 = get_reusable_executor(max_workers=n, timeout=299, kill_workers=True)
        if ex2 is ex:
            raise InfraError("changed arguments did not replace the executor")
        join_manager(th, "the replacement with kill_workers=True")
        settle(futs, "the killed executor")
        keep(spec, futs)
        ex2.shutdown(wait=True)
        del ex, ex2, th, futs
        look("end")
        return obs
    timeout = 0.3 if kind == "idle" else None
    ex = ProcessPoolExecutor(n, timeout=timeout)
    look("ctor")
    if kind == "idle":
        pids = start_all(ex, n)
        extras(ex, spec)
        wait_until(lambda: len(ex._processes) == 0, "every worker to idle-time-out")
        workers_gone(pids)
        look("mid")
        ex.shutdown(wait=True)
    else:
        start_all(ex, n)
        look("started")
        if spec.get("nested"):
            list(ex.map(t_nested, range(n)))
        extras(ex, spec)
        th = ex._executor_manager_thread
        if kind == "clean":
            futs = []
            if spec.get("big"):
                # graceful: the busy tasks are short, the oversized ones are served after them
                futs = [ex.submit(t_sleep, 0.3) for _ in range(n)]
                futs += submit_big(ex, spec)
            if spec.get("ctx"):
                with ex:
                    list(ex.map(t_noop, range(3)))
            else:
                ex.shutdown(wait=True)
            settle(futs, "the graceful shutdown")
            keep(spec, futs)
            del futs
        elif kind == "kill":
            busy = n if spec.get("big") else spec.get("busy", 0)
            if spec.get("desc"):
                # every worker has a live descendant when it is killed (kill_process_tree has a tree to walk)
                futs = [ex.submit(t_desc_sleep, 60) for _ in range(n)]
                time.sleep(1.0)
            else:
                futs = [ex.submit(t_sleep, 60) for _ in range(busy)]
            if futs:
                time.sleep(0.1)
            futs += submit_big(ex, spec)
            ex.shutdown(wait=True, kill_workers=True)
            settle(futs, "shutdown(kill_workers=True)")
            keep(spec, futs)
            del futs
        elif kind == "broken":
            if spec.get("how") == "sigkill":
                futs = [ex.submit(t_desc_sleep if spec.get("desc") else t_sleep, 60) for _ in range(n)]
                time.sleep(1.0 if spec.get("desc") else 0.2)
                futs += submit_big(ex, spec)
                os.kill(sorted(ex._processes)[0], signal.SIGKILL)
                settle(futs, "the broken pool")
                if any(f.exception() is None for f in futs):
                    raise InfraError("a task of the killed pool returned")
                keep(spec, futs)
                del futs
            else:
                fut = ex.submit(t_osexit, 3)
                settle([fut], "the broken pool")
                if fut.exception() is None:
                    raise InfraError("the crashing task returned")
                keep(spec, [fut])
                del fut
            join_manager(th, "the pool broke")
            look("mid")
            ex.shutdown(wait=True)
        elif kind == "dropped":
            if spec.get("nowait"):
                ex.shutdown(wait=False)
            alive = weakref.ref(ex)
            del ex
            gc.collect()
            # positive signal that the release took effect: the executor object is gone (the manager thread
            # holds a strong reference only within one turn of its loop).  If it is not -- something the caller
            # kept, i.e. a future, references the executor -- the manager will never shut the pool down: that
            # is not a missed deadline, the counts at "end" show the threads and children left behind.
            t0 = time.time()
            while alive() is not None and time.time() - t0 < 30:
                time.sleep(0.01)
                gc.collect()
            if alive() is not None:
                th = None
            join_manager(th, "the executor was released")
            ex = None
        else:
            raise InfraError(f"unknown lifecycle {kind}")
        join_manager(th, kind)
        del th
    del ex
    look("end")
    return obs


def main():
    spec = json.load(sys.stdin)
    out = {}
    rc = 0
    try:
        from loky.backend import resource_tracker as rt
        from multiprocessing import resource_tracker as mrt
        from loky.backend import get_context
        rt.ensure_running()
        mrt.ensure_running()
        lk = get_context("loky").Lock()
        del lk
        lifecycle({"kind": "clean", "n": 1}, None, False)
        import multiprocessing.process as mpp
        mpp._cleanup()
        base = counts(detail=True)
        out["baseline"] = base
        out["trackers"] = sorted(tracker_pids())
        seq = spec["seq"]
        out["first"] = [lifecycle(s, base, True) for s in seq]
        c1 = counts(detail=True)
        out["after_1"] = c1
        for _ in range(spec["k"] - 1):
            for s in seq:
                lifecycle(s, base, False)
        ck = counts(detail=True)
        out["after_k"] = ck
        out["trackers_end"] = sorted(tracker_pids())
    except InfraError as e:
        out["infra"] = str(e)
        rc = 3
    sys.stdout.write(json.dumps(out))
    sys.stdout.flush()
    sys.exit(rc)


if __name__ == "__main__":
    main()
