"""What the C15 "reuse" scenarios send to real workers (importable in the workers: `harness` is on sys.path).

Payload classes P0..P2, reducers of five flavours that share their implementation (one code object / one
class) and differ only in state, initializers of three flavours, and the probe task.  A reducer with behaviour
tag `beh` rebuilds an instance of P<j> as `Marked(beh, 30 + j)`, so the receiving side can tell which reducer
pickled what it got.
"""
import functools
import os


class P0:
    pass


class P1:
    pass


class P2:
    pass


PAYLOAD = {30: P0, 31: P1, 32: P2}
TYID = {v: k for k, v in PAYLOAD.items()}
PROBES = sorted(PAYLOAD)
KINDS = ["closure", "instance", "partial", "method", "lambda"]
INIT_KINDS = ["closure", "instance", "partial"]
ENV_NAME = "VERIF_C15_ENV"


class Marked:
    def __init__(self, beh, ty):
        self.beh, self.ty = beh, ty


def _mark(beh, ty):
    return Marked(beh, ty)


def _tyid(obj):
    return TYID.get(type(obj), 0)


# ------------------------------------------------------------------ reducers: same code, different state

def make_closure(beh):
    def reduce_payload(obj):
        return _mark, (beh, _tyid(obj))
    return reduce_payload


class Reducer:
    def __init__(self, beh):
        self.beh = beh

    def __call__(self, obj):
        return _mark, (self.beh, _tyid(obj))

    def reduce(self, obj):
        return _mark, (self.beh, _tyid(obj))


def _reduce_with(beh, obj):
    return _mark, (beh, _tyid(obj))


def make_lambda(beh):
    return lambda obj, beh=beh: (_mark, (beh, _tyid(obj)))


def beh_of(kind, state):
    return KINDS.index(kind) * 10 + state


def make_reducer(kind, state):
    beh = beh_of(kind, state)
    if kind == "closure":
        return make_closure(beh)
    if kind == "instance":
        return Reducer(beh)
    if kind == "partial":
        return functools.partial(_reduce_with, beh)
    if kind == "method":
        return Reducer(beh).reduce
    if kind == "lambda":
        return make_lambda(beh)
    raise ValueError(kind)


# ------------------------------------------------------------------ initializers

_INIT = None


def _set_init(beh, args):
    global _INIT
    _INIT = [beh, list(args)]


def make_init_closure(beh):
    def initializer(*args):
        _set_init(beh, args)
    return initializer


class Initializer:
    def __init__(self, beh):
        self.beh = beh

    def __call__(self, *args):
        _set_init(self.beh, args)


def _init_with(beh, *args):
    _set_init(beh, args)


def init_beh(kind, state):
    return INIT_KINDS.index(kind) * 10 + state


def make_initializer(kind, state):
    beh = init_beh(kind, state)
    if kind == "closure":
        return make_init_closure(beh)
    if kind == "instance":
        return Initializer(beh)
    if kind == "partial":
        return functools.partial(_init_with, beh)
    raise ValueError(kind)


# ------------------------------------------------------------------ the task

def tag(x):
    if isinstance(x, Marked):
        return str(x.beh) if x.ty in PAYLOAD else "bad"
    return "n" if type(x) in TYID else "bad"


def payload():
    return [PAYLOAD[t]() for t in PROBES]


def probe(args):
    """runs in a worker: how the arguments arrived, the worker's initializer mark and environment, and fresh
    payload objects for the way back"""
    return {"seen": [tag(x) for x in args], "init": _INIT, "env": os.environ.get(ENV_NAME), "back": payload(),
            "pid": os.getpid()}
