"""E3 (C12/C13): one member of a real loky process tree.

The root member is started by `tt_runner` as `python -m harness.realproc.tt_root <socket> 0`;
every other member is a `LokyProcess` / `LokyInitMainProcess` whose target is `member_main`.
Each member connects to the coordinator's Unix socket and serves one JSON command per line.
Nothing here decides anything: the member only performs the requested operation with the
real loky code and reports what it saw (tracker pid/fd, warnings, exception, names).
"""
import gc
import json
import os
import signal
import socket
import sys
import threading
import time
import warnings

SIGS = {"int": signal.SIGINT, "term": signal.SIGTERM, "kill": signal.SIGKILL}

# ---- observation / scheduling aids installed in every member ---------------------------------------
# LAUNCHED: pids of the tracker processes this member launched, in launch order (recorded by a wrapper
# around `resource_tracker.spawnv_passfds`).  SLOW: optional delays (seconds) added to that launch and to
# the liveness probe `_check_alive`: they only widen the windows between the probe, the launch and the
# assignment of `_fd/_pid`, they change nothing else.  IMPORT: what the re-imported main module did at
# import time in a `loky_init_main` child (see tt_root).
LAUNCHED = []
SLOW = {"spawn": 0.0, "probe": 0.0, "stagger": 0.0}
IMPORT = {}
IMPORT_OBJS = {}
_installed = []


def _rt():
    import loky.backend.resource_tracker  # noqa: F401  (loky.backend binds some names to other modules)
    return sys.modules["loky.backend.resource_tracker"]


def _syn():
    import loky.backend.synchronize  # noqa: F401
    return sys.modules["loky.backend.synchronize"]


def install():
    """idempotent: recorder around the tracker launch, optional delays"""
    if _installed:
        return
    _installed.append(True)
    rt = _rt()
    orig_spawn = rt.spawnv_passfds

    def spawnv_passfds(*a, **kw):
        if SLOW["spawn"]:
            time.sleep(SLOW["spawn"])
        pid = orig_spawn(*a, **kw)
        LAUNCHED.append(pid)
        if SLOW["spawn"]:
            time.sleep(SLOW["spawn"])
        return pid
    rt.spawnv_passfds = spawnv_passfds
    orig_probe = rt.ResourceTracker._check_alive

    def _check_alive(self):
        if SLOW.get("stagger"):
            # the threads of a concurrent step enter the probe one after the other: a probe made outside the lock
            # (a lock-free "fast path") then overlaps with the relaunch another thread performs under the lock
            nm = threading.current_thread().name
            if nm.startswith("tt-op-"):
                time.sleep(SLOW["stagger"] * int(nm[6:]))
        r = orig_probe(self)
        if SLOW["probe"]:
            time.sleep(SLOW["probe"])
        return r
    rt.ResourceTracker._check_alive = _check_alive


def drain_launched():
    out = list(LAUNCHED)
    del LAUNCHED[:]
    return out


def import_time_op():
    """called by the main module (tt_root) while it is re-imported as `__mp_main__` in a loky_init_main child:
    performs the tracked operation the scenario asked for, *at import time*, and records which tracker the
    child was using at that moment"""
    spec = os.environ.pop("TT_IMPORT_OP", None)
    if not spec:
        return
    spec = json.loads(spec)
    install()
    rep = {"kind": spec["kind"], "ok": True, "trk_before": trk()}
    try:
        with warnings.catch_warnings(record=True) as ws:
            warnings.simplefilter("always")
            if spec["kind"] == "file":
                _rt().register(spec["path"], "file")
            else:
                o = make_prim("Lock")
                IMPORT_OBJS[str(spec["o"])] = o
                rep["names"] = sem_names(o)
        rep["warnings"] = [str(w.message)[:160] for w in ws]
    except BaseException as e:
        rep.update(ok=False, exc=type(e).__name__, msg=str(e)[:200])
    rep["trk"] = trk()
    rep["launched"] = list(LAUNCHED)
    IMPORT.update(rep)


def trk():
    t = _rt()._resource_tracker
    return [t._pid, t._fd]


def sem_names(obj, depth=0, seen=None):
    """kernel names of every SemLock reachable from a loky primitive"""
    seen = set() if seen is None else seen
    if id(obj) in seen or depth > 4:
        return []
    seen.add(id(obj))
    out = []
    sl = getattr(obj, "_semlock", None)
    if sl is not None and hasattr(sl, "name"):
        out.append(sl.name)
    d = getattr(obj, "__dict__", None)
    if isinstance(d, dict):
        for k in sorted(d):
            v = d[k]
            if type(v).__module__.startswith(("loky.", "multiprocessing.")) and not callable(v):
                out += sem_names(v, depth + 1, seen)
    return out


def make_prim(kind):
    from loky.backend import get_context
    ctx = get_context("loky")
    if kind == "Lock":
        return ctx.Lock()
    if kind == "RLock":
        return ctx.RLock()
    if kind == "Semaphore":
        return ctx.Semaphore(2)
    if kind == "BoundedSemaphore":
        return ctx.BoundedSemaphore(2)
    if kind == "Condition":
        return ctx.Condition()
    if kind == "Event":
        return ctx.Event()
    if kind == "Queue":
        return ctx.Queue(3)
    if kind == "SimpleQueue":
        return ctx.SimpleQueue()
    raise ValueError(kind)


# ---- tasks run inside executor workers (importable by reference) ----------------------

def t_noop(x=0):
    return x


def t_pid(x=0):
    time.sleep(0.05)
    return os.getpid()


def t_sleep(s):
    time.sleep(s)
    return os.getpid()


def t_osexit(code=3):
    os._exit(code)


def t_nested(x):
    """a task that runs an executor of its own inside the worker (nested parallelism)"""
    from loky import ProcessPoolExecutor
    with ProcessPoolExecutor(1) as ex:
        return list(ex.map(t_noop, range(2)))


def t_desc_sleep(t):
    """a task whose worker has a live descendant (a plain subprocess) for as long as it runs"""
    import subprocess
    # (detached from the harness's stdio: an orphan of a directly SIGKILLed worker must not keep those pipes open)
    subprocess.Popen([sys.executable, "-c", "import time; time.sleep(25)"], stdin=subprocess.DEVNULL,
                     stdout=subprocess.DEVNULL, stderr=subprocess.DEVNULL)
    time.sleep(t)


def quiesce(deadline=30.0):
    """an executor's QueueFeederThread ends on its own shortly after the queue was closed (it is not joined
    by loky in the process that created the queue): wait for the threads of closed queues, then collect."""
    t0 = time.time()
    stuck = False
    while True:
        # feeder threads of queues that are still open belong to live executors: they stay
        busy = [t for t in threading.enumerate() if t.name == "QueueFeederThread" and _closing(t)]
        if not busy:
            break
        if time.time() - t0 > deadline:
            stuck = True
            break
        time.sleep(0.005)
    gc.collect()
    return stuck


def _closing(thread):
    """the queue behind this feeder thread has been closed (its sentinel is in the buffer or already consumed)"""
    args = getattr(thread, "_args", None)
    if not args:
        return True                   # already past run(): about to end
    onerror = args[7] if len(args) > 7 else None
    q = getattr(onerror, "__self__", None)
    return bool(getattr(q, "_closed", True))


class Member:
    def __init__(self, sockpath, mid, copies):
        self.sockpath = sockpath
        self.mid = mid
        install()
        self.objs = dict(copies or {})
        if copies:
            copies.clear()        # the Process object keeps its args: do not let it keep the copies alive
        self.objs.update(IMPORT_OBJS)     # objects the main module created at import time
        IMPORT_OBJS.clear()
        self.children = {}
        self.execs = {}
        self.futs = {}
        s = socket.socket(socket.AF_UNIX, socket.SOCK_STREAM)
        s.connect(sockpath)
        self.sock = s
        self.f = s.makefile("rwb")

    def send(self, obj):
        self.f.write(json.dumps(obj).encode() + b"\n")
        self.f.flush()

    def serve(self):
        self.send({"hello": self.mid, "pid": os.getpid(), "ppid": os.getppid(), "trk": trk(),
                   "main": getattr(sys.modules.get("__main__"), "__name__", None),
                   "mp_main": "__mp_main__" in sys.modules, "import": dict(IMPORT) or None,
                   "launched": drain_launched()})
        while True:
            line = self.f.readline()
            if not line:
                return                       # coordinator went away: leave normally
            cmd = json.loads(line)
            how = None
            with warnings.catch_warnings(record=True) as ws:
                warnings.simplefilter("always")
                rep = {"ok": True}
                try:
                    how = self.handle(cmd, rep)
                    if cmd["cmd"].startswith("x"):
                        rep["feeder_stuck"] = quiesce()
                except BaseException as e:      # the operation itself raised: that is an observation
                    rep = {"ok": False, "exc": type(e).__name__, "msg": str(e)[:200]}
            rep["warnings"] = [str(w.message)[:160] for w in ws]
            rep["trk"] = trk()
            rep["launched"] = drain_launched()
            if how is None:
                self.send(rep)
                continue
            # exits: acknowledge first, then leave in the requested way
            self.send(rep)
            if how == "normal":
                return
            if how == "exc":
                raise RuntimeError("scenario: uncaught exception in member %d" % self.mid)
            if how == "osexit":
                os._exit(7)
            if how == "hang":                     # wait to be killed by a signal
                while True:
                    time.sleep(60)

    @staticmethod
    def _join_manager(ex, timeout=60):
        """positive signal that a broken pool has finished tearing itself down"""
        th = ex._executor_manager_thread
        if th is None:
            return False
        th.join(timeout)
        return th.is_alive()

    @staticmethod
    def in_threads(fns, rep, slow=None, timeout=240):
        """run the functions in len(fns) fresh threads, released together; per thread: exception, tracker seen
        right after the operation"""
        n = len(fns)
        bar = threading.Barrier(n) if n > 1 else None
        errors, trks = [], [None] * n

        late = []

        def body(i):
            try:
                if bar is not None:
                    try:
                        bar.wait(120)
                    except threading.BrokenBarrierError:
                        late.append(i)           # a missed deadline of the harness, not an observation
                        return
                fns[i]()
            except BaseException as e:
                errors.append("%s: %s" % (type(e).__name__, str(e)[:160]))
            trks[i] = trk()
        old = dict(SLOW)
        if slow:
            SLOW.update(slow)
        try:
            ts = [threading.Thread(target=body, args=(i,), name="tt-op-%d" % i) for i in range(n)]
            for t in ts:
                t.start()
            for t in ts:
                t.join(timeout)
            hung = [t.name for t in ts if t.is_alive()]
        finally:
            SLOW.update(old)
        rep["errors"] = errors
        rep["thr_trks"] = trks
        rep["hung"] = hung + ["barrier-%d" % i for i in late]

    # ------------------------------------------------------------------ commands
    def handle(self, cmd, rep):
        c = cmd["cmd"]
        rt = _rt()
        if c == "info":
            rep["pid"] = os.getpid()
            rep["threads"] = sorted(t.name for t in threading.enumerate())
        elif c == "spawn":
            from loky.backend import get_context
            ctx = get_context(cmd["method"])
            copies = {str(o2): self.objs[str(o)] for o, o2 in cmd.get("pass", [])}
            p = ctx.Process(target=member_main, args=(self.sockpath, cmd["child"], copies))
            if cmd.get("import"):
                # the child inherits the environment: its main module finds the request while it is re-imported
                os.environ["TT_IMPORT_OP"] = json.dumps(cmd["import"])
            try:
                p.start()
            finally:
                os.environ.pop("TT_IMPORT_OP", None)
            self.children[cmd["child"]] = p
            rep["pid"] = p.pid
        elif c == "op":
            fn = {"register": rt.register, "unregister": rt.unregister, "maybe_unlink": rt.maybe_unlink}[cmd["op"]]
            if cmd.get("thread") == "pool":
                # ... by a worker thread of a thread pool (concurrent.futures executor)
                from concurrent.futures import ThreadPoolExecutor
                with ThreadPoolExecutor(max_workers=1) as tp:
                    tp.submit(fn, cmd["path"], "file").result(240)
            elif cmd.get("thread"):
                # the operation (hence a possible tracker launch) is done by a thread other than the main thread
                self.in_threads([lambda: fn(cmd["path"], "file")], rep)
                if rep.get("errors"):
                    raise RuntimeError("thread: " + rep["errors"][0])
            else:
                fn(cmd["path"], "file")
            if cmd.get("sig"):
                os.kill(rt._resource_tracker._pid, SIGS[cmd["sig"]])
        elif c == "pop":
            # k threads do a tracked operation at the same time (released together by a barrier)
            fn = {"register": rt.register, "unregister": rt.unregister, "maybe_unlink": rt.maybe_unlink}[cmd["op"]]
            self.in_threads([(lambda pth=pth: fn(pth, "file")) for pth in cmd["paths"]], rep, slow=cmd.get("slow"))
        elif c == "pnew":
            made = {}

            def mk(o):
                made[o] = make_prim(cmd["kind"])
            self.in_threads([(lambda o=o: mk(o)) for o in cmd["os"]], rep, slow=cmd.get("slow"))
            rep["names"] = []
            rep["names_of"] = {}
            for o in cmd["os"]:
                if o in made:
                    self.objs[str(o)] = made[o]
                    rep["names_of"][str(o)] = sem_names(made[o])
                    rep["names"] += rep["names_of"][str(o)]
            made.clear()
        elif c == "mkfile":
            with open(cmd["path"], "w") as f:
                f.write("x")
        elif c == "new":
            o = make_prim(cmd["kind"])
            self.objs[str(cmd["o"])] = o
            rep["names"] = sem_names(o)
        elif c == "killnew":
            # SIGKILL arriving between sem_open and REGISTER inside SemLock.__init__ (a signal may
            # arrive at any instruction; this forces that instant)
            def die(*a):
                os.kill(os.getpid(), signal.SIGKILL)
                time.sleep(60)
            self.send({"ok": True, "warnings": [], "trk": trk()})
            from loky.backend import synchronize
            synchronize.resource_tracker.register = die
            make_prim("Lock")
        elif c in ("killfin", "killexit"):
            # SIGKILL arriving inside a SemLock finalizer, after `k` of its clean-up primitives (`sem_unlink`,
            # `resource_tracker.unregister`) have completed, whatever their order in the code
            k = cmd["k"]
            done = [0]

            def die():
                os.kill(os.getpid(), signal.SIGKILL)
                time.sleep(60)

            def wrap(fn):
                def w(*a, **kw):
                    if done[0] >= k:
                        die()
                    r = fn(*a, **kw)
                    done[0] += 1
                    return r
                return w
            syn = _syn()
            self.send({"ok": True, "warnings": [], "trk": trk(), "launched": drain_launched(),
                       "names": sem_names(self.objs.get(str(cmd.get("o")))) if c == "killfin" else []})
            syn.sem_unlink = wrap(syn.sem_unlink)
            rt.unregister = wrap(rt.unregister)
            if c == "killexit":
                return "normal"          # util._exit_function runs the finalizers: the k-th primitive kills
            o = self.objs.pop(str(cmd["o"]))
            del o
            gc.collect()
            die()                        # every primitive of this collection has completed (or there was none)
        elif c == "del":
            o = self.objs.pop(str(cmd["o"]))
            del o
            gc.collect()
        elif c == "names":
            rep["names"] = {k: sem_names(v) for k, v in self.objs.items()}
        elif c == "reap":
            p = self.children.get(cmd["child"])
            if p is not None:
                p.join(cmd.get("timeout", 30))
                rep["exitcode"] = p.exitcode
        elif c == "exit":
            return cmd["how"]
        # ---- executors (C13) -------------------------------------------------------------
        elif c == "xnew":
            if cmd["kind"] == "reusable":
                from loky import get_reusable_executor
                ex = get_reusable_executor(max_workers=cmd["workers"], timeout=cmd.get("timeout", 300),
                                           kill_workers=True)
            else:
                from loky import ProcessPoolExecutor
                ex = ProcessPoolExecutor(max_workers=cmd["workers"], timeout=cmd.get("timeout"))
            self.execs[str(cmd["x"])] = ex
            # make sure every worker is up before reporting
            deadline = time.time() + 60
            pids = set()
            while len(pids) < cmd["workers"] and time.time() < deadline:
                pids |= set(ex.map(t_pid, range(2 * cmd["workers"])))
            rep["workers"] = sorted(ex._processes)
            rep["names"] = sem_names_of_executor(ex)
        elif c == "xrun":
            ex = self.execs[str(cmd["x"])]
            rep["results"] = len(list(ex.map(t_noop, range(cmd["n"]))))
        elif c == "xsleep":       # occupy every worker; futures are kept
            ex = self.execs[str(cmd["x"])]
            self.futs[str(cmd["x"])] = [ex.submit(t_sleep, 120) for _ in range(cmd["n"])]
            time.sleep(0.3)
            rep["workers"] = sorted(ex._processes)
        elif c == "xcrash":       # a task that takes its worker down with os._exit
            ex = self.execs[str(cmd["x"])]
            fut = ex.submit(t_osexit, 3)
            try:
                fut.result(timeout=60)
                rep["broken"] = None
            except Exception as e:
                rep["broken"] = type(e).__name__
            rep["thread_alive"] = self._join_manager(ex)
        elif c == "xwait":        # after the coordinator killed a worker: the futures must fail
            res = []
            for fut in self.futs.pop(str(cmd["x"]), []):
                try:
                    fut.result(timeout=60)
                    res.append("ok")
                except Exception as e:
                    res.append(type(e).__name__)
            rep["results"] = res
            rep["thread_alive"] = self._join_manager(self.execs[str(cmd["x"])])
            if cmd.get("raise") and any(r != "ok" for r in res):
                rep["raising"] = True
                from loky.process_executor import TerminatedWorkerError
                self._uncaught = TerminatedWorkerError("scenario: pool broke, parent does not catch it")
                return "normal"      # member_main re-raises it: uncaught exception ends the process
        elif c == "xshutdown":
            ex = self.execs[str(cmd["x"])]
            ex.shutdown(wait=cmd.get("wait", True), kill_workers=cmd.get("kill", False))
        elif c == "xdrop":
            ex = self.execs.pop(str(cmd["x"]))
            th = ex._executor_manager_thread
            del ex
            gc.collect()
            if th is not None:
                th.join(60)
                rep["thread_alive"] = th.is_alive()
            del th
            gc.collect()
        elif c == "xdispatch":    # keep dispatching from a background thread until killed
            ex = self.execs[str(cmd["x"])]
            done = []

            def pump():
                while True:
                    fs = [ex.submit(t_noop, i) for i in range(8)]
                    for fu in fs:
                        fu.result()
                        done.append(1)
            threading.Thread(target=pump, daemon=True).start()
            deadline = time.time() + 60
            while len(done) < 16 and time.time() < deadline:
                time.sleep(0.01)
            rep["dispatched"] = len(done)
        else:
            raise ValueError("unknown command %r" % (c,))
        return None


def sem_names_of_executor(ex):
    names = []
    for attr in ("_processes_management_lock", "_call_queue", "_result_queue"):
        names += sem_names(getattr(ex, attr, None))
    for p in list(ex._processes.values()):
        names += sem_names(getattr(p, "_worker_exit_lock", None))
    return names


def member_main(sockpath, mid, copies=None):
    m = Member(sockpath, mid, copies)
    try:
        m.serve()
    finally:
        try:
            m.f.close()
            m.sock.close()
        except Exception:
            pass
    exc = getattr(m, "_uncaught", None)
    if exc is not None:
        raise exc
