"""root member of an E3 process tree: `python -m harness.realproc.tt_root <socket> <member id>`.

Kept separate from tt_member so that `member_main` is importable by reference in the children and
so that the `loky_init_main` start method has a real main module to re-import (this file is then
run a second time in the child as `__mp_main__`; the guard below keeps it from serving twice)."""
import sys

from harness.realproc.tt_member import member_main

if __name__ == "__mp_main__":
    # re-imported in a loky_init_main child: a main script that uses the tracker at module level
    # (a tracked operation / a loky Lock at import time), when the scenario asks for it
    from harness.realproc.tt_member import import_time_op
    import_time_op()

if __name__ == "__main__":
    member_main(sys.argv[1], int(sys.argv[2]))
