"""E3 coordinator for C12/C13 scenarios: `python -m harness.realproc.tt_runner < scenario.json`.

Runs as a fresh subprocess of the harness, *outside* the loky process tree it builds: it never
imports loky.  It starts the root member (`tt_root`, which imports loky from the current
PYTHONPATH, so `VERIF_REPO` is honoured), drives the abstract history step by step through the
members' sockets, delivers signals, and reports raw observations as JSON:

  * tracker pid/fd believed by the acting member after each step, warnings, exception;
  * for every tracker incarnation seen: alive?, the real writer set of its pipe (members whose
    /proc/<pid>/fd holds the pipe inode the tracker reads from);
  * existence of the tracked files; /dev/shm/sem.loky-<pid>-* per member pid;
  * at the end: stderr of the tree ("leaked" reports of the trackers), after every tracker exited;
  * every tracker process launched anywhere in the tree, numbered in launch order: the members report the pids
    they launched (`launched`, recorded around `spawnv_passfds`), and every snapshot scans the process tree
    below this coordinator for tracker processes nobody reported (`ntrk` = incarnations seen so far).

Step kinds beyond spawn / op / opsig / sig / exit / new / del / x*: a trailing "thread" on op / opsig (the
operation, hence a tracker launch, is done by a non-main thread of the member); `pop` / `pnew` (k threads of a
member do a tracked operation / create a primitive at the same time, optionally with a delay in
`spawnv_passfds` and `_check_alive`); a 6th element `["file", f]` / `["lock", o]` on spawn (the re-imported main
module of a `loky_init_main` child registers a file / creates a Lock at import time); `killfin` / `killexit` (the
member SIGKILLs itself inside a SemLock finalizer after k clean-up primitives); `cfg.warn` = "flag" | "env" |
"env-user" starts the root with `-W error` / the tree with PYTHONWARNINGS=error / error::UserWarning.

Every wait has a deadline; a missed deadline is reported as {"infra": ...} (exit status 3), which the
harness turns into `common.Infra`.  The process is a child sub-reaper, so orphans of killed members are
re-parented here, reaped here, and killed at the end: nothing survives a scenario.
"""
import ctypes
import glob
import json
import os
import re
import select
import shutil
import signal
import socket
import subprocess
import sys
import tempfile
import time

ROOT = os.path.dirname(os.path.dirname(os.path.dirname(os.path.abspath(__file__))))
SIGS = {"int": signal.SIGINT, "term": signal.SIGTERM, "kill": signal.SIGKILL}
DEADLINE = float(os.environ.get("VERIF_E3_DEADLINE", "60"))


class InfraError(Exception):
    pass


def pstate(pid):
    try:
        with open(f"/proc/{pid}/stat") as f:
            s = f.read()
        return s[s.rindex(")") + 2]
    except (OSError, ValueError, IndexError):
        return None


def alive(pid):
    st = pstate(pid)
    return st is not None and st not in "ZX"


def reap():
    while True:
        try:
            pid, _ = os.waitpid(-1, os.WNOHANG)
        except ChildProcessError:
            return
        if pid == 0:
            return


def wait_until(pred, what, deadline=None, step=0.01):
    t0 = time.time()
    deadline = DEADLINE if deadline is None else deadline
    while True:
        reap()
        if pred():
            return
        if time.time() - t0 > deadline:
            raise InfraError(f"deadline ({deadline}s) missed waiting for {what}")
        time.sleep(step)


def sig_masks(pid):
    out = {}
    try:
        with open(f"/proc/{pid}/status") as f:
            for line in f:
                k, _, v = line.partition(":")
                if k in ("SigBlk", "SigIgn", "SigPnd", "ShdPnd", "SigCgt"):
                    out[k] = int(v.strip(), 16)
    except OSError:
        return None
    return out


def bit(sig):
    return 1 << (int(sig) - 1)


class Chan:
    def __init__(self, sock):
        self.sock = sock
        self.buf = b""
        self.eof = False

    def recv(self, deadline=None, what="reply"):
        t0 = time.time()
        deadline = DEADLINE if deadline is None else deadline
        while b"\n" not in self.buf:
            left = deadline - (time.time() - t0)
            if left <= 0:
                raise InfraError(f"deadline ({deadline}s) missed waiting for {what}")
            r, _, _ = select.select([self.sock], [], [], min(left, 0.25))
            reap()
            if r:
                try:
                    d = self.sock.recv(65536)
                except ConnectionResetError:
                    d = b""
                if not d:
                    self.eof = True
                    return None
                self.buf += d
        line, _, self.buf = self.buf.partition(b"\n")
        return json.loads(line)

    def send(self, obj):
        self.sock.sendall(json.dumps(obj).encode() + b"\n")

    def wait_eof(self, what):
        while not self.eof:
            if self.recv(what=what) is None:
                break


class Coordinator:
    def __init__(self, scen):
        self.scen = scen
        self.tmp = tempfile.mkdtemp(prefix="tt-", dir=scen.get("tmpdir") or "/tmp")
        self.sockpath = os.path.join(self.tmp, "s")
        self.errpath = os.path.join(self.tmp, "stderr")
        self.lsock = socket.socket(socket.AF_UNIX, socket.SOCK_STREAM)
        self.lsock.bind(self.sockpath)
        self.lsock.listen(64)
        self.chans = {}          # member id -> Chan
        self.pids = {}           # member id -> pid
        self.parent = {}
        self.dead = set()
        self.extra_pids = {}     # executor workers: pid -> owning member id
        self.trackers = []       # incarnation index -> {"pid":, "inode":}
        self.files = {}          # file id -> path
        self.hello = {}
        self.rootproc = None
        self.obs = []
        self.err_off = 0
        self.pre = {}            # pid -> names that existed before the member did (stale leftovers of a reused pid)

    # ---------------------------------------------------------------- plumbing
    def accept(self, mid):
        def ready():
            r, _, _ = select.select([self.lsock], [], [], 0)
            return bool(r)
        while mid not in self.chans:
            if mid in self.pids and not alive(self.pids[mid]):
                # the child ended before it connected: an observation
                self.dead.add(mid)
                return {"hello": mid, "pid": self.pids[mid], "ppid": None, "trk": [None, None], "mp_main": None,
                        "died_at_startup": True}
            wait_until(lambda: ready() or (mid in self.pids and not alive(self.pids[mid])), f"member {mid} to connect")
            if not ready():
                continue
            s, _ = self.lsock.accept()
            ch = Chan(s)
            h = ch.recv(what="hello")
            if h is None:
                continue
            self.chans[h["hello"]] = ch
            self.pids[h["hello"]] = h["pid"]
            self.hello[h["hello"]] = h
        return self.hello[mid]

    def start_root(self):
        env = dict(os.environ)
        env["PYTHONPATH"] = ROOT + (os.pathsep + env["PYTHONPATH"] if env.get("PYTHONPATH") else "")
        if os.environ.get("VERIF_REPO"):
            env["PYTHONPATH"] = os.environ["VERIF_REPO"] + os.pathsep + env["PYTHONPATH"]
        env.pop("PYTHONWARNINGS", None)
        # configuration of the scenario: warnings turned into errors in the root (`-W error`: forwarded to the
        # trackers the root launches through _args_from_interpreter_flags) or in the whole tree (environment)
        warn = (self.scen.get("cfg") or {}).get("warn")
        flags = []
        if warn == "flag":
            flags = ["-W", "error"]
        elif warn == "env":
            env["PYTHONWARNINGS"] = "error"
        elif warn == "env-user":
            env["PYTHONWARNINGS"] = "error::UserWarning"
        elif warn:
            raise InfraError(f"unknown warnings configuration {warn!r}")
        err = open(self.errpath, "wb")
        self.rootproc = subprocess.Popen(
            [sys.executable] + flags + ["-m", "harness.realproc.tt_root", self.sockpath, "0"],
            cwd=ROOT, env=env, stdin=subprocess.DEVNULL, stdout=err, stderr=err)
        err.close()
        self.parent[0] = None
        self.pids[0] = self.rootproc.pid
        self.first_sight(self.rootproc.pid)
        return self.accept(0)

    def call(self, mid, cmd, deadline=None):
        ch = self.chans[mid]
        try:
            ch.send(cmd)
            rep = ch.recv(deadline=deadline, what=f"reply of member {mid} to {cmd.get('cmd')}")
        except (BrokenPipeError, ConnectionResetError):
            rep = None
        if rep is None:
            # the member ended while serving the request: an observation, not an infrastructure problem
            self.member_dead(mid)
            return {"ok": False, "exc": "MemberDied", "msg": f"member {mid} ended while serving {cmd.get('cmd')}",
                    "warnings": [], "trk": [None, None]}
        self.note_launched(rep)
        return rep

    def note_launched(self, rep):
        """tracker processes the member launched while serving the request: numbered in launch order"""
        for pid in (rep or {}).get("launched") or []:
            self.tracker_index(pid)

    # ---------------------------------------------------------------- observers
    def tracker_index(self, pid):
        """incarnation number of a tracker pid (order of first appearance)"""
        if pid is None:
            return None
        for i, t in enumerate(self.trackers):
            if t["pid"] == pid:
                return i
        t = {"pid": pid, "inode": None, "rfd": None}
        self.trackers.append(t)
        self.tracker_pipe(t)
        return len(self.trackers) - 1

    def tracker_pipe(self, t):
        """inode of the pipe the tracker reads from (taken from its command line: `main(<fd>, ...)`)"""
        if t["inode"] is not None:
            return t["inode"]

        def look():
            try:
                with open(f"/proc/{t['pid']}/cmdline", "rb") as f:
                    cl = f.read().decode("utf-8", "replace")
                m = re.search(r"main\((\d+)", cl)
                if not m or "resource_tracker" not in cl:
                    return pstate(t["pid"]) in (None, "Z", "X")
                t["rfd"] = int(m.group(1))
                link = os.readlink(f"/proc/{t['pid']}/fd/{t['rfd']}")
                m2 = re.match(r"pipe:\[(\d+)\]", link)
                if m2:
                    t["inode"] = int(m2.group(1))
                    return True
            except OSError:
                return pstate(t["pid"]) in (None, "Z", "X")
            return False
        wait_until(look, f"tracker {t['pid']} to exec", deadline=30)
        return t["inode"]

    def names_of_pid(self, pid):
        """semaphores created by `pid` in this scenario: /dev/shm/sem.loky-<pid>-*, minus what was already there
        when the pid was first seen (pids are reused; other runs may have leaked names under the same number)"""
        now = {os.path.basename(p) for p in glob.glob(f"/dev/shm/sem.loky-{pid}-*")}
        if pid not in self.pre:
            self.pre[pid] = set()
        return sorted(now - self.pre[pid])

    def first_sight(self, pid):
        if pid not in self.pre:
            self.pre[pid] = {os.path.basename(p) for p in glob.glob(f"/dev/shm/sem.loky-{pid}-*")}

    def all_member_pids(self):
        d = {pid: mid for mid, pid in self.pids.items()}
        for pid, mid in self.extra_pids.items():
            d.setdefault(pid, f"w{pid}")
        return d

    def writers_of(self, t):
        ino = t["inode"]
        if ino is None:
            return None
        want = f"pipe:[{ino}]"
        ws = []
        for pid, mid in self.all_member_pids().items():
            if not alive(pid):
                continue
            try:
                for fd in os.listdir(f"/proc/{pid}/fd"):
                    try:
                        if os.readlink(f"/proc/{pid}/fd/{fd}") == want:
                            ws.append(mid)
                            break
                    except OSError:
                        pass
            except OSError:
                pass
        return sorted(ws, key=str)

    def tracker_idle(self, t):
        """the tracker sleeps in read(2) on its pipe: every request written so far has been processed"""
        if not alive(t["pid"]):
            return True
        try:
            with open(f"/proc/{t['pid']}/syscall") as f:
                parts = f.read().split()
            return pstate(t["pid"]) == "S" and len(parts) > 1 and parts[0] == "0" and int(parts[1], 16) == t["rfd"]
        except (OSError, ValueError):
            return not alive(t["pid"])

    def settle(self):
        """wait until every tracker has drained its pipe, and until every tracker whose pipe has no writer
        left has exited (EOF -> sweep -> exit)"""
        for t in self.trackers:
            if t["pid"] is not None and alive(t["pid"]) and t["inode"] is not None and self.writers_of(t):
                wait_until(lambda: self.tracker_idle(t), f"tracker {t['pid']} to drain its pipe")
        for t in self.trackers:
            if t["pid"] is not None and alive(t["pid"]) and t["inode"] is not None and not self.writers_of(t):
                wait_until(lambda: not alive(t["pid"]),
                           f"tracker {t['pid']} to finish after its last writer closed the pipe")

    def trackers_in_tree(self):
        """pids of every live loky resource tracker process below this coordinator (it is the sub-reaper of the
        tree: trackers are children of members, or re-parented here once their launcher is gone)"""
        ppid, cmd = {}, {}
        for d in os.listdir("/proc"):
            if not d.isdigit():
                continue
            try:
                with open(f"/proc/{d}/stat") as f:
                    st = f.read()
                rest = st[st.rindex(")") + 2:].split()
                if rest[0] in "ZX":
                    continue
                ppid[int(d)] = int(rest[1])
            except (OSError, ValueError, IndexError):
                pass
        me = os.getpid()
        out = []
        for pid in ppid:
            q, hops = pid, 0
            while q in ppid and q != me and hops < 64:
                q, hops = ppid[q], hops + 1
            if q != me or pid == me:
                continue
            try:
                with open(f"/proc/{pid}/cmdline", "rb") as f:
                    cl = f.read()
            except OSError:
                continue
            if b"loky.backend.resource_tracker import main" in cl:
                out.append(pid)
        return sorted(out)

    def snapshot(self):
        reap()
        for pid in self.trackers_in_tree():
            self.tracker_index(pid)        # a tracker nobody told us about is an incarnation all the same
        snap = {"alive": [], "writers": {}, "files": [], "sems": {}, "ntrk": len(self.trackers)}
        for i, t in enumerate(self.trackers):
            if t["pid"] is not None and alive(t["pid"]):
                snap["alive"].append(i)
                snap["writers"][str(i)] = self.writers_of(t)
        snap["ntrk"] = len(self.trackers)
        for fid, path in sorted(self.files.items()):
            if os.path.exists(path):
                snap["files"].append(fid)
        for pid, mid in sorted(self.all_member_pids().items()):
            names = self.names_of_pid(pid)
            if names:
                snap["sems"][str(mid)] = names
        return snap

    def wait_tracker_booted(self, t):
        """positive signal that the tracker is past its signal set-up (or dead): INT/TERM not blocked any more"""
        def booted():
            if not alive(t["pid"]):
                return True
            m = sig_masks(t["pid"])
            if m is None:
                return True
            blocked = m["SigBlk"] & (bit(signal.SIGINT) | bit(signal.SIGTERM))
            pending = (m["SigPnd"] | m["ShdPnd"]) & (bit(signal.SIGINT) | bit(signal.SIGTERM))
            with open(f"/proc/{t['pid']}/cmdline", "rb") as f:
                execd = b"resource_tracker" in f.read()
            return execd and not blocked and not pending
        wait_until(booted, f"tracker {t['pid']} to finish its start-up", deadline=30)

    def new_stderr(self):
        try:
            with open(self.errpath, "rb") as f:
                f.seek(self.err_off)
                d = f.read()
            self.err_off += len(d)
            return d.decode("utf-8", "replace")
        except OSError:
            return ""

    # ---------------------------------------------------------------- steps
    def path_of(self, fid):
        if fid not in self.files:
            self.files[fid] = os.path.join(self.tmp, f"tracked-{fid}")
        return self.files[fid]

    def member_dead(self, mid):
        pid = self.pids[mid]
        wait_until(lambda: not alive(pid), f"member {mid} (pid {pid}) to die")
        self.dead.add(mid)
        try:
            if mid in self.chans:
                self.chans[mid].sock.close()
        except OSError:
            pass

    def relaunched_at_exit(self):
        """a finalizer running while a member ends may find its tracker dead and relaunch it: the warning goes
        to stderr; the incarnations launched that way are the tracker processes of the tree nobody reported"""
        n = self.new_stderr().count("died unexpectedly, relaunching")
        known = {t["pid"] for t in self.trackers}
        fresh = [pid for pid in self.trackers_in_tree() if pid not in known]
        for i in range(n):
            if i < len(fresh):
                self.tracker_index(fresh[i])
            else:
                self.trackers.append({"pid": None, "inode": None, "rfd": None})
        return n

    def step(self, st):
        kind = st[0]
        o = {"step": st}
        actor = st[1] if kind not in ("start", "end", "sig", "killorphans", "waitworkers") and len(st) > 1 else None
        if actor is not None and (actor not in self.pids or actor in self.dead or
                                  (kind != "exit" and kind != "killworker" and actor not in self.chans)):
            # an earlier step already went wrong (failed spawn, member that ended by itself): nothing to do here
            o["skipped"] = f"member {actor} is not available"
            self.settle()
            o.update(self.snapshot())
            return o
        if kind == "start":
            h = self.start_root()
            self.note_launched(h)
            o["pid"] = h["pid"]
            o["trk"] = self.tracker_index(h["trk"][0])
        elif kind == "spawn":
            _, p, c, method, passing = st[:5]
            cmd = {"cmd": "spawn", "child": c, "method": method, "pass": passing}
            imp = st[5] if len(st) > 5 else None
            if imp:
                cmd["import"] = ({"kind": "file", "path": self.path_of(imp[1])} if imp[0] == "file"
                                 else {"kind": "lock", "o": imp[1]})
            rep = self.call(p, cmd)
            o["act"] = rep
            o["trk"] = self.tracker_index(rep["trk"][0])
            if rep.get("ok"):
                self.pids[c] = rep["pid"]
                self.first_sight(rep["pid"])
                h = self.accept(c)
                self.parent[c] = p
                hi = h.get("import")
                if imp and not h.get("died_at_startup"):
                    if not hi:
                        raise InfraError(f"step {st}: the child did not re-import the scenario's main module")
                    # trackers in launch order: what the child launched while importing, then the rest
                    for pid in hi.get("launched") or []:
                        self.tracker_index(pid)
                    o["import"] = {"ok": hi.get("ok"), "exc": hi.get("exc"), "msg": hi.get("msg"),
                                   "trk_before": self.tracker_index(hi["trk_before"][0]),
                                   "trk": self.tracker_index(hi["trk"][0]),
                                   "launched": len(hi.get("launched") or []),
                                   "warnings": hi.get("warnings", []), "names": hi.get("names", [])}
                self.note_launched(h)
                o["child_trk"] = self.tracker_index(h["trk"][0])
                o["child_fd_same"] = h["trk"][1] == rep["trk"][1]
                o["child_ppid_ok"] = h["ppid"] == self.pids[p]
                o["child_mp_main"] = h["mp_main"]
                o["child_died_at_startup"] = bool(h.get("died_at_startup"))
        elif kind in ("op", "opsig"):
            p, op, fid = st[1], st[2], st[3]
            cmd = {"cmd": "op", "op": op, "path": self.path_of(fid)}
            if kind == "opsig":
                cmd["sig"] = st[4]
            if st[-1] in ("thread", "pool") and len(st) == (6 if kind == "opsig" else 5):
                cmd["thread"] = st[-1]
            rep = self.call(p, cmd)
            o["act"] = rep
            o["trk"] = self.tracker_index(rep["trk"][0])
            o["launched"] = len(rep.get("launched") or [])
            if kind == "opsig" and o["trk"] is not None:
                t = self.trackers[o["trk"]]
                if st[4] == "kill":
                    wait_until(lambda: not alive(t["pid"]), f"tracker {t['pid']} to die from SIGKILL")
                else:
                    self.wait_tracker_booted(t)
                    time.sleep(0.2)
        elif kind in ("pop", "pnew"):
            p = st[1]
            slow = {"spawn": 0.25, "probe": 0.15, "stagger": 0.35} if st[4] else None
            if kind == "pop":
                cmd = {"cmd": "pop", "op": st[2], "paths": [self.path_of(f) for f in st[3]], "slow": slow}
            else:
                cmd = {"cmd": "pnew", "os": st[2], "kind": st[3], "slow": slow}
            rep = self.call(p, cmd, deadline=3 * DEADLINE)
            o["act"] = rep
            o["trk"] = self.tracker_index(rep["trk"][0])
            o["launched"] = len(rep.get("launched") or [])
            o["thr_trks"] = [self.tracker_index(t[0]) if t else None for t in rep.get("thr_trks") or []]
            if rep.get("hung"):
                raise InfraError(f"step {st}: threads {rep['hung']} of member {p} did not finish their operation")
        elif kind in ("killfin", "killexit"):
            p = st[1]
            cmd = {"cmd": kind, "k": st[3] if kind == "killfin" else st[2]}
            if kind == "killfin":
                cmd["o"] = st[2]
            self.new_stderr()
            self.chans[p].send(cmd)
            ack = self.chans[p].recv(what=f"ack of {kind}")
            self.note_launched(ack)
            o["act"] = {"ok": True, "names": (ack or {}).get("names", []), "warnings": []}
            self.member_dead(p)
            o["exit_warns"] = self.relaunched_at_exit()
        elif kind == "info":
            rep = self.call(st[1], {"cmd": "info"})
            o["act"] = rep
            o["trk"] = self.tracker_index(rep["trk"][0])
        elif kind == "mkfile":
            rep = self.call(st[1], {"cmd": "mkfile", "path": self.path_of(st[2])})
            o["act"] = rep
        elif kind == "sig":
            _, k, sg = st
            if k < len(self.trackers):
                t = self.trackers[k]
                was = alive(t["pid"])
                o["was_alive"] = was
                if was:
                    os.kill(t["pid"], SIGS[sg])
                    if sg == "kill":
                        wait_until(lambda: not alive(t["pid"]), f"tracker {t['pid']} to die from SIGKILL")
                    else:
                        self.wait_tracker_booted(t)
                        time.sleep(0.2)
            else:
                o["no_such_tracker"] = True
        elif kind == "exit":
            _, p, how = st
            self.new_stderr()
            if how in ("normal", "exc", "osexit"):
                rep = self.call(p, {"cmd": "exit", "how": how})
                o["act"] = rep
            else:
                os.kill(self.pids[p], SIGS[how])
            self.member_dead(p)
            # a finalizer running at exit may find its tracker dead and relaunch it: the warning goes to stderr
            o["exit_warns"] = self.relaunched_at_exit()
        elif kind in ("new", "del"):
            _, p, ob = st[:3]
            cmd = {"cmd": kind, "o": ob}
            if kind == "new":
                cmd["kind"] = st[3]
            rep = self.call(p, cmd)
            o["act"] = rep
            o["trk"] = self.tracker_index(rep["trk"][0])
        elif kind == "killnew":
            p = st[1]
            self.chans[p].send({"cmd": "killnew"})
            self.chans[p].recv(what="ack of killnew")
            self.member_dead(p)
        elif kind in ("xnew", "xrun", "xsleep", "xcrash", "xwait", "xshutdown", "xdrop", "xdispatch"):
            p, x = st[1], st[2]
            cmd = {"cmd": kind, "x": x}
            cmd.update(st[3] if len(st) > 3 else {})
            rep = self.call(p, cmd, deadline=2 * DEADLINE)
            o["act"] = rep
            o["trk"] = self.tracker_index(rep["trk"][0])
            ids = (st[3] if len(st) > 3 else {}).get("ids") or []
            known = {pid: mid for mid, pid in self.pids.items()}
            fresh = [w for w in rep.get("workers", []) if w not in known]
            free = [i for i in ids if i not in self.pids]
            for wpid in fresh:
                self.first_sight(wpid)
            for wpid, mid in zip(fresh, free):
                self.pids[mid] = wpid
                self.parent[mid] = p
            for wpid in fresh[len(free):]:
                self.extra_pids[wpid] = p
            if kind == "xwait" and rep.get("raising"):
                self.member_dead(p)
        elif kind == "killworker":
            _, p, x, wid, sg = st
            if wid not in self.pids:
                raise InfraError(f"worker {wid} of executor {x} is unknown")
            victim = self.pids[wid]
            os.kill(victim, SIGS[sg])
            wait_until(lambda: not alive(victim), f"worker {victim} to die")
            o["killed"] = victim
        elif kind == "killorphans":
            # the parent is gone: end what is left of its tree (orphaned workers), deepest first is not needed
            orphans = sorted(set(self.extra_pids) | {pid for mid, pid in self.pids.items() if mid not in self.chans})
            for wpid in orphans:
                if alive(wpid):
                    try:
                        os.kill(wpid, signal.SIGKILL)
                    except ProcessLookupError:
                        pass
            for wpid in orphans:
                wait_until(lambda w=wpid: not alive(w), f"orphan worker {wpid} to die")
        elif kind == "waitworkers":
            orphans = sorted(set(self.extra_pids) | {pid for mid, pid in self.pids.items() if mid not in self.chans})
            for wpid in orphans:
                wait_until(lambda w=wpid: not alive(w), f"worker {wpid} to exit by itself", deadline=2 * DEADLINE)
        elif kind == "end":
            pass
        else:
            raise InfraError(f"unknown step {st}")
        if isinstance(o.get("act"), dict):
            o.setdefault("launched", len(o["act"].get("launched") or []))
        if kind == "end":
            for mid, pid in self.pids.items():
                if alive(pid):
                    raise InfraError(f"scenario ended with member {mid} still alive")
        self.settle()
        if kind == "end":
            for t in self.trackers:
                if t["pid"] is not None:
                    wait_until(lambda t=t: not alive(t["pid"]), f"tracker {t['pid']} to exit at the end of the tree")
            try:
                with open(self.errpath, "rb") as f:
                    o["stderr"] = f.read().decode("utf-8", "replace")[-20000:]
            except OSError:
                o["stderr"] = ""
        o.update(self.snapshot())
        return o

    def run(self):
        for st in self.scen["steps"]:
            self.obs.append(self.step(st))
        return self.obs

    # ---------------------------------------------------------------- cleanup
    def cleanup(self):
        me = os.getpid()
        for _ in range(50):
            reap()
            kids = []
            for d in os.listdir("/proc"):
                if d.isdigit():
                    try:
                        with open(f"/proc/{d}/stat") as f:
                            s = f.read()
                        rest = s[s.rindex(")") + 2:].split()
                        if int(rest[1]) == me and rest[0] not in "ZX":
                            kids.append(int(d))
                    except (OSError, ValueError):
                        pass
            if not kids:
                break
            for k in kids:
                try:
                    os.kill(k, signal.SIGKILL)
                except ProcessLookupError:
                    pass
            time.sleep(0.05)
        reap()
        left = []
        for pid in list(self.all_member_pids()):
            for name in self.names_of_pid(pid):
                left.append(name)
                try:
                    os.unlink(os.path.join("/dev/shm", name))
                except OSError:
                    pass
        shutil.rmtree(self.tmp, ignore_errors=True)
        return left


def main():
    try:
        libc = ctypes.CDLL(None, use_errno=True)
        libc.prctl(36, 1, 0, 0, 0)            # PR_SET_CHILD_SUBREAPER
    except Exception:
        pass
    scen = json.load(sys.stdin)
    co = Coordinator(scen)
    out = {}
    rc = 0
    try:
        out["obs"] = co.run()
    except InfraError as e:
        out["infra"] = str(e)
        out["obs"] = co.obs
        try:
            with open(co.errpath, "rb") as f:
                out["stderr_tail"] = f.read().decode("utf-8", "replace")[-3000:]
        except OSError:
            pass
        rc = 3
    finally:
        out["swept_by_runner"] = co.cleanup()
    sys.stdout.write(json.dumps(out))
    sys.stdout.flush()
    sys.exit(rc)


if __name__ == "__main__":
    main()
