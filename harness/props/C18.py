"""C18 — fresh, initialised interpreter with only intended inheritance: launch (E2/E3, M8) + initializer on every spawn path (E1, M1)"""
from ..composite import Composite
from ..e1 import E1Part
from .C18_spawn import PART as SPAWN

E1 = E1Part("C18", [("init", 4), ("leak", 1)], ["C18"], ["LokyModel.Props.C18"], quick=1000, thorough=30000)
PROP = Composite("C18", [SPAWN, E1])
