"""C19 — nesting depth bounded exactly at LOKY_MAX_DEPTH: depth guard (E2, M9) + depth shipped on every spawn path (E1)"""
from ..composite import Composite
from ..e1 import E1Part
from .C19_depth import PART as DEPTH

E1 = E1Part("C19", [("timeouts", 2), ("leak", 1), ("mixed", 1), ("reuse", 2)], ["C19"], [], quick=800, thorough=20000,
            lockstep_on=False)
PROP = Composite("C19", [DEPTH, E1])
