"""C20, real-process part — executor lifecycles leak no parent-side resources (E3, ledger model).

Generated sequences of executor lifecycles (plain / reusable / nested; clean, context manager, forced,
broken by a crashing task or by an external SIGKILL, idle time-out of every worker, released without
shutdown, shutdown(wait=False), never used, resized up / down) run in a fresh process by
`harness/realproc/c20_runner.py`, once and k times.

The caller of a lifecycle may KEEP the futures it got (results, task exceptions, PicklingErrors of arguments or
results that cannot be pickled, the errors of a killed or broken pool) for the rest of the process, over all
repetitions (`"futs"`, `"keep"`), and tasks whose arguments are far larger than a pipe buffer may be queued
behind busy workers when the pool is torn down (`"big"`: the feeder thread is then blocked in the middle of
`send_bytes`), by a SIGKILLed worker, `shutdown(kill_workers=True)`, `get_reusable_executor(kill_workers=True)`
(`rekill`) or a graceful shutdown.

* oracle (from the statement): after the sequence has completed — every executor shut down or broken and
  replaced, and released — open descriptors, live threads, child processes (zombies included) and named
  semaphores are the same after k repetitions as after one; no child process and no thread of a completed
  lifecycle is left at all;
* correspondence: the counts relative to the warm baseline at the points the Lean ledger predicts (after
  the constructor, with all workers up, after the mid action, after shutdown + release) equal the driver's
  `ledger` lines, the lingering entries after a broken pool included.
"""
import json
import os
import subprocess
import sys
from concurrent.futures import ThreadPoolExecutor

from .. import common as C
from ..composite import Composite

PAR = int(os.environ.get("VERIF_E3_PAR", "8"))
KEYS = ("fds", "threads", "children", "sems")


def run_sequence(case, timeout=420):
    env = dict(os.environ)
    env["PYTHONPATH"] = C.ROOT + (os.pathsep + env["PYTHONPATH"] if env.get("PYTHONPATH") else "")
    env.pop("PYTHONWARNINGS", None)
    try:
        r = subprocess.run([sys.executable, "-W", "ignore", "-m", "harness.realproc.c20_runner"],
                           input=json.dumps(case), capture_output=True, text=True, timeout=timeout,
                           cwd=C.ROOT, env=env)
    except subprocess.TimeoutExpired:
        raise C.Infra(f"C20 runner exceeded {timeout}s on {json.dumps(case)[:300]}")
    txt = r.stdout
    if "{" not in txt:
        raise C.Infra(f"C20 runner failed rc={r.returncode}: {r.stderr[-800:]}")
    try:
        out = json.loads(txt[txt.index("{"):txt.rindex("}") + 1])
    except ValueError:
        raise C.Infra(f"C20 runner: unreadable output rc={r.returncode}: {txt[-300:]} {r.stderr[-300:]}")
    if "infra" in out or r.returncode == 3:
        raise C.Infra(f"C20 scenario: {out.get('infra')} | {json.dumps(case)[:300]} | {r.stderr[-300:]}")
    if r.returncode != 0:
        raise C.Infra(f"C20 runner rc={r.returncode}: {r.stderr[-600:]}")
    return out


def slim(c):
    return [c[k] for k in KEYS]


class Part:
    id = "C20"
    name = "real"
    engine = "E3"
    lean_modules = ["LokyModel.Props.C20Ledger"]
    driver = "trackertree_driver"
    budget = {"quick": 170, "thorough": 1700}
    n_cases = {"quick": 14, "thorough": 110}
    search_cases = {"quick": 6, "thorough": 20}
    reps = {"quick": 5, "thorough": 10}
    rule = ("sequences of 1-4 executor lifecycles (clean / context manager / nested task / kill_workers with busy "
            "workers / broken by os._exit task or external SIGKILL / idle time-out of all workers / released without "
            "shutdown / shutdown(wait=False) / never used / reusable resized up or down / reusable replaced with "
            "kill_workers=True while busy; 1-3 workers; 0-3 extra tasks per lifecycle ending in a result, a task exception, "
            "a PicklingError of unsendable arguments or of an unpicklable result, whose futures -- with those of the tasks "
            "killed with the pool -- the caller keeps until the end of the process or drops; 0-2 tasks with 4 MiB of "
            "arguments queued behind busy workers, the feeder thread blocked mid-send, when the pool is killed, broken, "
            "replaced or gracefully shut down), each sequence "
            "run in a fresh process once and k times (k=5 quick, 10 thorough) after a warm-up that starts the tracker "
            "processes; counts of /proc/self/fd, threading.enumerate(), children incl. zombies, /dev/shm/sem.loky-<pid>-*. "
            "Compared with the Lean ledger at ctor / started / mid / end of every lifecycle of the first run. "
            "Non-trivial = a sequence with at least one lifecycle other than a clean shutdown; distinct by sequence.")
    assumptions = [
        "CPython closes a Connection / runs a SemLock finalizer as soon as the object is unreferenced (reference counting); "
        "counts are taken after gc.collect()",
        "the QueueFeederThread of a closed queue ends on its own (it is not joined by loky in the creating process); counts "
        "are taken after it has ended (positive signal, deadline = infrastructure error)",
        "the two resource-tracker processes (loky's and multiprocessing's) are started during the warm-up and excluded",
        "only parent-side resources are counted; what happens inside workers (nested executors) is out of scope",
    ]
    _tier = "quick"

    # ------------------------------------------------------------------ cases
    def corpus(self):
        k = self.reps[self._tier]
        return [
            {"k": k, "seq": [{"kind": "clean", "n": 2}, {"kind": "kill", "n": 2, "busy": 2}, {"kind": "unused", "n": 2}]},
            {"k": k, "seq": [{"kind": "broken", "n": 2, "how": "osexit"}, {"kind": "idle", "n": 2},
                             {"kind": "dropped", "n": 1}]},
            {"k": k, "seq": [{"kind": "resized", "n": 1, "m": 3}, {"kind": "broken", "n": 3, "how": "sigkill"}]},
            # the caller keeps every kind of future of completed lifecycles
            {"k": k, "seq": [{"kind": "clean", "n": 1, "futs": ["ok", "exc", "badarg", "badres"], "keep": True},
                             {"kind": "kill", "n": 2, "busy": 2, "futs": ["badarg"], "keep": True}]},
            {"k": k, "seq": [{"kind": "broken", "n": 2, "how": "sigkill", "futs": ["badarg", "exc"], "keep": True},
                             {"kind": "dropped", "n": 1, "futs": ["badarg", "badres"], "keep": True},
                             {"kind": "idle", "n": 1, "futs": ["badarg", "ok"], "keep": True}]},
            # oversized tasks behind busy workers, the pool torn down by each route (and gracefully, for contrast)
            {"k": k, "seq": [{"kind": "broken", "n": 1, "how": "sigkill", "big": 1},
                             {"kind": "kill", "n": 1, "busy": 1, "big": 1, "keep": True}]},
            # workers with live descendants, killed by a forced shutdown and by the termination of a broken pool
            {"k": k, "seq": [{"kind": "kill", "n": 2, "desc": True}, {"kind": "broken", "n": 2, "how": "sigkill", "desc": True}]},
            {"k": k, "seq": [{"kind": "rekill", "n": 1, "big": 1}, {"kind": "clean", "n": 1, "big": 1, "keep": True},
                             {"kind": "rekill", "n": 2, "big": 2, "futs": ["badarg"], "keep": True}]},
        ]

    def gen_life(self, rng):
        kind = rng.choice(["clean", "clean", "kill", "broken", "broken", "idle", "dropped", "dropped", "unused", "resized",
                           "rekill"])
        n = rng.choice([1, 2, 2, 3])
        spec = {"kind": kind, "n": n}
        # what the caller submits besides and keeps afterwards
        if kind != "unused" and rng.random() < 0.6:
            spec["futs"] = [rng.choice(["ok", "exc", "badarg", "badarg", "badres"]) for _ in range(rng.choice([1, 1, 2, 3]))]
        if kind != "unused" and rng.random() < 0.6:
            spec["keep"] = True
        if kind == "clean":
            v = rng.choice(["plain", "ctx", "nested"])
            if v != "plain":
                spec[v] = True
        elif kind == "kill":
            spec["busy"] = rng.choice([0, n])
            if rng.random() < 0.35:
                spec["desc"] = True          # the workers have live descendants when they are killed
        elif kind == "broken":
            spec["how"] = rng.choice(["osexit", "sigkill"])
            if spec["how"] == "sigkill" and rng.random() < 0.35:
                spec["desc"] = True
        # oversized tasks queued behind busy workers when the pool is torn down
        if (kind in ("kill", "rekill", "clean") or spec.get("how") == "sigkill") and not spec.get("ctx") \
                and not spec.get("nested") and rng.random() < 0.4:
            spec["big"] = rng.choice([1, 1, 2])
            if kind == "kill":
                spec["busy"] = n
        elif kind == "dropped":
            spec["nowait"] = rng.random() < 0.5
        elif kind == "resized":
            spec["m"] = rng.choice([m for m in (1, 2, 3, 4) if m != n])
        return spec

    def gen(self, rng, i):
        return {"k": self.reps[self._tier], "seq": [self.gen_life(rng) for _ in range(rng.choice([1, 2, 2, 3, 4]))]}

    # ------------------------------------------------------------------ model
    @staticmethod
    def ledger_line(spec, l0):
        kind = spec["kind"]
        m = spec.get("m", 0)
        if kind == "broken":
            m = 1
        if kind == "rekill":
            kind = "kill"          # same ledger operations: the replaced executor is shut down with kill_workers=True
        return f"ledger {kind} {spec.get('n', 1)} {m} {l0}"

    def run_model(self, cases, corr):
        drv = C.Driver(self.driver)
        try:
            drv.ensure()
        except C.Infra as e:
            corr.model_error = str(e)
            return None
        res = [[] for _ in cases]
        linger = [0] * len(cases)
        for rnd in range(max(len(c["seq"]) for c in cases)):
            idx = [i for i, c in enumerate(cases) if len(c["seq"]) > rnd]
            outs = drv.run([self.ledger_line(cases[i]["seq"][rnd], linger[i]) for i in idx])
            for i, o in zip(idx, outs):
                res[i].append(o)
                linger[i] = int(o.rsplit("linger=", 1)[1]) if "linger=" in o else 0
        # the prediction for the end of the whole sequence: base + lingering
        return [self.canon_model(c, r, linger[i]) for i, (c, r) in enumerate(zip(cases, res))]

    @staticmethod
    def points(spec):
        k = spec["kind"]
        if k == "unused":
            return ["ctor", "end"]
        if k == "resized":
            return ["started", "mid", "end"]
        if k == "rekill":
            return ["started", "end"]
        if k == "idle":
            return ["ctor", "mid", "end"]
        if k == "broken":
            return ["ctor", "started", "end"]
        return ["ctor", "started", "end"]

    def canon_model(self, case, lines, linger):
        out = []
        for spec, l in zip(case["seq"], lines):
            kv = dict(p.split("=") for p in l.split(" ") if "=" in p)
            out.append(" ".join(f"{pt}={kv.get(pt)}" for pt in self.points(spec)))
        out.append(f"after_1={linger}/0/0/{linger} after_k={linger}/0/0/{linger}")
        return out

    def canon_real(self, case, raw):
        out = []
        for spec, o in zip(case["seq"], raw["first"]):
            out.append(" ".join(f"{pt}=" + ("/".join(str(x) for x in o[pt]) if pt in o else "None")
                                for pt in self.points(spec)))
        b = raw["baseline"]
        d1 = [raw["after_1"][k] - b[k] for k in KEYS]
        dk = [raw["after_k"][k] - b[k] for k in KEYS]
        out.append("after_1=" + "/".join(map(str, d1)) + " after_k=" + "/".join(map(str, dk)))
        return out

    # ------------------------------------------------------------------ oracle (from the statement)
    def oracle(self, case, raw):
        b, c1, ck = raw["baseline"], raw["after_1"], raw["after_k"]
        for k in KEYS:
            if ck[k] != c1[k]:
                extra = self._diff(c1, ck, k)
                return (f"{k}: {c1[k]} after running the sequence once, {ck[k]} after running it {case['k']} times "
                        f"(baseline {b[k]}){extra}")
        # every lifecycle is itself a completed history: no child process (zombie or not) and no thread of an
        # executor that has completed shutdown and been released is left
        for i, (spec, o) in enumerate(zip(case["seq"], raw.get("first", []))):
            end = o.get("end")
            if end is not None and (end[1] != 0 or end[2] != 0):
                return (f"lifecycle {i} {spec}: after shutdown and release {end[2]} child process(es) and {end[1]} "
                        f"thread(s) more than before the sequence are left")
        for k in ("children", "threads"):
            if c1[k] != b[k]:
                return (f"{k}: {b[k]} before, {c1[k]} after the completed sequence "
                        f"({c1['detail'][k] if 'detail' in c1 else ''}): a completed lifecycle left a "
                        f"{'child process' if k == 'children' else 'thread'} behind")
        if raw.get("trackers") != raw.get("trackers_end"):
            return f"the tracker processes changed during the run: {raw.get('trackers')} -> {raw.get('trackers_end')}"
        return None

    @staticmethod
    def _diff(c1, ck, k):
        try:
            d1, dk = c1["detail"][k], ck["detail"][k]
            if isinstance(dk, dict):
                new = {fd: v for fd, v in dk.items() if fd not in d1}
                return f"; new: {dict(list(new.items())[:6])}"
            return f"; new: {[x for x in dk if x not in d1][:6]}"
        except Exception:
            return ""

    def nontrivial(self, case, raw):
        return any(s["kind"] != "clean" or s.get("nested") or s.get("keep") or s.get("big") for s in case["seq"])

    def classify(self, case, raw):
        ks = [f"len={len(case['seq'])}"]
        for s in case["seq"]:
            ks.append("life=" + s["kind"] + ("/" + s["how"] if s.get("how") else "") + ("/nested" if s.get("nested") else "")
                      + ("/ctx" if s.get("ctx") else "") + ("/nowait" if s.get("nowait") else "")
                      + ("/busy" if s.get("busy") else ""))
            ks.append(f"workers={s.get('n')}")
            if s.get("keep"):
                ks.append("futures-kept")
                ks += sorted({"kept=" + f for f in s.get("futs", [])})
                if s["kind"] in ("kill", "broken", "rekill"):
                    ks.append("kept=" + s["kind"] + "-pool-errors")
            elif s.get("futs"):
                ks.append("futures-dropped")
            if s.get("big"):
                ks.append("oversized-queued/" + s["kind"] + ("/" + s["how"] if s.get("how") else ""))
        return ks

    def shrink_candidates(self, case):
        seq = case["seq"]
        if len(seq) > 1:
            for i in range(len(seq)):
                yield {"k": case["k"], "seq": seq[:i] + seq[i + 1:]}
        for i, s in enumerate(seq):
            if s.get("n", 1) > 1 and s["kind"] != "resized":
                yield {"k": case["k"], "seq": seq[:i] + [dict(s, n=1, **({"busy": 1} if s.get("busy") else {}))] + seq[i + 1:]}
        for i, s in enumerate(seq):
            for j in range(len(s.get("futs", []))):
                yield {"k": case["k"], "seq": seq[:i] + [dict(s, futs=s["futs"][:j] + s["futs"][j + 1:])] + seq[i + 1:]}
            if s.get("big", 0) > 1:
                yield {"k": case["k"], "seq": seq[:i] + [dict(s, big=1)] + seq[i + 1:]}

    # ------------------------------------------------------------------ engine
    def impl(self, case):
        return run_sequence(case)

    def run_real_many(self, cases):
        with ThreadPoolExecutor(max_workers=max(1, PAR // 2)) as pool:
            futs = [pool.submit(self.impl, c) for c in cases]
            outs, infra = [], None
            for f in futs:
                try:
                    outs.append(f.result())
                except C.Infra as e:
                    infra = infra or e
                    outs.append(None)
        if infra is not None:
            raise infra
        return outs

    def evaluate(self, cases, corr, with_model=True, ctx=None):
        outs = self.run_real_many(cases)
        model = self.run_model(cases, corr) if with_model else None
        known = getattr(ctx, "known", []) if ctx is not None else []
        for i, case in enumerate(cases):
            raw = outs[i]
            corr.evaluations += 1
            for k in self.classify(case, raw):
                corr.count(k)
            if self.nontrivial(case, raw):
                corr.nontrivial(case)
            bad = self.oracle(case, raw)
            real = self.canon_real(case, raw)
            fid = self.attribute(case, raw, bad, known) if bad else None
            if bad and fid:
                corr.known_hits[fid] = corr.known_hits.get(fid, 0) + 1
            elif bad:
                corr.failures.append({"input": case, "impl": real, "what": bad})
            if model is not None and model[i] != real and not fid:
                corr.disagreements.append({"input": case, "model": model[i], "impl": real})
        return outs, model

    def attribute(self, case, raw, bad, known):
        """runs inside the history class of a listed finding are counted there (none is listed for this part)"""
        for f in known:
            if f.get("part") == self.name and f.get("class") and any(s["kind"] == f["class"] for s in case["seq"]):
                return f["id"]
        return None

    def correspondence(self, ctx, corr):
        self._tier = ctx.tier
        corr.rule = self.rule
        cases = list(self.corpus())
        ncorp = len(cases)
        rng = C.rng_for(ctx.seed, self.id, self.name, "gen")
        cases += [self.gen(rng, i) for i in range(self.n_cases[ctx.tier])]
        outs, model = self.evaluate(cases, corr, ctx=ctx)
        corr.extra["corpus_cases"] = ncorp
        corr.extra["lifecycle_sequences"] = len(cases)
        corr.extra["lifecycles_run"] = sum(len(c["seq"]) * c["k"] for c in cases)
        for j in sorted({0, len(cases) - 1}):
            corr.samples.append({"input": cases[j], "impl": self.canon_real(cases[j], outs[j]),
                                 "model": None if model is None else model[j]})
        corr.failures = [self.shrink(f) for f in corr.failures[:2]] + corr.failures[2:]

    def shrink(self, f):
        cur = f
        for _ in range(4):
            for cand in list(self.shrink_candidates(cur["input"]))[:8]:
                try:
                    raw = self.impl(cand)
                except C.Infra:
                    continue
                bad = self.oracle(cand, raw)
                if bad:
                    cur = {"input": cand, "impl": self.canon_real(cand, raw), "what": bad}
                    break
            else:
                break
        return cur

    def search(self, ctx, corr, broken):
        self._tier = ctx.tier
        cands = [d["input"] for d in corr.disagreements[:6]]
        rng = C.rng_for(ctx.seed, self.id, self.name, "search")
        more = [self.gen(rng, i) for i in range(self.search_cases[ctx.tier])]
        c2 = C.Corr()
        self.evaluate(cands + more, c2, with_model=False, ctx=ctx)
        corr.extra["search_cases"] = c2.evaluations
        if c2.failures:
            return self.shrink(c2.failures[0])
        return None

    def replay(self, ctx, data):
        res = []
        for f in data.get("failing", []):
            raw = self.impl(f["input"])
            bad = self.oracle(f["input"], raw)
            res.append({"input": f["input"], "impl": self.canon_real(f["input"], raw), "what": bad})
        return {"fails": any(r["what"] for r in res), "results": res}

    def replay_finding(self, ctx, finding):
        w = finding.get("witness")
        if w is None:
            return {"fails": False}
        raw = self.impl(w)
        bad = self.oracle(w, raw)
        return {"fails": bool(bad), "input": w, "impl": self.canon_real(w, raw), "what": bad}


PART = Part()
# stand-alone entry (`./check C20_real`) for this part only; the C20 property composes PART with the E1 part
PROP = Composite("C20", [PART])
