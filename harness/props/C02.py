"""C02 — abrupt worker death is detected and fails the pool loudly: executor protocol (E1, M1) + kill tree (E2/E3, M10)"""
from ..composite import Composite
from ..e1 import E1Part
from .C02_killtree import PART as KILLTREE

E1 = E1Part("C02", [("crash", 4), ("mixed", 2), ("init", 1), ("break", 1), ("respawn", 2), ("callback", 2)], ["C02", "C03", "C01"], ["LokyModel.Props.C02", "LokyModel.Props.C02Live", "LokyModel.Props.C02Term", "LokyModel.Props.C02Outcome"],
            quick=1400, thorough=40000)
PROP = Composite("C02", [E1, KILLTREE])
