"""C08 — executor-protocol property: Lean theorems over M1 + E1 (real code under the deterministic scheduler,
in lock-step with M1, judged by the oracles of harness/simengine/monitors.py)."""
from ..e1 import E1Part

PROP = E1Part("C08", [("mixed",2),("timeouts",1),("saturate",2),("notimeout",1),("saturateleak",1),("satreuse",1),("concurrent",1),("saturatetmo",1)], ["C08"], ["LokyModel.Props.C08", "LokyModel.Props.C08Live"], quick=1400, thorough=40000, starve=1)
