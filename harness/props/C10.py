"""C10 — resizing preserves submitted work and surviving workers, and terminates (resize plan model + E1)"""
from ..e1 import ReusePart

PROP = ReusePart("C10", ["C10", "C03", "C01"], ["LokyModel.Props.C10", "LokyModel.Props.C10Resize", "LokyModel.Props.C10Plan"], quick=1500, thorough=30000,
                 families=[("reuse", 3), ("reusecrash", 2), ("reusegrow", 3), ("reusebig", 1), ("reusecb", 1), ("reusecancel", 2), ("reusecbsub", 1), ("reusebigcrash", 1), ("reuseput", 2)])
