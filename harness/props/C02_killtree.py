"""Kill-tree part of C02 / C06 (model M10 `LokyModel.KillTree`, engines E2 + E3).

E2 (in-process, real functions of `loky.backend.utils` with their environment substituted):
  * `fmt`   — `_format_exitcodes` over every code −64…255 (+ out-of-range ones) and mixed lists with `None`;
  * `getex` — `get_exitcodes_terminated_worker` over dictionaries of fake process objects whose
              `exitcode` appears after a number of (substituted) `time.sleep` calls;
  * `kill`  — `kill_process_tree` over a fake kernel: `psutil`, `subprocess.check_output(["pgrep",…])`,
              `os.kill` and the process object are substituted by a fake forest; compared with the model:
              the order of kill attempts (with ESRCH marks), join, warning, who is left.
E3 (real processes, `harness/props/c02_scn.py`):
  * `tree`  — real nested trees (LokyProcess / python subprocess / sleep / zombie members, depth 1–3)
              under a loky worker, `kill_process_tree` with psutil, with the no-psutil path forced and
              with psutil "not installed"; /proc is polled: every pid of the tree gone, bystanders alive.

The oracle is written from the statements of C02/C06 ("all remaining workers are killed and reaped",
"every worker together with all of its descendant processes is killed and reaped", "TerminatedWorkerError
naming the exit codes") and does not use the Lean model.
"""
import errno
import json
import os
import signal
import subprocess
import sys
import types
import warnings
from concurrent.futures import ThreadPoolExecutor

from .. import common as C
from ..e2 import E2Prop

E3_KINDS = ("tree",)
SCN_TIMEOUT = 420


def _csv(xs):
    xs = list(xs)
    return ",".join(str(x) for x in xs) if xs else "-"


# ------------------------------------------------------------------------------- E2: exit codes

def impl_fmt(case):
    import loky.backend.utils as U
    return [U._format_exitcodes(list(case["codes"]))]


class _FakeProc:
    def __init__(self, clockbox, seq):
        self._c, self._seq = clockbox, seq

    @property
    def exitcode(self):
        i = min(self._c[0], len(self._seq) - 1)
        return self._seq[i]


def impl_getex(case):
    import loky.backend.utils as U
    snaps = case["snaps"]
    n = len(snaps[0])
    clock = [0]
    procs = {1000 + i: _FakeProc(clock, [s[i] for s in snaps]) for i in range(n)}
    saved = U.time

    def sleep(t):
        clock[0] += 1
    U.time = types.SimpleNamespace(sleep=sleep)
    try:
        s = U.get_exitcodes_terminated_worker(procs)
    finally:
        U.time = saved
    return [f"{s} sleeps={clock[0]}"]


def ref_name(e):
    """statement: exit codes are named — signal name for a negative code, EXIT for a normal one"""
    if e < 0:
        try:
            return signal.Signals(-e).name
        except ValueError:
            return "UNKNOWN"
    return "EXIT" if e != 255 else "UNKNOWN"


def ref_format(codes):
    return "{" + ", ".join(f"{ref_name(e)}({e})" for e in codes if e is not None) + "}"


# ------------------------------------------------------------------------------- E2: fake kernel

class _World:
    def __init__(self, case):
        self.kids = {int(k): list(v) for k, v in case["kids"].items()}
        self.running = list(case["running"])
        self.zombie = list(case["zombie"])
        self.att = []
        self.joined = None

    def has(self, p):
        return p in self.running or p in self.zombie

    def kill(self, p, sig):
        """returns False on ESRCH"""
        ok = self.has(p)
        self.att.append(f"{p}" + ("" if ok else "!") + ("" if sig == signal.SIGKILL else f"@{int(sig)}"))
        if p in self.running and sig == signal.SIGKILL:
            self.running.remove(p)
            self.zombie.insert(0, p)
        return ok


def impl_kill(case):
    import loky.backend.utils as U
    w = _World(case)
    root = case["root"]

    class NoSuchProcess(Exception):
        pass

    class FProcess:
        def __init__(self, pid, _check=True):
            if _check and not w.has(pid):
                raise NoSuchProcess(pid)
            self.pid = pid

        def children(self, recursive=False):
            if recursive:
                res = [FProcess(p, False) for p in case["listing"]]
            else:
                res = [FProcess(p, False) for p in w.kids.get(self.pid, []) if w.has(p)]
            for p in case.get("die_after", []):         # members that vanish after the listing
                if p in w.running:
                    w.running.remove(p)
                if p in w.zombie:
                    w.zombie.remove(p)
            return res

        def kill(self):
            if not w.kill(self.pid, signal.SIGKILL):
                raise NoSuchProcess(self.pid)

    fpsutil = types.SimpleNamespace(Process=FProcess, NoSuchProcess=NoSuchProcess)

    def check_output(cmd, stderr=None, text=None, **kw):
        if not case["pgrep_ok"]:
            raise FileNotFoundError(2, "No such file or directory: 'pgrep'")
        assert cmd[0] == "pgrep" and cmd[1] == "-P", cmd
        ch = w.kids.get(int(cmd[2]), [])
        if not ch:
            raise subprocess.CalledProcessError(1, cmd)
        return "".join(f"{c}\n" for c in ch)

    def fkill(pid, sig):
        if not w.kill(pid, sig):
            raise ProcessLookupError(errno.ESRCH, "No such process")

    class FProc:
        pid = root

        def join(self, timeout=None):
            if root in w.running:
                w.joined = "HANG"       # a real join() would block for ever
            else:
                w.joined = "joined"
                if root in w.zombie:
                    w.zombie.remove(root)

        def kill(self):
            if case["proc"] == "loky":
                # BaseProcess.kill() is `self._popen.kill()`; look the method up on the real class
                from loky.backend.popen_loky_posix import Popen
                getattr(Popen.__new__(Popen), "kill")
            w.kill(root, signal.SIGKILL)

    saved = {k: getattr(U, k) for k in ("psutil", "subprocess", "os")}
    fsub = types.SimpleNamespace(check_output=check_output, CalledProcessError=subprocess.CalledProcessError)
    fos = types.SimpleNamespace(kill=fkill)
    end = None
    with warnings.catch_warnings(record=True) as ws:
        warnings.simplefilter("always")
        try:
            U.psutil = fpsutil if case["have_psutil"] else None
            U.subprocess = fsub
            U.os = fos
            U.kill_process_tree(FProc(), use_psutil=bool(case["use_psutil"]))
        except AttributeError:
            end = "AttributeError"
        except Exception as e:          # noqa: BLE001
            end = "raised:" + type(e).__name__
        finally:
            for k, v in saved.items():
                setattr(U, k, v)
    if end is None:
        end = w.joined or "nojoin"
    warned = int(any("Failed to kill subprocesses" in str(x.message) for x in ws))
    return [f"att={_csv(w.att)} end={end} warn={warned} running={_csv(sorted(w.running))} "
            f"zombie={_csv(sorted(w.zombie))}"]


def subtree(kids, root):
    seen, stack = [], [root]
    while stack:
        p = stack.pop()
        if p in seen:
            continue
        seen.append(p)
        stack += kids.get(p, [])
    return seen


def facility(case):
    """is there a way to list processes at all (hypothesis of the property's theorem)?"""
    return bool((case["use_psutil"] and case["have_psutil"]) or case["pgrep_ok"])


# ------------------------------------------------------------------------------- E3

def run_scenario(case):
    env = dict(os.environ)
    env["PYTHONPATH"] = os.pathsep.join([p for p in ([os.environ.get("VERIF_REPO")] if os.environ.get("VERIF_REPO") else [])
                                         + [C.ROOT] + [env.get("PYTHONPATH", "")] if p])
    sc = {"tree": case["tree"], "use_psutil": case["use_psutil"], "have_psutil": case["have_psutil"],
          "pre_kill": case.get("pre_kill")}
    try:
        r = subprocess.run([sys.executable, "-m", "harness.props.c02_scn", "--scenario", json.dumps(sc)],
                           cwd=C.ROOT, env=env, capture_output=True, text=True, timeout=SCN_TIMEOUT,
                           stdin=subprocess.DEVNULL)
    except subprocess.TimeoutExpired:
        raise C.Infra(f"kill-tree scenario exceeded {SCN_TIMEOUT}s: {json.dumps(sc)}")
    rep = [l for l in r.stdout.split("\n") if l.startswith("REPORT ")]
    if r.returncode != 0 or not rep:
        raise C.Infra(f"kill-tree scenario failed rc={r.returncode}: {r.stderr[-500:]}")
    return json.loads(rep[-1][7:])


def tree_out(rep):
    if "crash" in rep:
        return ["crash=" + rep["crash"].split(":")[0], "OBS " + json.dumps(rep, sort_keys=True)]
    end = ("raised:" + rep["raised"]) if rep["raised"] else ("joined" if rep["root_reaped"] else "nojoin")
    return [f"end={end} warn={rep['warned']} running={_csv(rep['running1'])}", "OBS " + json.dumps(rep, sort_keys=True)]


# ------------------------------------------------------------------------------- the part

class KillTreePart(E2Prop):
    id = "C02"
    name = "killtree"
    engine = "E2+E3"
    lean_modules = ["LokyModel.Props.C02KillTree"]
    driver = "killtree_driver"
    budget = {"quick": 170, "thorough": 1700}
    n_cases = {"quick": 6000, "thorough": 120000}
    n_trees = {"quick": 12, "thorough": 150}
    search_cases = {"quick": 6000, "thorough": 60000}
    rule = ("E2: fmt = lists of exit codes (each of −64…255 alone, out-of-range, mixed with None); getex = dicts of "
            "fake processes whose exit codes appear after 0–7 substituted sleeps; kill = fake forests (1–14 members, "
            "sparse pids, bystander trees, running/zombie/vanished members, members vanishing after psutil's listing, "
            "psutil / pgrep / no-facility paths, loky and multiprocessing process objects). E3: tree = real trees "
            "depth 1–3 under a loky worker (LokyProcess, python subprocess, sleep, zombie members), psutil / forced "
            "no-psutil / psutil absent. Non-trivial = kill or tree case with at least one descendant, or an exit-code "
            "case with a negative, a None or the 255 code. Distinct by full input.")
    assumptions = [
        "pgrep -P <pid> lists exactly the children of <pid>; psutil.Process.children(recursive=True) lists exactly the "
        "proper descendants, each after its parent (both executed for real in E3, parameters of the model)",
        "nobody forks inside the tree while it is being killed (snapshot semantics)",
        "a process-listing facility exists: psutil importable or a working pgrep. Without either, the code's fall-back "
        "process.kill() raises AttributeError for a LokyProcess (model: no_pgrep_no_kill; E2 checks the model agrees)",
        "signal names are those of Linux x86-64 / CPython 3.12 (table in the model, compared with signal.Signals in E2)",
    ]

    # ---- cases ------------------------------------------------------------------------
    def corpus(self):
        cs = []
        for e in range(-64, 256):
            cs.append({"kind": "fmt", "codes": [e]})
        cs.append({"kind": "fmt", "codes": list(range(-64, 256))})
        for codes in ([], [None], [None, None], [-9, None, 3, 255, -33], [0], [255, 255], [256], [-65], [-128, 1000, -1000],
                      [None, -15, None], [-9, -9], [1, 0, -1]):
            cs.append({"kind": "fmt", "codes": codes})
        N = None
        for snaps in ([[]], [[N]], [[-9]], [[N, -11]], [[N, N], [N, -9]], [[N, N], [N, N], [N, -11]],
                      [[N]] * 4 + [[3]], [[N]] * 5 + [[3]], [[N]] * 6 + [[3]], [[N, N]] * 7,
                      [[0, N], [0, 1]], [[N], [255]], [[N, N, N], [N, N, N], [-15, N, 1]]):
            cs.append({"kind": "getex", "snaps": snaps})
        base = dict(kind="kill", use_psutil=0, have_psutil=1, pgrep_ok=1, proc="loky", die_after=[])

        def k(**kw):
            cs.append(dict(base, **kw))
        forest = {"10": [11, 12], "11": [13, 14], "20": [21]}
        allp = [10, 11, 12, 13, 14, 20, 21]
        for up, hp in ((0, 1), (1, 1), (1, 0), (0, 0)):
            k(use_psutil=up, have_psutil=hp, root=10, kids=forest, listing=[11, 12, 13, 14], running=allp, zombie=[])
            k(use_psutil=up, have_psutil=hp, root=10, kids=forest, listing=[11, 13, 14, 12], running=allp, zombie=[])
            k(use_psutil=up, have_psutil=hp, root=10, kids={}, listing=[], running=[10, 20], zombie=[])
            k(use_psutil=up, have_psutil=hp, root=10, kids={}, listing=[], running=[20], zombie=[10])
            k(use_psutil=up, have_psutil=hp, root=10, kids={}, listing=[], running=[20], zombie=[])
            k(use_psutil=up, have_psutil=hp, root=10, kids={"10": [11, 12], "11": [13]}, listing=[11, 12, 13],
              running=[10, 11, 13, 20], zombie=[12])
            k(use_psutil=up, have_psutil=hp, root=10, kids=forest, listing=[11, 12, 13, 14], running=allp, zombie=[],
              die_after=[13])
            k(use_psutil=up, have_psutil=hp, root=11, kids=forest, listing=[13, 14], running=allp, zombie=[])
            k(use_psutil=up, have_psutil=hp, root=1, kids={"1": [2], "2": [3], "3": [4], "4": [5]}, listing=[2, 3, 4, 5],
              running=[1, 2, 3, 4, 5, 6], zombie=[])
        for proc in ("loky", "mp"):
            for up, hp in ((0, 1), (1, 0)):
                k(use_psutil=up, have_psutil=hp, pgrep_ok=0, proc=proc, root=10, kids=forest, listing=[11, 12, 13, 14],
                  running=allp, zombie=[])
                k(use_psutil=up, have_psutil=hp, pgrep_ok=0, proc=proc, root=10, kids={}, listing=[], running=[10], zombie=[])
        k(use_psutil=1, have_psutil=1, pgrep_ok=0, root=10, kids=forest, listing=[11, 12, 13, 14], running=allp, zombie=[])
        # E3
        S, Z = {"kind": "sleep"}, {"kind": "zombie"}
        cs.append({"kind": "tree", "use_psutil": 1, "have_psutil": 1, "tree": {"kids": [S]}})
        cs.append({"kind": "tree", "use_psutil": 0, "have_psutil": 1,
                   "tree": {"kids": [{"kind": "sub", "kids": [S, Z]}, {"kind": "loky", "kids": [{"kind": "loky", "kids": [S]}]}, S]}})
        cs.append({"kind": "tree", "use_psutil": 1, "have_psutil": 1,
                   "tree": {"kids": [{"kind": "loky", "kids": [{"kind": "sub", "kids": [S, S]}]}, {"kind": "sub", "kids": [Z]}]}})
        cs.append({"kind": "tree", "use_psutil": 1, "have_psutil": 0,
                   "tree": {"kids": [{"kind": "sub", "kids": [{"kind": "sub", "kids": [S]}]}]}})
        cs.append({"kind": "tree", "use_psutil": 0, "have_psutil": 1, "tree": {"kids": []}})
        cs.append({"kind": "tree", "use_psutil": 0, "have_psutil": 1, "pre_kill": "W.0.0",
                   "tree": {"kids": [{"kind": "loky", "kids": [S, S]}, S]}})
        return cs

    def gen_forest(self, rng):
        n = rng.choice([1, 1, 2, 3, 4, 5, 6, 8, 10, 14])
        nb = rng.choice([0, 1, 2, 4])
        pool = rng.sample(range(2, 60000 if rng.random() < 0.5 else 60), n + nb)
        tree, by = pool[:n], pool[n:]
        kids = {}
        shape = rng.choice(["rand", "chain", "star", "rand"])
        for i in range(1, n):
            par = tree[rng.randrange(i)] if shape == "rand" else tree[i - 1] if shape == "chain" else tree[0]
            kids.setdefault(par, []).append(tree[i])
        for i in range(1, len(by)):
            if rng.random() < 0.6:
                kids.setdefault(by[rng.randrange(i)], []).append(by[i])
        if rng.random() < 0.6:
            for v in kids.values():
                v.sort()
        return tree, by, kids

    def gen(self, rng, i):
        r = rng.random()
        if r < 0.22:
            n = rng.choice([0, 1, 1, 2, 3, 5, 8])
            pick = lambda: rng.choice([None, rng.randint(-64, 255), rng.randint(-64, -1), rng.choice([255, 0, 1, -9, -11, -15, 254, 256, -65, -32, -33, -34, -35, -63, -64])])
            return {"kind": "fmt", "codes": [pick() for _ in range(n)]}
        if r < 0.40:
            n = rng.choice([0, 1, 2, 3, 5])
            appear = [rng.choice([None, 0, 0, 1, 2, 3, 4, 5, 6]) for _ in range(n)]      # clock at which the code shows
            codes = [rng.choice([-9, -11, -15, 0, 1, 3, 255, rng.randint(-64, 255)]) for _ in range(n)]
            snaps = [[codes[j] if appear[j] is not None and appear[j] <= c else None for j in range(n)] for c in range(8)]
            return {"kind": "getex", "snaps": snaps[:rng.choice([1, 2, 5, 6, 7, 8])]}
        tree, by, kids = self.gen_forest(rng)
        root = tree[0] if rng.random() < 0.85 else rng.choice(tree)
        sub = subtree(kids, root)
        allp = tree + by
        running, zombie = [], []
        realistic = rng.random() < 0.85
        leaves = [p for p in allp if not kids.get(p)]
        for p in allp:
            x = rng.random()
            if realistic and p not in leaves and p != root:
                running.append(p)
            elif x < 0.8:
                running.append(p)
            elif x < 0.92:
                zombie.append(p)
            # else: gone
        exist = [p for p in sub[1:] if p in running or p in zombie]
        # psutil's listing: existing proper descendants reachable through existing members, parent first
        order, frontier = [], [root]
        while frontier:
            p = frontier.pop(rng.randrange(len(frontier)))
            for c in kids.get(p, []):
                if c in exist:
                    order.append(c)
                    frontier.append(c)
        if rng.random() < 0.1:
            rng.shuffle(order)          # a listing psutil would not produce: model and code must still agree
        die = [p for p in order if rng.random() < 0.08]
        up, hp = rng.choice([(0, 1), (1, 1), (1, 1), (1, 0), (0, 0)])
        return {"kind": "kill", "use_psutil": up, "have_psutil": hp, "pgrep_ok": 0 if rng.random() < 0.08 else 1,
                "proc": rng.choice(["loky", "loky", "mp"]), "root": root,
                "kids": {str(k): v for k, v in kids.items()}, "listing": order, "die_after": die,
                "running": running, "zombie": zombie}

    def gen_tree(self, rng):
        def node(depth, kind):
            kids = []
            if kind in ("loky", "sub") and depth > 0:
                for _ in range(rng.choice([0, 1, 1, 2, 3])):
                    kids.append(node(depth - 1, rng.choice(["loky", "sub", "sleep", "sleep", "zombie"])))
            elif kind in ("loky", "sub"):
                kids = [{"kind": rng.choice(["sleep", "zombie"])} for _ in range(rng.choice([0, 1, 2]))]
            return {"kind": kind, "kids": kids} if kind in ("loky", "sub") else {"kind": kind}
        depth = rng.choice([1, 2, 2, 3])
        t = node(depth, "loky")
        while not t["kids"]:
            t = node(depth, "loky")
        up, hp = rng.choice([(1, 1), (0, 1), (0, 1), (1, 0)])
        return {"kind": "tree", "use_psutil": up, "have_psutil": hp, "tree": {"kids": t["kids"]}}

    # ---- model ------------------------------------------------------------------------
    def model_lines(self, case, out=None):
        kind = case["kind"]
        if kind == "fmt":
            return ["fmt " + _csv("none" if c is None else c for c in case["codes"])]
        if kind == "getex":
            return ["getex " + ";".join(_csv("none" if c is None else c for c in s) for s in case["snaps"])]
        if kind == "kill":
            w = _World(case)
            psu = case["use_psutil"] and case["have_psutil"] and w.has(case["root"])
            for p in (case.get("die_after", []) if psu else []):     # only psutil's path has a listing to die after
                if p in w.running:
                    w.running.remove(p)
                if p in w.zombie:
                    w.zombie.remove(p)
            has_kill = 0 if case["proc"] == "loky" else 1
            kids = ",".join(f"{p}:{'.'.join(map(str, cs))}" for p, cs in case["kids"].items() if cs) or "-"
            return [f"kill {case['use_psutil']} {case['have_psutil']} {case['pgrep_ok']} {has_kill} {case['root']} "
                    f"{kids} {_csv(case['listing'])} {_csv(w.running)} {_csv(w.zombie)}"]
        if kind == "tree":
            rep = json.loads(out[1][4:])
            kids = ",".join(f"{p}:{'.'.join(map(str, cs))}" for p, cs in rep["kids"].items() if cs) or "-"
            # psutil's listing is not observable: any parent-first listing of the tree gives the same final state
            listing = [p for p in subtree({int(k): v for k, v in rep["kids"].items()}, rep["root"])[1:]]
            return [f"kill {case['use_psutil']} {case['have_psutil']} 1 0 {rep['root']} {kids} {_csv(listing)} "
                    f"{_csv(rep['running0'])} {_csv(rep['zombie0'])}"]
        raise ValueError(kind)

    def model_project(self, case, lines):
        if case["kind"] == "tree":
            f = dict(x.split("=", 1) for x in lines[0].split(" "))
            return [f"end={f['end']} warn={f['warn']} running={f['running']}"]
        return lines

    def impl_project(self, case, out):
        return out[:1] if case["kind"] == "tree" else out

    # ---- implementation -----------------------------------------------------------------
    def impl(self, case):
        kind = case["kind"]
        if kind == "fmt":
            return impl_fmt(case)
        if kind == "getex":
            return impl_getex(case)
        if kind == "kill":
            return impl_kill(case)
        if kind == "tree":
            return tree_out(run_scenario(case))
        raise ValueError(kind)

    # ---- oracle (from the statements of C02 / C06) --------------------------------------------
    def oracle(self, case, out, strict=False):
        kind = case["kind"]
        if out and out[0].startswith("HARNESS-EXC"):
            return out[0]
        if kind == "fmt":
            exp = ref_format(case["codes"])
            if out[0] != exp:
                return f"exit codes {case['codes']} reported as {out[0]!r}, expected {exp!r}"
            return None
        if kind == "getex":
            s, sl = out[0].rsplit(" sleeps=", 1)
            n = len(case["snaps"][0])
            vis = lambda c: [x for x in case["snaps"][min(c, len(case["snaps"]) - 1)] if x is not None]
            if int(sl) > 5:
                return f"{sl} sleeps, the documented patience is 5"
            # the codes reported must be a reading that was actually visible at some point up to the
            # last read, and must be non-empty if a code was visible from the start
            cands = [ref_format(vis(c)) for c in range(0, int(sl) + 1)]
            if s not in cands:
                return f"reported {s!r}, not a reading of the visible exit codes {cands}"
            if vis(0) and s != ref_format(vis(0)):
                return f"exit codes {vis(0)} were visible at once but {s!r} was reported"
            if s == "{}" and n and any(vis(c) for c in range(0, 4)):
                return "no exit code reported although one became visible within the patience"
            return None
        if kind == "kill":
            f = dict(x.split("=", 1) for x in out[0].split(" "))
            kids = {int(k): v for k, v in case["kids"].items()}
            sub = subtree(kids, case["root"])
            psu = case["use_psutil"] and case["have_psutil"]
            run1 = [] if f["running"] == "-" else [int(x) for x in f["running"].split(",")]
            att = [] if f["att"] == "-" else f["att"].split(",")
            apids = [int(a.split("@")[0].rstrip("!")) for a in att]
            for a in att:
                if "@" in a:
                    return f"signal {a.split('@')[1]} sent instead of SIGKILL"
            stray = [p for p in apids if p not in sub]
            if stray:
                return f"processes outside the tree were signalled: {stray}"
            before = [p for p in case["running"] if p not in sub]
            if sorted(p for p in run1 if p not in sub) != sorted(before):
                return "bystanders changed"
            if not facility(case):
                # outside the scope of the statement as the harness reads it (assumption: psutil or pgrep);
                # under strict replay (a listed finding) the documented fall-back is demanded: root killed, joined
                if strict and (f["end"] != "joined" or case["root"] in run1):
                    return (f"no psutil and no working pgrep: kill_process_tree ended with {f['end']} and the worker "
                            f"{'is still running' if case['root'] in run1 else 'was not joined'}")
                return None
            if f["end"].startswith("raised") or f["end"] in ("AttributeError", "HANG"):
                return f"kill_process_tree ended with {f['end']}"
            died = set(case.get("die_after", [])) if psu else set()
            root_exists = case["root"] in case["running"] or case["root"] in case["zombie"]
            if psu and not root_exists:
                return None if not att else "signals sent although the worker no longer exists"
            # members psutil/pgrep can see: reachable from the root through existing members
            exist = set(case["running"]) | set(case["zombie"])
            reach, stack = [], [case["root"]]
            while stack:
                p = stack.pop()
                reach.append(p)
                stack += [c for c in kids.get(p, []) if (c in exist or not psu)]
            if psu and sorted(case["listing"]) != sorted(reach[1:]):
                return None         # a listing psutil would not give: no demand
            left = [p for p in reach if p in run1 and p not in died]
            if left:
                return f"members of the tree still running after kill_process_tree: {left}"
            if f["end"] != "joined":
                return f"worker not joined (end={f['end']})"
            pos = {p: i for i, p in enumerate(apids)}
            if psu:
                li = {p: i for i, p in enumerate(case["listing"])}
                if any(c in li and p in li and li[p] > li[c] for p in reach for c in kids.get(p, [])):
                    return None     # not a parent-first listing: psutil would not give it, no order demand
            for p in reach:
                for c in kids.get(p, []):
                    if c in pos and p in pos and pos[c] > pos[p]:
                        return f"parent {p} signalled before its child {c}"
            return None
        if kind == "tree":
            rep = json.loads(out[1][4:])
            if "crash" in rep:
                return f"real tree: scenario crashed in the code under test: {rep['crash']} | {rep['where'][-300:]}"
            if rep["raised"]:
                return f"kill_process_tree raised {rep['raised']}"
            left = [rep["names"][str(p)] for p in rep["running1"] if p in rep["tree"]]
            if left:
                return f"real tree: members still running after kill_process_tree: {left}"
            lost = [rep["names"][str(p)] for p in rep["running0"] if p not in rep["tree"] and p not in rep["running1"]]
            if lost:
                return f"real tree: bystanders killed: {lost}"
            if not rep["root_reaped"]:
                return "real tree: the worker was not reaped"
            if rep["root_exitcode"] != -9:
                return f"real tree: worker exit code {rep['root_exitcode']}, expected -9 (SIGKILL)"
            return None
        return None

    def nontrivial(self, case, out):
        k = case["kind"]
        if k == "fmt":
            return any(c is None or c < 0 or c == 255 for c in case["codes"])
        if k == "getex":
            return len(case["snaps"][0]) > 0
        if k == "kill":
            return len(subtree({int(a): b for a, b in case["kids"].items()}, case["root"])) > 1
        return bool(case["tree"]["kids"])

    def classify(self, case, out):
        k = case["kind"]
        ks = ["kind=" + k]
        if k in ("kill", "tree"):
            ks.append("path=" + ("psutil" if case["use_psutil"] and case["have_psutil"] else "pgrep"))
        if k == "kill":
            f = dict(x.split("=", 1) for x in out[0].split(" ")) if out and out[0].startswith("att=") else {}
            ks.append("end=" + f.get("end", "?"))
            if "!" in f.get("att", ""):
                ks.append("esrch")
            if not case["pgrep_ok"]:
                ks.append("pgrep-broken")
            d = len(subtree({int(a): b for a, b in case["kids"].items()}, case["root"]))
            ks.append("members=" + ("1" if d == 1 else "2-4" if d <= 4 else "5+"))
        if k == "tree":
            def depth(n):
                return 1 + max([depth(c) for c in n.get("kids", [])], default=0)
            ks.append(f"depth={depth(case['tree']) - 1}")
        return ks

    def shrink_candidates(self, case):
        k = case["kind"]
        if k == "fmt":
            cs = case["codes"]
            for i in range(len(cs)):
                yield dict(case, codes=cs[:i] + cs[i + 1:])
        elif k == "getex":
            sn = case["snaps"]
            if len(sn) > 1:
                yield dict(case, snaps=sn[:-1])
            for j in range(len(sn[0])):
                yield dict(case, snaps=[s[:j] + s[j + 1:] for s in sn])
        elif k == "kill":
            kids = {int(a): b for a, b in case["kids"].items()}
            leaves = [p for p in set(case["running"] + case["zombie"] + [c for v in kids.values() for c in v])
                      if not kids.get(p) and p != case["root"]]
            for p in sorted(leaves):
                nk = {str(a): [c for c in b if c != p] for a, b in kids.items()}
                yield dict(case, kids={a: b for a, b in nk.items() if b}, listing=[x for x in case["listing"] if x != p],
                           die_after=[x for x in case["die_after"] if x != p],
                           running=[x for x in case["running"] if x != p], zombie=[x for x in case["zombie"] if x != p])
            if case["die_after"]:
                yield dict(case, die_after=[])
        elif k == "tree":
            def drops(n):
                ks = n.get("kids", [])
                for i in range(len(ks)):
                    yield dict(n, kids=ks[:i] + ks[i + 1:])
                for i, c in enumerate(ks):
                    for d in drops(c):
                        yield dict(n, kids=ks[:i] + [d] + ks[i + 1:])
            for t in drops(case["tree"]):
                if not case.get("pre_kill"):
                    yield dict(case, tree=t)

    # ---- engine (E2 cases through the fork pool, E3 cases as sub-processes) ---------------------
    def _run_all(self, cases):
        e2i = [i for i, c in enumerate(cases) if c["kind"] not in E3_KINDS]
        e3i = [i for i, c in enumerate(cases) if c["kind"] in E3_KINDS]
        res = [None] * len(cases)
        for i, r in zip(e2i, self._run_impl([cases[i] for i in e2i])):
            res[i] = r
        if e3i:
            infra = []

            def one(i):
                import traceback
                try:
                    o = self.impl(cases[i])
                except C.Infra as e:
                    infra.append(e)
                    return (["INFRA"], None)
                except Exception:       # noqa: BLE001
                    o = ["HARNESS-EXC " + traceback.format_exc()[-300:].replace("\n", " | ")]
                try:
                    bad = self.oracle(cases[i], o)
                except Exception:       # noqa: BLE001
                    bad = "ORACLE-EXC " + traceback.format_exc()[-300:].replace("\n", " | ")
                return (o, bad)
            with ThreadPoolExecutor(4) as tp:
                for i, r in zip(e3i, tp.map(one, e3i)):
                    res[i] = r
            if infra:
                raise infra[0]
        return res

    def evaluate(self, cases, corr, with_model=True):
        impl = self._run_all(cases)
        model = None
        if with_model:
            drv = C.Driver(self.driver)
            try:
                drv.ensure()
                lines, spans = [], []
                for c, (o, _) in zip(cases, impl):
                    try:
                        ls = self.model_lines(c, o)
                    except Exception:       # noqa: BLE001  (implementation output unusable, e.g. HARNESS-EXC)
                        ls = ["unmodelled"]
                    spans.append((len(lines), len(ls)))
                    lines += ls
                outs = drv.run(lines) if lines else []
                model = [self.model_project(c, outs[a:a + n]) for c, (a, n) in zip(cases, spans)]
            except C.Infra as e:
                corr.model_error = str(e)
        for i, case in enumerate(cases):
            out, bad = impl[i]
            corr.evaluations += 1
            for k in self.classify(case, out):
                corr.count(k)
            if self.nontrivial(case, out):
                corr.nontrivial(case)
            if bad:
                corr.failures.append({"input": case, "impl": out, "what": bad})
            if model is not None and model[i] != self.impl_project(case, out):
                corr.disagreements.append({"input": case, "model": model[i], "impl": self.impl_project(case, out)})
        return impl, model

    def correspondence(self, ctx, corr):
        corr.rule = self.rule
        cases = list(self.corpus())
        ncorp = len(cases)
        rng = C.rng_for(ctx.seed, self.id, self.name, "gen")
        cases += [self.gen(rng, i) for i in range(self.n_cases[ctx.tier])]
        trng = C.rng_for(ctx.seed, self.id, self.name, "trees")
        cases += [self.gen_tree(trng) for _ in range(self.n_trees[ctx.tier])]
        impl, model = self.evaluate(cases, corr)
        corr.extra["corpus_cases"] = ncorp
        corr.extra["real_process_trees"] = sum(1 for c in cases if c["kind"] == "tree")
        picks = [next((i for i, c in enumerate(cases) if c["kind"] == k and i >= ncorp), None) for k in ("fmt", "getex", "kill", "tree")]
        for j in [p for p in picks if p is not None]:
            corr.samples.append({"input": cases[j], "impl": self.impl_project(cases[j], impl[j][0]),
                                 "model": None if model is None else model[j]})
        corr.failures = [self.shrink(f, "oracle") for f in corr.failures[:3]] + corr.failures[3:]
        corr.disagreements.sort(key=lambda d: len(json.dumps(d["input"])))

    def search(self, ctx, corr, broken):
        cands = [d["input"] for d in corr.disagreements[:100]]
        extra = []
        for c in cands:
            if c["kind"] not in E3_KINDS:
                extra += list(self.shrink_candidates(c))[:20]
        rng = C.rng_for(ctx.seed, self.id, self.name, "search")
        more = [self.gen(rng, i) for i in range(self.search_cases[ctx.tier])]
        more += [self.gen_tree(rng) for _ in range(4 if ctx.tier == "quick" else 20)]
        c2 = C.Corr()
        self.evaluate(cands + extra + more, c2, with_model=False)
        corr.extra["search_cases"] = c2.evaluations
        if c2.failures:
            return self.shrink(c2.failures[0], "oracle")
        return None

    def replay_finding(self, ctx, finding):
        w = finding.get("witness")
        if w is None:
            return {"fails": False}
        out = self.impl(w)
        bad = self.oracle(w, out, strict=True)
        return {"fails": bool(bad), "input": w, "impl": out, "what": bad}


PART = KillTreePart()
