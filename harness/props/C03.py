"""C03 — right result to the right future, at-most-once, map == builtin map: map pipeline (E2, M2) + executor protocol (E1, M1)"""
from ..composite import Composite
from ..e1 import E1Part
from .C03_map import PART as MAP

E1 = E1Part("C03", [("mixed", 2), ("notimeout", 1), ("contain", 1), ("timeouts", 2), ("leak", 1), ("concurrent", 2)], ["C03"],
            ["LokyModel.Props.C03"], quick=1400, thorough=40000)
PROP = Composite("C03", [MAP, E1])
