"""E3 scenario runner for the spawn part of C18 (real processes).

    python -m harness.props.c18_scn '<json>'      → `REPORT <json>` on stdout, exit 0;  exit 3 = infrastructure

kinds:  fds   parent opens marker descriptors (sparse numbers, inheritable or not), passes some of them
              deliberately (Connection objects / a pipe / a socket), starts a real LokyProcess whose target lists
              /proc/self/fd; the arguments of the real fork_exec call are recorded by a pass-through wrapper
        env   parent environment edits + LokyProcess(env=overlay); the child reports os.environ (now and at the
              import of its target module)
        exit  children that os._exit(n) / sys.exit(n) / kill themselves with a signal; raw wait status recorded by
              a pass-through wrapper around os.waitpid; exitcode, is_alive and sentinel readiness observed
        main  a script without `if __name__ == "__main__"` guard is run as a sub-process and starts loky
              children; a side-effect marker counts how often the script body ran
"""
import json
import os
import shutil
import subprocess
import sys
import tempfile
import time

JOIN_DEADLINE = 180.0


class ScnInfra(Exception):
    pass


def _table():
    t = []
    for n in sorted(int(x) for x in os.listdir("/proc/self/fd")):
        try:
            t.append([n, int(os.get_inheritable(n)), os.readlink(f"/proc/self/fd/{n}")])
        except OSError:
            pass
    return t


def _ctx():
    from loky.backend import get_context
    return get_context("loky")


def _join(p, what):
    p.join(JOIN_DEADLINE)
    if p._popen.returncode is None and p.exitcode is None:
        try:
            os.kill(p.pid, 9)
        except OSError:
            pass
        p.join(10)
        raise ScnInfra(f"{what}: child not finished after {JOIN_DEADLINE}s")


def _read(path, what, optional=False):
    t0 = time.time()
    while not os.path.exists(path):
        if optional:
            return None         # the child has ended without writing its report: an observation, not a time-out
        if time.time() - t0 > 60:
            raise ScnInfra(f"{what}: no report file")
        time.sleep(0.01)
    return json.load(open(path))


# ----------------------------------------------------------------------------------------- fds

def scn_fds(sc, d):
    import socket
    from multiprocessing.connection import Connection
    import multiprocessing as mp
    import loky.backend.fork_exec as FE
    from harness.props import c18_targets as T
    rec = {}
    orig = FE.fork_exec

    def wrapper(cmd, keep_fds, env=None):
        rec["cmd"] = list(cmd)
        rec["keep"] = [int(x) for x in keep_fds]
        rec["table"] = _table()
        return orig(cmd, keep_fds, env=env)
    # trackers first (their own launch goes through fork_exec too), then install the recorder
    from loky.backend.resource_tracker import _resource_tracker
    _resource_tracker.ensure_running()
    from multiprocessing.resource_tracker import _resource_tracker as mp_rt
    mp_rt.ensure_running()
    conns, passed_fds, keepalive = [], [], []
    markers = {}
    for i, e in enumerate(sc["extra"]):
        path = os.path.join(d, f"marker-{i:03d}")
        fd = os.open(path, os.O_CREAT | os.O_RDWR)
        num = e["num"]
        while True:
            try:
                os.fstat(num)
                num += 1            # taken: next free number
            except OSError:
                break
        os.dup2(fd, num, bool(e["inh"]))
        os.close(fd)
        markers[num] = f"marker-{i:03d}"
        if e["passed"]:
            c = Connection(num)
            conns.append(c)
            passed_fds.append(num)
    pipe_ino = sock_ino = None
    if sc.get("pipe"):
        r, w = mp.Pipe(duplex=False)
        keepalive += [r, w]
        conns.append(w)
        passed_fds.append(w.fileno())
        pipe_ino = os.readlink(f"/proc/self/fd/{w.fileno()}")
    if sc.get("sock"):
        a, b = socket.socketpair()
        keepalive += [a, b]
        conns.append(b)
        passed_fds.append(b.fileno())
        sock_ino = os.readlink(f"/proc/self/fd/{b.fileno()}")
    out = os.path.join(d, "child.json")
    FE.fork_exec = wrapper
    try:
        p = _ctx().Process(target=T.report, args=(out,) + tuple(conns))
        started = None
        try:
            p.start()
        except ValueError as e:
            started = f"ValueError:{e}"
    finally:
        FE.fork_exec = orig
    rep = {"markers": {str(k): v for k, v in markers.items()}, "passed": passed_fds, "keep": rec.get("keep"),
           "cmd": rec.get("cmd"), "table": rec.get("table"), "tracker": _resource_tracker._fd, "mp_tracker": mp_rt._fd,
           "pipe": pipe_ino, "sock": sock_ino, "start": started}
    if started is None:
        rep["sentinel"] = os.readlink(f"/proc/self/fd/{p.sentinel}")
        _join(p, "fds")
        rep["exitcode"] = p.exitcode
        ch = _read(out, "fds", optional=True)
        rep["child"] = None if ch is None else {"fds": ch["fds"], "passed": ch["passed"]}
    for c in conns:
        if isinstance(c, Connection) and c.fileno() in markers:
            c._handle = None        # the marker fds are ours to close
    return rep


# ----------------------------------------------------------------------------------------- env

def scn_env(sc, d):
    from harness.props import c18_targets as T
    for k in sc.get("unset", []):
        os.environ.pop(k, None)
    for k, v in sc.get("set", {}).items():
        os.environ[k] = v
    out = os.path.join(d, "child.json")
    kw = {}
    if sc["overlay"] is not None:
        ov = dict(sc["overlay"])
        for k in sc.get("int_values", []):
            ov[k] = int(ov[k])
        kw["env"] = ov
    parent = dict(os.environ)
    p = _ctx().Process(target=T.report, args=(out,), **kw)
    p.start()
    _join(p, "env")
    ch = _read(out, "env", optional=True)
    if ch is None:
        return {"parent": list(parent.items()), "child": None, "child_at_import": None, "exitcode": p.exitcode}
    return {"parent": list(parent.items()), "child": list(ch["env"].items()),
            "child_at_import": list(ch["env_at_import"].items()), "exitcode": p.exitcode}


# ----------------------------------------------------------------------------------------- exit

class _OsProxy:
    def __init__(self, real, log):
        self._real, self._log = real, log

    def __getattr__(self, k):
        return getattr(self._real, k)

    def waitpid(self, pid, flag):
        r = self._real.waitpid(pid, flag)
        if r[0] != 0:
            self._log.append([r[0], r[1]])
        return r


def scn_exit(sc, d):
    from multiprocessing.connection import wait
    import loky.backend.popen_loky_posix as PP
    from harness.props import c18_targets as T
    log = []
    PP.os = _OsProxy(os, log)
    res = []
    try:
        for j, item in enumerate(sc["items"]):
            go = os.path.join(d, f"go-{j}") if item.get("alive_check") else None
            ready = os.path.join(d, f"ready-{j}") if item.get("alive_check") else None
            if item["mode"] == "exit":
                p = _ctx().Process(target=T.exit_with, args=(item["n"], go, ready))
            elif item["mode"] == "sysexit":
                p = _ctx().Process(target=T.sys_exit_with, args=(item["n"], go, ready))
            else:
                p = _ctx().Process(target=T.kill_self, args=(item["sig"], go, ready))
            p.start()
            r = {"item": item}
            if go:
                _read(ready, "exit/ready")
                r["alive_before"] = int(p.is_alive())
                r["exitcode_before"] = p.exitcode
                r["sentinel_before"] = int(bool(wait([p.sentinel], 0)))
                open(go, "w").close()
            if not wait([p.sentinel], JOIN_DEADLINE):
                try:
                    os.kill(p.pid, 9)
                except OSError:
                    pass
                raise ScnInfra("exit: sentinel not ready after the deadline")
            r["sentinel_after"] = 1
            _join(p, "exit")
            r["exitcode"] = p.exitcode
            r["alive_after"] = int(p.is_alive())
            mine = [s for (q, s) in log if q == p.pid]
            r["raw_status"] = mine[-1] if mine else None
            res.append(r)
    finally:
        PP.os = os
    return {"results": res}


# ----------------------------------------------------------------------------------------- main

SCRIPT = '''\
import os, sys
with open({mark!r}, "a") as f:
    f.write("ran as %s pid %d\\n" % (__name__, os.getpid()))
from harness.props.c18_targets import noop
def in_main(x):
    return x + 1
{guard}
{body}
'''

BODY_PROCESS = '''\
from loky.backend import get_context
ps = [get_context({method!r}).Process(target=noop) for _ in range({n})]
for p in ps: p.start()
for p in ps: p.join(170)
rc = [p.exitcode for p in ps]
print("RC", rc)
sys.exit(0 if rc == [0] * {n} else 7)
'''

BODY_EXECUTOR = '''\
from loky import get_reusable_executor
ex = get_reusable_executor(max_workers={n}, context={method!r}, timeout=100)
r = list(ex.map(in_main, range(8)))
import time
pids = set()
t0 = time.time()
while len(pids) < {n} and time.time() - t0 < 60:
    pids |= set(ex.map(lambda i: (time.sleep(0.05), os.getpid())[1], range(4 * {n})))
print("PIDS", len(pids))
ex.shutdown(wait=True)
sys.exit(0 if r == list(range(1, 9)) and len(pids) >= {n} else 7)
'''


def scn_main(sc, d):
    mark = os.path.join(d, "mark")
    body = (BODY_EXECUTOR if sc["use"] == "executor" else BODY_PROCESS).format(method=sc["method"], n=sc["n"])
    if sc["guard"]:
        body = "\n".join("    " + l for l in body.split("\n"))
        guard = 'if __name__ == "__main__":'
    else:
        guard = ""
    script = os.path.join(d, "userscript.py")
    with open(script, "w") as f:
        f.write(SCRIPT.format(mark=mark, guard=guard, body=body))
    try:
        r = subprocess.run([sys.executable, script], capture_output=True, text=True, timeout=300, cwd=d,
                           stdin=subprocess.DEVNULL)
    except subprocess.TimeoutExpired:
        raise ScnInfra("main: script did not finish in 300 s")
    lines = open(mark).read().split("\n") if os.path.exists(mark) else []
    import loky.backend.popen_loky_posix as PP
    return {"rc": r.returncode, "runs": [l.split(" ")[2] for l in lines if l], "script": script,
            "child_file": PP.__file__, "stderr": r.stderr[-600:] if r.returncode else ""}


def main():
    sc = json.loads(sys.argv[1])
    d = tempfile.mkdtemp(prefix="verif-c18-")
    os.environ.setdefault("LC_CTYPE", "C.UTF-8")
    rc = 0
    try:
        rep = {"fds": scn_fds, "env": scn_env, "exit": scn_exit, "main": scn_main}[sc["kind"]](sc, d)
        print("REPORT " + json.dumps(rep, sort_keys=True))
    except ScnInfra as e:
        print("INFRA " + str(e), file=sys.stderr)
        rc = 3
    except Exception as e:      # noqa: BLE001  -- the code under test raised: an observation, reported as such
        import traceback
        print("REPORT " + json.dumps({"crash": type(e).__name__ + ": " + str(e)[:200],
                                      "where": traceback.format_exc()[-700:]}))
    finally:
        shutil.rmtree(d, ignore_errors=True)
    sys.stdout.flush()
    sys.stderr.flush()
    os._exit(rc)


if __name__ == "__main__":
    main()
