"""C01 — executor-protocol property: Lean theorems over M1 + E1 (real code under the deterministic scheduler,
in lock-step with M1, judged by the oracles of harness/simengine/monitors.py); the reusable executor's histories
(resizes, replacements, shutdown with more workers than call-queue slots) are a second part."""
from ..composite import Composite
from ..e1 import E1Part, ReusePart

E1 = E1Part("C01", [("mixed",3),("crash",2),("contain",1),("kill",1),("init",1),("leak",1),("break",1),("graceful",1),("timeouts",2),("respawn",2),("callback",2),("cancelshut",1)], ["C01"], ["LokyModel.Props.C01", "LokyModel.Props.C01Live", "LokyModel.Props.C01Term"], quick=1600, thorough=40000, starve=0)
REUSE = ReusePart("C01", ["C01", "C03"], [], quick=400, thorough=12000, families=[("reusebig", 2), ("reuse", 1), ("reusecb", 1), ("reusecancel", 1), ("reusecbsub", 1), ("reusebigcrash", 1), ("reuseput", 1)])
PROP = Composite("C01", [E1, REUSE])
