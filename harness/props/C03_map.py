"""C03, part "map" — executor.map(fn, *iterables, chunksize=c) == builtin map (E2, model M2).

The real `_get_chunks`, `_process_chunk`, `_chain_from_iterable_of_lists` are called directly, and
the real `ProcessPoolExecutor.map` is run on an executor whose `submit` is a synchronous fake that
returns an already completed future (so `map`'s argument check, `_get_chunks`, `Executor.map`'s
result iterator and `_chain_from_iterable_of_lists` are the real ones, and no process exists).
Oracle: the builtin `map`.
"""
import collections
import itertools
from concurrent.futures import Future

from .. import common as C
from ..e2 import E2Prop


def _pe():
    import loky.process_executor as m
    return m


# ------------------------------------------------------------------ the mapped functions

class ExcA(Exception):
    pass


class ExcB(KeyError):
    pass


EXCS = {"ValueError": ValueError, "KeyError": KeyError, "ZeroDivisionError": ZeroDivisionError,
        "ExcA": ExcA, "ExcB": ExcB, "LookupError": LookupError}

WRAPS = ("int", "str", "tup")


def wrap(kind, a):
    return a if kind == "int" else str(a) if kind == "str" else (a, "x")


def unwrap(x):
    if type(x) is int:
        return x
    if type(x) is str:
        return int(x)
    return x[0]


def make_fn(spec):
    k, b, m, r, exc = spec["k"], spec["b"], spec["m"], spec["r"], EXCS[spec["exc"]]

    def fn(*args):
        s = 0
        for i, a in enumerate(args):
            s += (i + 1) * unwrap(a)
        if m > 0 and s % m == r:
            raise exc(s)
        return k * s + b
    return fn


# ------------------------------------------------------------------ the iterables

class _Iterable:
    def __init__(self, xs):
        self.xs = xs

    def __iter__(self):
        return iter(self.xs)


class _GetItem:
    """old-style sequence: iterable through __getitem__ / IndexError only"""

    def __init__(self, xs):
        self.xs = xs

    def __getitem__(self, i):
        return self.xs[i]


def _gen(xs):
    for x in xs:
        yield x


KINDS = {
    "list": list,
    "tuple": tuple,
    "gen": _gen,
    "iter": lambda xs: iter(list(xs)),
    "deque": collections.deque,
    "iterable": lambda xs: _Iterable(list(xs)),
    "getitem": lambda xs: _GetItem(list(xs)),
    "dictkeys": lambda xs: dict.fromkeys(xs) if len(set(map(repr, xs))) == len(xs) else list(xs),
}


def build(case):
    """fresh iterables of the case (generators are single-use)"""
    if case.get("share") and case["its"]:
        # ONE iterator passed at every position (the grouper idiom map(f, it, it)): zip() pairs consecutive
        # items, so the effective columns are case["its"]; `extra` items that cannot fill a row are discarded
        cols = [[wrap(w, a) for a in xs] for xs, w in zip(case["its"], case["wraps"])]
        n = min(len(c) for c in cols)
        seq = [cols[j][i] for i in range(n) for j in range(len(cols))] + list(range(case.get("extra", 0)))
        it = iter(seq)
        return [it] * len(cols)
    return [KINDS[k]([wrap(w, a) for a in xs]) for xs, k, w in zip(case["its"], case["kinds"], case["wraps"])]


# ------------------------------------------------------------------ the real code

_SYNC = []


class Runaway(BaseException):
    """the code under test produces (far) more than the input can justify: stop it"""


def bound(case):
    return max((len(x) for x in case["its"]), default=0) + 4


def bounded(gen, limit):
    out = list(itertools.islice(gen, limit + 1))
    if len(out) > limit:
        raise Runaway()
    return out


def sync_executor(limit):
    """a ProcessPoolExecutor (the real class's `map`) whose submit runs the call at once"""
    if not _SYNC or _SYNC[0][0] is not _pe():
        m = _pe()

        class SyncExecutor(m.ProcessPoolExecutor):
            def __init__(self, limit):   # no queues, no processes
                self.submitted = 0
                self.limit = limit

            def submit(self, fn, *args, **kwargs):
                self.submitted += 1
                if self.submitted > self.limit:
                    raise Runaway()
                f = Future()
                try:
                    r = fn(*args, **kwargs)
                except BaseException as e:
                    f.set_exception(e)
                else:
                    f.set_result(r)
                return f
        _SYNC[:] = [(m, SyncExecutor)]
    return _SYNC[0][1](limit)


def show(vals):
    return ",".join(str(v) for v in vals) if vals else "-"


def show_exc(e):
    a = e.args[0] if len(e.args) == 1 else e.args
    return f"{type(e).__name__} {a}"


def real_chunks(case):
    m = _pe()
    try:
        chunks = bounded(m._get_chunks(case["c"], *build(case)), bound(case))
    except ValueError:
        return "ValueError", None
    except Runaway:
        return "runaway", None
    if not chunks:
        return "-", chunks
    return "|".join(";".join(",".join(str(unwrap(a)) for a in row) for row in ch) for ch in chunks), chunks


def real_process(case, fn):
    m = _pe()
    try:
        chunks = bounded(m._get_chunks(case["c"], *build(case)), bound(case))
    except ValueError:
        return "ValueError"
    except Runaway:
        return "runaway"
    out = []
    for ch in chunks:
        try:
            r = m._process_chunk(fn, ch)
        except Exception as e:
            out.append("raise:" + show_exc(e).replace(" ", ":"))
        else:
            out.append("ok:" + show(r) if type(r) is list else "not-a-list")
    return "|".join(out) if out else "-"


def real_chain(case):
    m = _pe()
    lists = [list(xs) for xs in case["its"]]
    kind = case["kinds"][0] if case["kinds"] else "list"
    outer = _gen(lists) if kind in ("gen", "iter") else lists
    try:
        return show(bounded(m._chain_from_iterable_of_lists(outer), sum(len(x) for x in lists) + 4))
    except Runaway:
        return "runaway"


def real_map(case, fn):
    ex = sync_executor(bound(case))
    kw = {}
    if case["c"] is not None and not case.get("default_c"):
        kw["chunksize"] = case["c"]
    if case.get("tmo"):
        kw["timeout"] = 3600
    try:
        it = ex.map(fn, *build(case), **kw)
    except ValueError:
        return "ValueError"
    except Runaway:
        return "runaway"
    vals = []
    while True:
        if len(vals) > bound(case):
            return "runaway"
        try:
            vals.append(next(it))
        except Runaway:
            return "runaway"
        except StopIteration:
            return "ok " + show(vals)
        except Exception as e:
            return f"raise {show_exc(e)} after {show(vals)}"


def builtin_reference(case, fn, its=None):
    """(values yielded by the builtin map before it stops, the exception that stopped it or None)"""
    vals = []
    it = map(fn, *(build(case) if its is None else its))
    while True:
        try:
            vals.append(next(it))
        except StopIteration:
            return vals, None
        except Exception as e:
            return vals, e


# ------------------------------------------------------------------ the part

class MapPart(E2Prop):
    id = "C03"
    name = "map"
    lean_modules = ["LokyModel.Props.C03Map", "LokyModel.Props.C03MapMore"]
    driver = "chunks_driver"
    n_cases = {"quick": 20000, "thorough": 1000000}
    search_cases = {"quick": 20000, "thorough": 200000}
    block = 100000
    rule = ("cases = (chunksize, fn, 1-6 iterables of unequal lengths incl. empty, as list/tuple/generator/iterator/deque/"
            "custom iterable/__getitem__ sequence, items int/str/tuple); min length = q*c + {-1,0,1}, c from 1 to > len, "
            "also c < 1 and huge; fn raises on chosen items (first/last of a chunk, first/last item) in ~45% of the cases. "
            "Per case: real _get_chunks, _process_chunk per chunk, _chain_from_iterable_of_lists, and the real "
            "ProcessPoolExecutor.map over a synchronous submit, vs the compiled model; oracle = builtin map. "
            "Non-trivial = at least two chunks, or fn raises, or chunksize rejected. Distinct by full input.")
    assumptions = [
        "Executor.map's contract (one submit per chunk, results yielded in submission order, a failed future re-raises its "
        "exception) is exercised here with a synchronous submit; that loky's real submit/futures deliver exactly the result "
        "of _process_chunk for each chunk is the executor-protocol part of C03",
        "at least one iterable (builtin map(fn) raises TypeError, executor.map(fn) yields nothing); iterables do not raise while iterated; "
        "fn does not raise StopIteration (the builtin map then stops silently, any generator-based map raises RuntimeError by PEP 479)",
        "when fn raises at item k the exception surfaces after the floor(k/c)*c items of the preceding complete chunks "
        "(items of the failing chunk before k are not delivered: the chunk is one task)",
    ]

    # ---- cases
    @staticmethod
    def mk(c, its, fn=None, kinds=None, wraps=None, tmo=False, default_c=False):
        fn = dict({"k": 1, "b": 0, "m": 0, "r": 0, "exc": "ValueError"}, **(fn or {}))
        return {"c": c, "fn": fn, "its": [list(x) for x in its],
                "kinds": list(kinds) if kinds else ["list"] * len(its),
                "wraps": list(wraps) if wraps else ["int"] * len(its), "tmo": tmo, "default_c": default_c}

    def corpus(self):
        cs = []
        big = 10**6 + 3
        for c in (1, 2, 3, 5):
            for n in (0, 1, 4, 5):
                for extra in (0, 1):
                    case = self.mk(c, [list(range(0, 2 * n, 2)), list(range(1, 2 * n + 1, 2))], kinds=["iter", "iter"])
                    case["share"], case["extra"] = True, extra
                    cs.append(case)
        for n in range(0, 9):
            for c in range(1, 11):
                cs.append(self.mk(c, [range(n)]))
                cs.append(self.mk(c, [range(n), range(10, 10 + n + 2)], kinds=["gen", "list"]))
        for c in (0, -1, -7, 2**62):
            for n in (0, 1, 5):
                cs.append(self.mk(c, [range(n)]))
        cs.append(self.mk(3, [[], [1, 2, 3]]))
        cs.append(self.mk(3, [[1, 2, 3], []]))
        cs.append(self.mk(2, [[1, 2, 3, 4, 5], [1, 2, 3], [1, 2, 3, 4]], kinds=["gen", "iter", "getitem"]))
        cs.append(self.mk(1, [range(5)], default_c=True))
        cs.append(self.mk(4, [range(9)], tmo=True))
        cs.append(self.mk(3, [range(7), range(7)], wraps=["str", "tup"], kinds=["deque", "iterable"]))
        cs.append(self.mk(2, [[3, 1, 2], [5, 4, 6]], kinds=["dictkeys", "tuple"]))
        # fn raises at every position of a 7-item input, for chunk sizes around the divisors
        for c in (1, 2, 3, 4, 6, 7, 8):
            for j in range(7):
                for exc in ("ValueError", "ExcB"):
                    cs.append(self.mk(c, [range(20, 27)], fn={"m": big, "r": 20 + j, "exc": exc, "k": 3, "b": -1}))
        # several raising items: the first one decides
        cs.append(self.mk(3, [range(12)], fn={"m": 4, "r": 1, "exc": "KeyError"}))
        cs.append(self.mk(5, [range(12), range(12)], fn={"m": 2, "r": 0, "exc": "ZeroDivisionError"}))
        cs.append(self.mk(2, [range(6)], fn={"m": big, "r": 3, "exc": "LookupError"}))
        cs.append(self.mk(2, [[-5, -4, 7, 0, 3]], fn={"m": 7, "r": 3, "exc": "ExcA", "k": -2, "b": 5}))
        return cs

    def gen(self, rng, i):
        r = rng.random
        # chunk size and the length of the shortest iterable, tied together
        c = rng.choice([1, 1, 2, 2, 3, 4, 5, 7, 8, 10, 16, rng.randint(1, 40)])
        q = rng.choice([0, 1, 1, 2, 2, 3, 4, rng.randint(0, 12)])
        L = max(0, q * c + rng.choice([-1, 0, 0, 1, rng.randint(-2, 2)]))
        if r() < 0.15:
            L = rng.randint(0, 30)
            c = rng.choice([L + 1, L, max(1, L - 1), 2 * L + 1, max(1, L // 2), rng.randint(1, 50)])
        if L > 120:
            L = 120
        x = r()
        if x < 0.04:
            c = rng.choice([0, -1, -rng.randint(1, 100), -2**63])
        elif x < 0.06:
            c = rng.choice([10**9, 2**31, 2**62, 2**63 - 1])
        n = rng.choice([1, 1, 1, 2, 2, 2, 3, 3, 4, 5, 6])
        short = rng.randrange(n)
        lens = [L if j == short else L + rng.choice([0, 0, 1, 2, rng.randint(0, 20)]) for j in range(n)]
        if r() < 0.03:
            lens[rng.randrange(n)] = 0
        lo, hi = rng.choice([(0, 9), (-5, 50), (-1000, 1000), (0, 1)])
        its = [[rng.randint(lo, hi) for _ in range(m)] for m in lens]
        kinds = [rng.choice(["list", "list", "tuple", "gen", "gen", "iter", "deque", "iterable", "getitem", "dictkeys"])
                 for _ in range(n)]
        wraps = [rng.choice(["int", "int", "int", "str", "tup"]) for _ in range(n)]
        fn = {"k": rng.choice([1, 1, 2, -3, 10]), "b": rng.choice([0, 0, 1, -7]), "m": 0, "r": 0,
              "exc": rng.choice(list(EXCS) if r() < 0.9 else ["ValueError"])}
        Lmin = min(lens)
        x = r()
        if x < 0.30 and Lmin > 0:
            # exactly the items whose weighted sum equals that of row j raise
            cc = max(1, c if c < 10**6 else 1)
            j = rng.choice([0, Lmin - 1, min(Lmin - 1, cc - 1), min(Lmin - 1, cc), min(Lmin - 1, cc + 1),
                            (Lmin - 1) // cc * cc, max(0, (Lmin - 1) // cc * cc - 1), rng.randrange(Lmin)])
            s = sum((t + 1) * its[t][j] for t in range(n))
            fn["m"] = 10**7 + 19
            fn["r"] = s % fn["m"]
        elif x < 0.45:
            fn["m"] = rng.choice([2, 3, 5, 7, 11, 13, 50])
            fn["r"] = rng.randrange(fn["m"])
        case = self.mk(c, its, fn, kinds, wraps, tmo=r() < 0.1, default_c=(c == 1 and r() < 0.3))
        if 2 <= len(its) <= 3 and r() < 0.08:
            n = min(len(x) for x in its)
            case["its"] = [list(x[:n]) for x in its]
            case["kinds"] = ["iter"] * len(its)
            case["share"] = True
            case["extra"] = rng.randrange(len(its))
        return case

    # ---- model side
    @staticmethod
    def _lists(case):
        return " ".join(",".join(map(str, xs)) if xs else "-" for xs in case["its"])

    def model_lines(self, case):
        f = case["fn"]
        fn = f"{f['k']} {f['b']} {f['m']} {f['r']} {f['exc']}"
        ls = self._lists(case)
        c = case["c"]
        return [f"chunks {c} {ls}".rstrip(),
                f"process {fn} {c} {ls}".rstrip(),
                f"chain {ls}".rstrip(),
                f"map {fn} {c} {ls}".rstrip()]

    # ---- implementation side
    def impl(self, case):
        fn = make_fn(case["fn"])
        out = []
        for f in (lambda: real_chunks(case)[0], lambda: real_process(case, fn), lambda: real_chain(case),
                  lambda: real_map(case, fn)):
            try:
                out.append(f())
            except Exception as e:      # the code under test failed in a way no case provides for
                out.append("EXC-" + type(e).__name__)
        return out

    # ---- the statement of C03 (map clause), independent of the Lean model
    def oracle(self, case, out):
        if len(out) != 4:
            return f"harness: {out}"
        chunks_s, proc_s, chain_s, map_s = out
        c = case["c"]
        fn = make_fn(case["fn"])
        vals, exc = builtin_reference(case, fn)
        # -- map
        if c < 1:
            if map_s != "ValueError":
                return f"chunksize={c} accepted: {map_s[:80]}"
        else:
            if exc is None:
                want = "ok " + show(vals)
                if map_s != want:
                    return (f"map(fn, *iterables, chunksize={c}) gives '{map_s[:120]}', "
                            f"list(map(fn, *iterables)) is '{show(vals)[:120]}'")
            else:
                k = len(vals)
                want = f"raise {show_exc(exc)} after {show(vals[:k // c * c])}"
                if map_s != want:
                    return (f"builtin map raises {show_exc(exc)} at item {k}; executor.map(chunksize={c}) must raise it "
                            f"after the {k // c * c} items of the preceding chunks, observed '{map_s[:120]}'")
        # -- chain == itertools.chain.from_iterable
        flat = [a for xs in case["its"] for a in xs]
        if chain_s != show(flat) or chain_s == "runaway":
            return f"_chain_from_iterable_of_lists({case['its']}) yields {chain_s[:100]}"
        if c < 1:
            return None
        # -- chunks: concatenation = zip, none empty, all but the last of size c
        rows = list(zip(*case["its"]))
        if chunks_s in ("ValueError", "runaway") or chunks_s.startswith("EXC-"):
            return f"_get_chunks({c}, ...) -> {chunks_s}"
        chunks = [] if chunks_s == "-" else [[tuple(int(a) for a in row.split(",")) for row in (ch.split(";") if ch else [])]
                                             for ch in chunks_s.split("|")]
        for j, ch in enumerate(chunks):
            if not ch:
                return f"_get_chunks produced an empty chunk (chunk {j} of {len(chunks)})"
        if [row for ch in chunks for row in ch] != rows:
            return f"concatenation of the chunks differs from zip(*iterables): {chunks_s[:120]}"
        for j, ch in enumerate(chunks):
            if len(ch) > c or (j + 1 < len(chunks) and len(ch) != c):
                return f"chunk {j} has {len(ch)} rows (chunksize {c}, {len(chunks)} chunks)"
        # -- process: every chunk processed like the builtin map on its rows
        want = []
        for ch in chunks:
            v, e = builtin_reference(case, fn, its=list(zip(*ch)) or [[]])
            want.append("ok:" + show(v) if e is None else "raise:" + show_exc(e).replace(" ", ":"))
        want = "|".join(want) if want else "-"
        if proc_s != want:
            return f"_process_chunk over the chunks gives {proc_s[:120]}, expected {want[:120]}"
        return None

    def nontrivial(self, case, out):
        if len(out) != 4:
            return True
        return out[3] == "ValueError" or out[3].startswith("raise") or "|" in out[0]

    def classify(self, case, out):
        if len(out) != 4:
            return ["harness-exc"]
        c = case["c"]
        L = min(len(x) for x in case["its"])
        ks = [f"arity={len(case['its'])}"]
        if c < 1:
            ks.append("c<1")
        else:
            ks.append("c=1" if c == 1 else "c<len" if c < L else "c=len" if c == L else "c>len")
            if L:
                m = L % c
                ks.append("len%c=" + ("0" if m == 0 else "1" if m == 1 else "c-1" if m == c - 1 else "other"))
            else:
                ks.append("len=0")
        ks.append("map=" + out[3].split(" ")[0])
        if out[3].startswith("raise") and c >= 1 and " after " in out[3]:
            vals = out[3].split(" after ")[1]
            ks.append("raise-in-chunk=" + ("first" if vals == "-" else "later"))
        if len(set(len(x) for x in case["its"])) > 1:
            ks.append("unequal-lengths")
        for k in set(case["kinds"]):
            ks.append("kind=" + k)
        return ks

    def shrink_candidates(self, case):
        its = case["its"]
        n = len(its)

        def sub(**kw):
            return dict(case, **kw)
        if n > 1:
            for j in range(n):
                yield sub(its=its[:j] + its[j + 1:], kinds=case["kinds"][:j] + case["kinds"][j + 1:],
                          wraps=case["wraps"][:j] + case["wraps"][j + 1:])
        L = max((len(x) for x in its), default=0)
        if L:
            yield sub(its=[x[:len(x) // 2] for x in its])
            yield sub(its=[x[:-1] for x in its])
            yield sub(its=[x[1:] for x in its])
            for j in range(n):
                if its[j]:
                    yield sub(its=its[:j] + [its[j][:-1]] + its[j + 1:])
        if any(k != "list" for k in case["kinds"]):
            yield sub(kinds=["list"] * n)
        if any(w != "int" for w in case["wraps"]):
            yield sub(wraps=["int"] * n)
        if case["fn"]["m"]:
            yield sub(fn=dict(case["fn"], m=0))
        if (case["fn"]["k"], case["fn"]["b"]) != (1, 0):
            yield sub(fn=dict(case["fn"], k=1, b=0))
        if case["fn"]["exc"] != "ValueError":
            yield sub(fn=dict(case["fn"], exc="ValueError"))
        if case["tmo"]:
            yield sub(tmo=False)
        if case["default_c"]:
            yield sub(default_c=False)
        c = case["c"]
        if c > 1:
            for d in (c // 2, c - 1):
                if d >= 1 and d != c:
                    yield sub(c=d)
        if any(a not in (0, 1, 2, 3) for x in its for a in x) and not case["fn"]["m"]:
            yield sub(its=[[t % 4 for t in range(len(x))] for x in its])

    # ---- bounded memory for the 10^6-case tier: generate and evaluate block by block
    def correspondence(self, ctx, corr):
        corr.rule = self.rule
        corpus = list(self.corpus())
        n = self.n_cases[ctx.tier]
        rng = C.rng_for(ctx.seed, self.id, self.name, "gen")
        corr.extra["corpus_cases"] = len(corpus)
        done, first = 0, True
        while first or done < n:
            k = min(self.block, n - done)
            cases = (corpus if first else []) + [self.gen(rng, done + i) for i in range(k)]
            impl, model = self.evaluate(cases, corr)
            if first:
                for j in [0, len(cases) // 3, 2 * len(cases) // 3, len(cases) - 1]:
                    corr.samples.append({"input": cases[j], "impl": impl[j][0],
                                         "model": None if model is None else model[j]})
            done += k
            first = False
            if len(corr.failures) > 50 or len(corr.disagreements) > 5000:
                break
        corr.failures = [self.shrink(f, "oracle") for f in corr.failures[:3]] + corr.failures[3:]
        corr.disagreements.sort(key=lambda d: len(str(d["input"])))


PART = MapPart()
