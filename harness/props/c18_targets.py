"""Targets executed inside real LokyProcess children for the C18 spawn scenarios.
Must stay importable without side effects other than the environment snapshot below."""
import json
import os
import signal
import time

# taken when this *user module* is first imported in the child: the env overlay must already be in place
ENV_AT_IMPORT = dict(os.environ)


def _fds():
    d = {}
    for n in os.listdir("/proc/self/fd"):
        try:
            d[n] = os.readlink("/proc/self/fd/" + n)
        except OSError:
            pass            # the directory handle of the listing itself
    return d


def _write(out, obj):
    tmp = out + ".tmp"
    with open(tmp, "w") as f:
        json.dump(obj, f)
    os.replace(tmp, out)


def report(out, *passed):
    """descriptor listing (link targets) and environment of this child"""
    _write(out, {"pid": os.getpid(), "fds": _fds(), "env": dict(os.environ), "env_at_import": ENV_AT_IMPORT,
                 "passed": [getattr(c, "fileno", lambda: None)() for c in passed]})


def noop(*a):
    return None


def _wait_go(go, ready):
    if ready:
        _write(ready, {"pid": os.getpid()})
    if go:
        t0 = time.time()
        while not os.path.exists(go) and time.time() - t0 < 300:
            time.sleep(0.005)


def exit_with(n, go=None, ready=None):
    _wait_go(go, ready)
    os._exit(n)


def sys_exit_with(n, go=None, ready=None):
    _wait_go(go, ready)
    raise SystemExit(n)


def kill_self(sig, go=None, ready=None):
    import resource
    resource.setrlimit(resource.RLIMIT_CORE, (0, 0))
    _wait_go(go, ready)
    try:
        signal.signal(sig, signal.SIG_DFL)
    except (OSError, ValueError):
        pass            # SIGKILL / SIGSTOP cannot be (and need not be) reset
    try:
        signal.pthread_sigmask(signal.SIG_UNBLOCK, [sig])
    except (ValueError, OSError):
        pass
    os.kill(os.getpid(), sig)
    time.sleep(60)
    os._exit(99)        # the signal did not terminate us
