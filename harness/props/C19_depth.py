"""C19, part "depth" — nesting depth bounded exactly at LOKY_MAX_DEPTH (E2, model M9).

The real `_check_max_depth`, the real constructor of `ProcessPoolExecutor`, the real
`_adjust_process_count` and the real `_process_worker` are run in this process with a fake
context (no OS process is ever started): `get_start_method()` is the case's start method,
`Lock`/`BoundedSemaphore` are the threading ones, `Process` records its arguments.  The module
globals `MAX_DEPTH` and `_CURRENT_DEPTH` are substituted for the duration of a call.
"""
import ast
import inspect
import json
import threading
import types
import warnings

from .. import common as C
from ..e2 import E2Prop

METHODS = ["loky", "loky_init_main", "spawn", "fork", "forkserver"]


def _pe():
    import loky.process_executor as m
    return m


# ------------------------------------------------------------------ fake environment

class _FakeProcess:
    _next_pid = [100000]

    def __init__(self, ctx, target, args, env):
        self.ctx, self.target, self.args, self.env = ctx, target, args, env
        self.name = "FakeProcess"
        self.pid = None
        self.sentinel = None

    def start(self):
        _FakeProcess._next_pid[0] += 1
        self.pid = _FakeProcess._next_pid[0]
        self.ctx.started.append(self)

    def is_alive(self):
        return True

    def join(self, timeout=None):
        return None


class _FakeCtx:
    """a multiprocessing context that cannot start anything"""

    def __init__(self, sm, accept_env):
        self.sm = sm
        self.accept_env = accept_env
        self.created = []        # every Process(...) object constructed
        self.started = []        # every Process on which start() was called
        self.prims = 0           # Lock / BoundedSemaphore objects handed out
        if accept_env:
            def Process(target=None, args=(), env=None):
                p = _FakeProcess(self, target, args, env)
                self.created.append(p)
                return p
        else:
            def Process(target=None, args=()):
                p = _FakeProcess(self, target, args, None)
                self.created.append(p)
                return p
        self.Process = Process

    def get_start_method(self, allow_none=False):
        return self.sm

    def Lock(self):
        self.prims += 1
        return threading.Lock()

    def RLock(self):
        self.prims += 1
        return threading.RLock()

    def BoundedSemaphore(self, value=1):
        self.prims += 1
        return threading.BoundedSemaphore(value)

    def Semaphore(self, value=1):
        self.prims += 1
        return threading.Semaphore(value)

    def Condition(self, lock=None):
        self.prims += 1
        return threading.Condition(lock)


class _Globals:
    """substitute MAX_DEPTH / _CURRENT_DEPTH of the real module, restore afterwards"""

    def __init__(self, max_depth, cur):
        self.v = (max_depth, cur)

    def __enter__(self):
        m = _pe()
        self.saved = (m.MAX_DEPTH, m._CURRENT_DEPTH)
        m.MAX_DEPTH, m._CURRENT_DEPTH = self.v
        return m

    def __exit__(self, *a):
        m = _pe()
        m.MAX_DEPTH, m._CURRENT_DEPTH = self.saved


def _err(m, e):
    """canonical name of an exception raised by the depth guard"""
    if type(e) is m.LokyRecursionError:
        return "LokyRecursionError " + ("fork" if "'fork' start method" in str(e) else "max")
    return "EXC-" + type(e).__name__


def _close_executor(ex):
    """release the pipes of an executor that never ran anything"""
    for name in ("_executor_manager_thread_wakeup", "_result_queue", "_call_queue"):
        o = getattr(ex, name, None)
        try:
            if o is not None:
                o.close()
        except Exception:
            pass
    try:
        ex._call_queue.join_thread()
    except Exception:
        pass


def real_check(sm, max_depth, cur):
    with _Globals(max_depth, cur) as m:
        ctx = types.SimpleNamespace(get_start_method=lambda: sm)
        try:
            m._check_max_depth(ctx)          # the return value (if any) is not part of the property
        except Exception as e:
            return _err(m, e)
        return "ok"


def real_create(sm, max_depth, cur, workers, accept_env):
    """construct a real ProcessPoolExecutor on the fake context and let it 'spawn' its workers.
    returns (canonical line, depth arguments given to the workers)"""
    with _Globals(max_depth, cur) as m:
        ctx = _FakeCtx(sm, accept_env)
        try:
            ex = m.ProcessPoolExecutor(max_workers=workers, context=ctx)
        except Exception as e:
            # raised by the constructor: nothing may exist yet
            extra = ""
            if ctx.created or ctx.started:
                extra = f" spawned={len(ctx.created)}"
            elif ctx.prims:
                extra = f" after-{ctx.prims}-primitives"
            return _err(m, e) + extra, []
        try:
            if ctx.created:
                return f"constructor-spawned={len(ctx.created)}", []
            try:
                ex._adjust_process_count()
            except Exception as e:
                return f"constructed-then-spawn-raised {_err(m, e)}", []
            depths = [p.args[-1] for p in ctx.created]
            ok = (len(ctx.created) == workers == len(ctx.started)
                  and all(p.target is m._process_worker and len(p.args) == 8 for p in ctx.created))
            if not ok:
                return f"spawn-shape created={len(ctx.created)} started={len(ctx.started)}", depths
            ds = sorted(set(map(repr, depths)))
            return "ok " + ",".join(ds), depths
        finally:
            _close_executor(ex)


class _SentinelQueue:
    """call queue that hands the worker its shutdown sentinel at once"""

    def __init__(self):
        self.put_log = []

    def get(self, block=True, timeout=None):
        return None

    def put(self, x):
        self.put_log.append(x)


class _ExitLock:
    def acquire(self, *a, **k):
        return True

    def release(self):
        pass


def real_worker_depth(depth_arg):
    """run the real `_process_worker` body (as a worker that receives the shutdown sentinel
    immediately) on a *copy* of the module globals and report the `_CURRENT_DEPTH` it ends with"""
    m = _pe()
    g = dict(m.__dict__)
    g["_python_exit"] = lambda: None
    g["_enable_faulthandler_if_needed"] = lambda: None
    g["_CURRENT_DEPTH"] = "unset"
    w = types.FunctionType(m._process_worker.__code__, g, "_process_worker",
                           m._process_worker.__defaults__, m._process_worker.__closure__)
    w(_SentinelQueue(), _SentinelQueue(), None, (), threading.Lock(), None, _ExitLock(), depth_arg)
    return g["_CURRENT_DEPTH"]


def real_nest(max_depth, cur, sms):
    """a chain of nested creations through the real code: constructor, spawn, worker start-up"""
    d = cur
    for i, sm in enumerate(sms):
        line, depths = real_create(sm, max_depth, d, 1, accept_env=(i % 2 == 0))
        if not line.startswith("ok"):
            return f"{d} {line}"
        if len(depths) != 1:
            return f"{d} spawned-{len(depths)}"
        d = real_worker_depth(depths[0])
        if type(d) is not int:
            return f"worker-depth-{d!r}"
    return f"{d} ok"


def _depth_index(m):
    """position of `current_depth` among the arguments of the real `_process_worker`"""
    try:
        return list(inspect.signature(m._process_worker).parameters).index("current_depth")
    except ValueError:
        return -1


def real_life(sm, max_depth, d0, workers, ops, accept_env):
    """one executor object through its life in a process whose depth global changes.

    The real (reusable) executor is constructed on the process-less context while `_CURRENT_DEPTH == d0`;
    then, op by op: `["d", n]` the process assigns `_CURRENT_DEPTH = n` (what `_process_worker` does at
    start-up, after the initializer); `["e"]` the spawn of the first submit (`_ensure_executor_running`,
    the manager thread is not started); `["r", n]` the real `_resize(n)` (surplus workers have left
    beforehand); `["x", k]` k workers leave and the manager's respawn (`_adjust_process_count` under the
    management lock).  Observed: the `current_depth` argument of every process spawned by each op."""
    from loky.reusable_executor import _ReusablePoolExecutor
    with _Globals(max_depth, d0) as m:
        ctx = _FakeCtx(sm, accept_env)
        try:
            ex = _ReusablePoolExecutor(threading.RLock(), max_workers=workers, context=ctx)
        except Exception as e:
            return _err(m, e) + (f" spawned={len(ctx.created)}" if ctx.created else "")
        idx = _depth_index(m)
        started = [False]

        def fake_manager():
            started[0] = True
            if ex._executor_manager_thread is None:
                ex._executor_manager_thread = types.SimpleNamespace(is_alive=lambda: True, join=lambda *a: None)
        ex._start_executor_manager_thread = fake_manager
        try:
            batches = []
            for op in ops:
                n0 = len(ctx.created)
                try:
                    bad = _life_op(m, ex, op, started)
                except Exception as e:
                    return f"constructed-then-{op[0]}-raised {_err(m, e)}"
                if bad:
                    return bad
                new = ctx.created[n0:]
                if any(p.target is not m._process_worker or p not in ctx.started for p in new):
                    return "spawn-shape"
                batches.append(",".join(repr(p.args[idx]) for p in new) or "-")
            return "ok " + (";".join(batches) or ".")
        finally:
            ex._executor_manager_thread = None
            _close_executor(ex)


def _life_op(m, ex, op, started):
    """one event of the life of executor `ex` (see `real_life`); returns an error line or None"""
    k = op[0]
    if k == "d":
        m._CURRENT_DEPTH = op[1]
    elif k == "e":
        ex._ensure_executor_running()
    elif k == "r":
        if started[0]:
            for pid in sorted(ex._processes)[op[1]:]:
                ex._processes.pop(pid)
        with warnings.catch_warnings():
            warnings.simplefilter("ignore")
            ex._resize(op[1])
    elif k == "x":
        if started[0]:
            for pid in sorted(ex._processes)[:op[1]]:
                ex._processes.pop(pid)
            # as the executor manager thread does it: from another thread, under the management lock
            err = []

            def respawn():
                try:
                    with ex._processes_management_lock:
                        ex._adjust_process_count()
                except Exception as e:  # noqa: BLE001
                    err.append(e)
            t = threading.Thread(target=respawn)
            t.start()
            t.join()
            if err:
                raise err[0]
    else:
        return "bad-op"
    return None


def real_startup(fresh, depth_arg):
    """the real `_process_worker` on a copy of the module globals in which `_CURRENT_DEPTH == fresh` (0 in
    a new interpreter): the value of the global while the initializer runs, and after start-up"""
    m = _pe()
    g = dict(m.__dict__)
    g["_python_exit"] = lambda: None
    g["_enable_faulthandler_if_needed"] = lambda: None
    g["_CURRENT_DEPTH"] = fresh
    seen = []
    w = types.FunctionType(m._process_worker.__code__, g, "_process_worker",
                           m._process_worker.__defaults__, m._process_worker.__closure__)
    w(_SentinelQueue(), _SentinelQueue(), lambda: seen.append(g["_CURRENT_DEPTH"]), (), threading.Lock(), None,
      _ExitLock(), depth_arg)
    return f"{seen[0] if seen else 'initializer-not-run'} {g['_CURRENT_DEPTH']}"


_ENV_CODE = []


def real_env(value):
    """evaluate the module-level statement `MAX_DEPTH = ...` of the real source with a fake os.environ"""
    if not _ENV_CODE:
        m = _pe()
        tree = ast.parse(inspect.getsource(m))
        stmts = [n for n in tree.body if isinstance(n, ast.Assign)
                 and any(isinstance(t, ast.Name) and t.id == "MAX_DEPTH" for t in n.targets)]
        if len(stmts) != 1:
            _ENV_CODE.append(None)
        else:
            _ENV_CODE.append(compile(ast.Module(body=stmts, type_ignores=[]), "<MAX_DEPTH>", "exec"))
    code = _ENV_CODE[0]
    if code is None:
        return "no-unique-MAX_DEPTH-assignment"
    env = {} if value is None else {"LOKY_MAX_DEPTH": value}
    g = {"os": types.SimpleNamespace(environ=env), "__builtins__": __builtins__}
    try:
        exec(code, g)
    except ValueError:
        return "ValueError"
    except Exception as e:
        return "EXC-" + type(e).__name__
    v = g.get("MAX_DEPTH")
    return str(v) if type(v) is int else f"non-int-{v!r}"


def parse_int(s):
    try:
        return int(s)
    except ValueError:
        return None


# ------------------------------------------------------------------ the part

class DepthPart(E2Prop):
    id = "C19"
    name = "depth"
    lean_modules = ["LokyModel.Props.C19Depth"]
    driver = "depth_driver"
    n_cases = {"quick": 6000, "thorough": 150000}
    search_cases = {"quick": 6000, "thorough": 60000}
    rule = ("cases = (MAX_DEPTH, depth, start method, #workers, env string, chain of start methods, life of one executor); "
            "corpus = the full grid MAX -3..12 x depth 0..14 x {loky, loky_init_main, spawn, fork, forkserver} + env strings + "
            "chains to limit+1 + lives (constructed while the depth global is 0 / the own depth / another value, the global "
            "assigned before or after the first spawn, then first submit / resize up, down, same / respawn after time-outs); "
            "generated = boundary-biased (depth = MAX-1, MAX, MAX+1; 0; huge) values and random lives of 0-7 events. Per case "
            "the real _check_max_depth (raises or not: a return value is not judged), the real constructor + "
            "_adjust_process_count on a process-less context, the real MAX_DEPTH assignment, a chain through "
            "constructor/spawn/_process_worker, and one real reusable executor driven through its life "
            "(_ensure_executor_running, _resize, _adjust_process_count) while the module global _CURRENT_DEPTH is reassigned, "
            "recording the current_depth argument of every spawned process. Non-trivial = the guard raises, or depth >= 1, "
            "or a chain of >= 2 levels, or a life whose depth global changes before a spawn. Distinct by full input.")
    assumptions = [
        "the depth guard is exercised in-process on a context that cannot start processes (threading locks, recording Process); "
        "that real workers receive and keep the shipped depth across reuse/respawn/resize is the executor-protocol part's claim",
        "LOKY_MAX_DEPTH is read once at import; the harness classifies a string as int/malformed with Python's int()",
        "MAX_DEPTH is the same in the whole process tree (environment inherited)",
    ]

    # ---- cases
    @staticmethod
    def mk(mx, d, sm, workers=1, env="absent", chain=None, start=0, accept_env=True, life=None, startup=None):
        c = {"max": mx, "d": d, "sm": sm, "workers": workers, "env": env,
             "chain": list(chain) if chain is not None else [sm], "start": start, "accept_env": accept_env,
             "life": life if life is not None else {"d0": d, "ops": [["e"]]}}
        if startup is not None:
            c["startup"] = list(startup)
        return c

    # lives of one executor: what happens between its construction and its spawns
    LIVES = [
        lambda d, w: [["e"]],                                              # constructed and used at once
        lambda d, w: [["d", d], ["e"]],                                    # depth learnt before the first submit
        lambda d, w: [["d", d], ["e"], ["r", w + 2]],                      # ... workers added by a resize
        lambda d, w: [["d", d], ["e"], ["x", 1]],                          # ... respawn after an idle time-out
        lambda d, w: [["e"], ["d", d], ["x", w]],                          # spawned before, all respawned after
        lambda d, w: [["e"], ["d", d], ["r", w + 1], ["r", 1], ["r", w + 3]],
        lambda d, w: [["r", w + 1], ["d", d], ["e"]],                      # resized before it ever started
        lambda d, w: [["d", d], ["e"], ["r", w], ["x", 2], ["d", d + 1], ["x", 1]],
    ]

    def corpus(self):
        cs = []
        for mx in range(-3, 13):
            for d in range(0, 15):
                for sm in METHODS:
                    # the chain of the case: from the root, as many levels as MAX+1 (or d+1 if unlimited)
                    n = (mx + 1) if mx >= 1 else (d % 5) + 1
                    w = 1 + (d + mx) % 3
                    # the executor of the case's life is constructed before the process knows its depth (global
                    # still 0, e.g. inside a worker initializer), or at its own depth
                    d0 = 0 if (d + METHODS.index(sm)) % 2 == 0 else d
                    ops = self.LIVES[(d + 3 * mx + METHODS.index(sm)) % len(self.LIVES)](d, w)
                    cs.append(self.mk(mx, d, sm, workers=w, chain=[sm] * n,
                                      accept_env=(d + mx) % 2 == 0, life={"d0": d0, "ops": ops}))
        for env in ("absent", "0", "1", "10", "-1", "3", " 7 ", "+4", "1_0", "abc", "", "2.5", "0x10", "١٢", "10\n"):
            cs.append(self.mk(10, 0, "loky", env=env))
        # mixed chains: fork first then others, others then fork, other strings
        cs.append(self.mk(5, 0, "fork", chain=["fork", "loky", "loky"]))
        cs.append(self.mk(5, 0, "loky", chain=["loky", "fork", "loky"]))
        cs.append(self.mk(5, 0, "loky", chain=["loky", "spawn", "forkserver", "loky_init_main", "loky", "loky"]))
        cs.append(self.mk(0, 0, "spawn", chain=["spawn"] * 25))
        cs.append(self.mk(-7, 3, "spawn", chain=["spawn"] * 4, start=3))
        cs.append(self.mk(4, 2, "loky", chain=["loky"] * 4, start=2))
        cs.append(self.mk(4, 4, "loky", chain=["loky"], start=4))
        cs.append(self.mk(4, 7, "loky", chain=["loky"], start=7))
        for sm in ("Fork", "fork ", "FORK", "threading", "forkserver2"):
            cs.append(self.mk(3, 2, sm, chain=[sm] * 4))
        # every life shape, constructed at depth-global 0 / own depth / a larger stale value, for a few limits
        for mx in (1, 2, 3, 10, 0):
            for d in (0, 1, 2, 3, 9):
                for j, mkops in enumerate(self.LIVES):
                    for d0 in sorted({0, d, d + 2}):
                        cs.append(self.mk(mx, d, "loky" if j % 2 else "spawn", workers=1 + j % 3,
                                          life={"d0": d0, "ops": mkops(d, 1 + j % 3)}))
        cs.append(self.mk(10**9, 10**9 - 1, "loky", chain=["loky", "loky"], start=10**9 - 1))
        cs.append(self.mk(2**70, 2**70, "spawn", chain=["spawn"], start=2**70 - 1))
        return cs

    def gen(self, rng, i):
        r = rng.random()
        if r < 0.75:
            mx = rng.randint(-3, 14)
        elif r < 0.9:
            mx = rng.choice([rng.randint(15, 200), 10**6, 2**31, 2**63, 2**64 + 1, 10**30])
        else:
            mx = -rng.choice([1, 2, 10, 10**6, 2**63])
        base = mx if mx >= 1 else rng.randint(0, 20)
        d = max(0, rng.choice([0, 0, 1, base - 1, base, base + 1, base - 2, base + 2, rng.randint(0, 16),
                               base + rng.randint(0, 10**6)]))
        sm = rng.choice(METHODS + ["fork", "loky"] + (["Fork", "fork ", "dummy"] if rng.random() < 0.1 else []))
        workers = rng.choice([1, 1, 2, 3, 5])
        env = "absent" if rng.random() < 0.4 else rng.choice(
            [str(mx), str(rng.randint(-5, 30)), "0", "10", " 3", "+2", "1_000", "x", "", "1.0", "ten", str(10**25)])
        # chain: mostly one method throughout, sometimes mixed, length around the limit
        if mx >= 1 and mx <= 16:
            n = rng.choice([mx - 1, mx, mx + 1, mx + 2, rng.randint(0, mx + 3)])
        else:
            n = rng.randint(0, 12)
        n = max(0, n)
        start = 0 if rng.random() < 0.7 else max(0, min(d, base) - rng.randint(0, 3))
        if rng.random() < 0.6:
            nf = rng.choice([m for m in METHODS if m != "fork"])
            chain = [nf] * n
            if rng.random() < 0.2 and n:
                chain[rng.randrange(n)] = "fork"
        else:
            chain = [rng.choice(METHODS) for _ in range(n)]
        startup = None
        if self._startup_mode and rng.random() < 0.1:
            startup = [rng.choice([0, 0, 0, d]), d + 1]
        return self.mk(mx, d, sm, workers, env, chain, start, rng.random() < 0.5, life=self.gen_life(rng, mx, d, base),
                       startup=startup)

    @staticmethod
    def gen_life(rng, mx, d, base):
        """the life of one executor: value of the depth global at construction (0 = not known yet, the own depth,
        or anything else), then 0-7 events"""
        d0 = rng.choice([0, 0, d, d, max(0, base - 1), rng.randint(0, 12)])

        def depth():
            return max(0, rng.choice([d, d, d0, 0, 1, base - 1, base, base + 1, rng.randint(0, 15)]))
        ops = []
        for _ in range(rng.choice([0, 1, 2, 2, 3, 3, 4, 5, 7])):
            r = rng.random()
            if r < 0.3:
                ops.append(["d", depth()])
            elif r < 0.55:
                ops.append(["e"])
            elif r < 0.8:
                ops.append(["r", rng.randint(1, 5)])
            else:
                ops.append(["x", rng.randint(1, 3)])
        if rng.random() < 0.5 and not any(o[0] == "e" for o in ops):
            ops.insert(rng.randint(0, len(ops)), ["e"])
        return {"d0": d0, "ops": ops}

    # ---- the initializer's view of the depth (cases with a "startup" entry)
    # On the pinned tree `_process_worker` runs the initializer BEFORE it assigns `_CURRENT_DEPTH`: the oracle fails
    # on every such case (see `initializer_sees_stale_depth` in Props/C19Depth.lean).  The cases are generated only
    # when known_findings.json lists the defect (predicate "initializer_depth"): under "findings" the failures are
    # counted as runs of that finding, under "fixed" they are violations again.
    PREDICATE = "initializer_depth"
    _startup_mode = None

    @staticmethod
    def initializer_depth(case):
        """delimiting predicate: the case observes the depth global while the worker's initializer runs"""
        return "startup" in case

    def startup_cases(self):
        return [self.mk(mx, d, "loky", startup=[0, d + 1]) for mx in (2, 10, 0) for d in range(0, 4)]

    def _set_mode(self, ctx):
        self._startup_mode = None
        self._finding_id = None
        for kind in ("known", "fixed"):
            for f in getattr(ctx, kind, []):
                if f.get("predicate") == self.PREDICATE:
                    self._startup_mode, self._finding_id = kind, f["id"]
                    return

    def _split_known(self, failures, corr):
        keep = []
        for f in failures:
            if (self._startup_mode == "known" and self.initializer_depth(f["input"])
                    and str(f["what"]).startswith("[initializer-depth]")):
                corr.known_hits[self._finding_id] = corr.known_hits.get(self._finding_id, 0) + 1
            else:
                keep.append(f)
        return keep

    def correspondence(self, ctx, corr):
        self._set_mode(ctx)
        corr.rule = self.rule
        cases = list(self.corpus()) + (self.startup_cases() if self._startup_mode else [])
        ncorp = len(cases)
        rng = C.rng_for(ctx.seed, self.id, "gen")
        cases += [self.gen(rng, i) for i in range(self.n_cases[ctx.tier])]
        impl, model = self.evaluate(cases, corr)
        corr.extra["corpus_cases"] = ncorp
        for j in [0, len(cases) // 3, 2 * len(cases) // 3, len(cases) - 1]:
            corr.samples.append({"input": cases[j], "impl": impl[j][0], "model": None if model is None else model[j]})
        corr.failures = self._split_known(corr.failures, corr)
        corr.failures = [self.shrink(f, "oracle") for f in corr.failures[:3]] + corr.failures[3:]
        corr.disagreements.sort(key=lambda d: len(json.dumps(d["input"])))

    def search(self, ctx, corr, broken):
        self._set_mode(ctx)
        cands = [d["input"] for d in corr.disagreements[:200]]
        extra = []
        for c in cands:
            extra += list(self.shrink_candidates(c))[:20]
        rng = C.rng_for(ctx.seed, self.id, "search")
        more = [self.gen(rng, i) for i in range(self.search_cases[ctx.tier])]
        c2 = C.Corr()
        self.evaluate(cands + extra + more, c2, with_model=False)
        corr.extra["search_cases"] = c2.evaluations
        fails = self._split_known(c2.failures, corr)
        return self.shrink(fails[0], "oracle") if fails else None

    # ---- model side
    @staticmethod
    def _envtok(env):
        if env == "absent":
            return "absent"
        v = parse_int(env)
        return "bad" if v is None else str(v)

    @staticmethod
    def _smtok(sm):
        return sm if sm in METHODS else "other"

    def model_lines(self, c):
        sm = self._smtok(c["sm"])
        chain = ",".join(self._smtok(s) for s in c["chain"]) or "-"
        life = c["life"]
        ops = ",".join("e" if o[0] == "e" else f"{o[0]}{o[1]}" for o in life["ops"]) or "-"
        lines = [f"check {sm} {c['max']} {c['d']}",
                 f"create {sm} {c['max']} {c['d']}",
                 f"env {self._envtok(c['env'])}",
                 f"nest {c['max']} {c['start']} {chain}",
                 f"life {sm} {c['max']} {life['d0']} {c['workers']} {ops}"]
        if "startup" in c:
            lines.append(f"startup {c['startup'][0]} {c['startup'][1]}")
        return lines

    # ---- implementation side
    def impl(self, c):
        line, _ = real_create(c["sm"], c["max"], c["d"], c["workers"], c["accept_env"])
        out = [real_check(c["sm"], c["max"], c["d"]),
               line,
               real_env(None if c["env"] == "absent" else c["env"]),
               real_nest(c["max"], c["start"], c["chain"]),
               real_life(c["sm"], c["max"], c["life"]["d0"], c["workers"], c["life"]["ops"], c["accept_env"])]
        if "startup" in c:
            out.append(real_startup(*c["startup"]))
        return out

    # ---- the statement of C19, independent of the Lean model
    @staticmethod
    def allowed(sm, mx, d):
        """'succeeds iff d < MAX_DEPTH (and never at d >= 1 under fork)'; 0/negative = unlimited"""
        if sm == "fork" and d >= 1:
            return False
        return mx <= 0 or d < mx

    def oracle(self, c, out):
        if len(out) != (6 if "startup" in c else 5):
            return f"harness: {out}"
        chk, crt, env, nest, life = out[:5]
        mx, d, sm = c["max"], c["d"], c["sm"]
        ok = self.allowed(sm, mx, d)
        if ok and chk != "ok":
            return f"_check_max_depth refuses depth {d} under {sm!r} with MAX_DEPTH={mx}: {chk}"
        if not ok and not chk.startswith("LokyRecursionError"):
            return f"_check_max_depth at depth {d} under {sm!r} with MAX_DEPTH={mx}: {chk}, LokyRecursionError expected"
        if ok:
            if crt != f"ok {d + 1}":
                return (f"executor created at depth {d}: workers must all be given depth {d + 1}, "
                        f"observed: {crt}")
        else:
            if not crt.startswith("LokyRecursionError"):
                return f"constructor at depth {d} under {sm!r} with MAX_DEPTH={mx}: {crt}, LokyRecursionError expected"
            if "spawned" in crt:
                return f"constructor raised after creating processes: {crt}"
        # LOKY_MAX_DEPTH
        if c["env"] == "absent":
            if env != "10":
                return f"default MAX_DEPTH is {env}, documented default is 10"
        else:
            v = parse_int(c["env"])
            if v is not None and env != str(v):
                return f"LOKY_MAX_DEPTH={c['env']!r} gives MAX_DEPTH={env}"
        # chain: walk it with the statement's rule
        cur, verdict = c["start"], "ok"
        for s in c["chain"]:
            if not self.allowed(s, mx, cur):
                verdict = "LokyRecursionError"
                break
            cur += 1
        parts = nest.split(" ")
        if parts[0] != str(cur) or parts[1] != verdict:
            return (f"chain {c['chain']} from depth {c['start']} with MAX_DEPTH={mx}: reached '{nest}', "
                    f"the statement gives depth {cur} then {verdict}")
        # life of one executor: "the depth a worker sees is exactly one more than that of the process that created
        # its executor, regardless of worker reuse, respawn or resize" -- whenever the worker is spawned
        d0, ops = c["life"]["d0"], c["life"]["ops"]
        if not self.allowed(sm, mx, d0):
            if not life.startswith("LokyRecursionError") or "spawned" in life:
                return f"constructor at depth {d0} under {sm!r} with MAX_DEPTH={mx}: {life}, LokyRecursionError expected"
        else:
            if not life.startswith("ok "):
                return f"executor constructed at depth {d0} under {sm!r} with MAX_DEPTH={mx}, then {ops}: {life}"
            batches = [] if life == "ok ." else life[3:].split(";")
            if len(batches) != len(ops):
                return f"harness: life {ops} -> {life}"
            cur = d0
            for i, (op, b) in enumerate(zip(ops, batches)):
                if op[0] == "d":
                    cur = op[1]
                for x in ([] if b == "-" else b.split(",")):
                    if x != str(cur + 1):
                        how = {"e": "the first submit", "r": f"the resize to {op[-1]}", "x": "the respawn after a time-out",
                               "d": "?"}[op[0]]
                        return (f"executor constructed while the process's depth was {d0}; events {ops[:i + 1]}: a worker "
                                f"spawned by {how} is given depth {x} although its creating process is at depth {cur} "
                                f"at that moment (must be {cur + 1})")
        if "startup" in c:
            arg = c["startup"][1]
            seen = out[5].split(" ")
            if seen != [str(arg), str(arg)]:
                return (f"[initializer-depth] a worker started with current_depth={arg} in an interpreter whose depth global "
                        f"is {c['startup'][0]}: the initializer runs with _CURRENT_DEPTH={seen[0]}, tasks with "
                        f"{seen[-1]}; both must be {arg} (an executor created in the initializer passes the guard and ships "
                        f"depth {seen[0]}+1 whatever the true depth)")
        return None

    @staticmethod
    def _changes_before_spawn(c):
        """the life assigns the depth global a new value and spawns afterwards"""
        cur, changed = c["life"]["d0"], False
        for op in c["life"]["ops"]:
            if op[0] == "d":
                changed = changed or op[1] != cur
                cur = op[1]
            elif changed:
                return True
        return False

    def nontrivial(self, c, out):
        if len(out) < 5:
            return True
        return out[0] != "ok" or c["d"] >= 1 or len(c["chain"]) >= 2 or self._changes_before_spawn(c)

    def classify(self, c, out):
        if len(out) < 5:
            return ["harness-exc"]
        mx, d = c["max"], c["d"]
        ks = ["sm=" + (c["sm"] if c["sm"] in METHODS else "other"),
              "check=" + out[0].replace(" ", "-"),
              "max=" + ("unlimited" if mx <= 0 else "1" if mx == 1 else "small" if mx <= 14 else "large"),
              "d-vs-max=" + ("n/a" if mx <= 0 else "below" if d < mx - 1 else "max-1" if d == mx - 1 else
                             "max" if d == mx else "above"),
              "env=" + self._envtok(c["env"]) if c["env"] == "absent" or parse_int(c["env"]) is None else "env=int",
              "nest=" + "-".join(out[3].split(" ")[1:])]
        life = c["life"]
        ks.append("life.ctor-depth=" + ("own" if life["d0"] == d else "zero" if life["d0"] == 0 else "other"))
        ks.append("life=" + ("refused" if not out[4].startswith("ok") else
                             "depth-changes-before-spawn" if self._changes_before_spawn(c) else "constant-depth"))
        ks += sorted({"life.op=" + {"d": "set-depth", "e": "first-submit", "r": "resize", "x": "respawn"}[o[0]]
                      for o in life["ops"]})
        if "startup" in c:
            ks.append("startup")
        return ks

    def shrink_candidates(self, c):
        ops = c["life"]["ops"]
        for i in range(len(ops)):
            yield dict(c, life=dict(c["life"], ops=ops[:i] + ops[i + 1:]))
        if c["life"]["d0"] not in (0, c["d"]):
            yield dict(c, life=dict(c["life"], d0=0))
        for i, o in enumerate(ops):
            if len(o) > 1 and o[1] > 1:
                yield dict(c, life=dict(c["life"], ops=ops[:i] + [[o[0], o[1] - 1]] + ops[i + 1:]))
        if "startup" in c and c["startup"][1] > 1:
            yield dict(c, startup=[c["startup"][0], c["startup"][1] - 1])
        if c["workers"] != 1:
            yield dict(c, workers=1)
        if c["env"] != "absent":
            yield dict(c, env="absent")
        if len(c["chain"]) > 1:
            yield dict(c, chain=c["chain"][:-1])
            yield dict(c, chain=c["chain"][1:])
        elif c["chain"] != [c["sm"]]:
            yield dict(c, chain=[c["sm"]])
        if c["start"]:
            yield dict(c, start=0)
            yield dict(c, start=c["start"] - 1)
        for k in ("d", "max"):
            v = c[k]
            for w in (0, 1, v // 2, v - 1):
                if w != v and (k == "max" or w >= 0) and abs(w) < abs(v) + 1:
                    yield dict(c, **{k: w})
        if c["sm"] not in ("loky", "fork"):
            yield dict(c, sm="loky")
        if any(s not in ("loky", "fork") for s in c["chain"]):
            yield dict(c, chain=[s if s == "fork" else "loky" for s in c["chain"]])


PART = DepthPart()
