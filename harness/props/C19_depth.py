"""C19, part "depth" — nesting depth bounded exactly at LOKY_MAX_DEPTH (E2, model M9).

The real `_check_max_depth`, the real constructor of `ProcessPoolExecutor`, the real
`_adjust_process_count` and the real `_process_worker` are run in this process with a fake
context (no OS process is ever started): `get_start_method()` is the case's start method,
`Lock`/`BoundedSemaphore` are the threading ones, `Process` records its arguments.  The module
globals `MAX_DEPTH` and `_CURRENT_DEPTH` are substituted for the duration of a call.
"""
import ast
import inspect
import threading
import types

from ..e2 import E2Prop

METHODS = ["loky", "loky_init_main", "spawn", "fork", "forkserver"]


def _pe():
    import loky.process_executor as m
    return m


# ------------------------------------------------------------------ fake environment

class _FakeProcess:
    _next_pid = [100000]

    def __init__(self, ctx, target, args, env):
        self.ctx, self.target, self.args, self.env = ctx, target, args, env
        self.name = "FakeProcess"
        self.pid = None
        self.sentinel = None

    def start(self):
        _FakeProcess._next_pid[0] += 1
        self.pid = _FakeProcess._next_pid[0]
        self.ctx.started.append(self)

    def is_alive(self):
        return True

    def join(self, timeout=None):
        return None


class _FakeCtx:
    """a multiprocessing context that cannot start anything"""

    def __init__(self, sm, accept_env):
        self.sm = sm
        self.accept_env = accept_env
        self.created = []        # every Process(...) object constructed
        self.started = []        # every Process on which start() was called
        self.prims = 0           # Lock / BoundedSemaphore objects handed out
        if accept_env:
            def Process(target=None, args=(), env=None):
                p = _FakeProcess(self, target, args, env)
                self.created.append(p)
                return p
        else:
            def Process(target=None, args=()):
                p = _FakeProcess(self, target, args, None)
                self.created.append(p)
                return p
        self.Process = Process

    def get_start_method(self, allow_none=False):
        return self.sm

    def Lock(self):
        self.prims += 1
        return threading.Lock()

    def RLock(self):
        self.prims += 1
        return threading.RLock()

    def BoundedSemaphore(self, value=1):
        self.prims += 1
        return threading.BoundedSemaphore(value)

    def Semaphore(self, value=1):
        self.prims += 1
        return threading.Semaphore(value)

    def Condition(self, lock=None):
        self.prims += 1
        return threading.Condition(lock)


class _Globals:
    """substitute MAX_DEPTH / _CURRENT_DEPTH of the real module, restore afterwards"""

    def __init__(self, max_depth, cur):
        self.v = (max_depth, cur)

    def __enter__(self):
        m = _pe()
        self.saved = (m.MAX_DEPTH, m._CURRENT_DEPTH)
        m.MAX_DEPTH, m._CURRENT_DEPTH = self.v
        return m

    def __exit__(self, *a):
        m = _pe()
        m.MAX_DEPTH, m._CURRENT_DEPTH = self.saved


def _err(m, e):
    """canonical name of an exception raised by the depth guard"""
    if type(e) is m.LokyRecursionError:
        return "LokyRecursionError " + ("fork" if "'fork' start method" in str(e) else "max")
    return "EXC-" + type(e).__name__


def _close_executor(ex):
    """release the pipes of an executor that never ran anything"""
    for name in ("_executor_manager_thread_wakeup", "_result_queue", "_call_queue"):
        o = getattr(ex, name, None)
        try:
            if o is not None:
                o.close()
        except Exception:
            pass
    try:
        ex._call_queue.join_thread()
    except Exception:
        pass


def real_check(sm, max_depth, cur):
    with _Globals(max_depth, cur) as m:
        ctx = types.SimpleNamespace(get_start_method=lambda: sm)
        try:
            r = m._check_max_depth(ctx)
        except Exception as e:
            return _err(m, e)
        return "ok" if r is None else f"returned-{r!r}"


def real_create(sm, max_depth, cur, workers, accept_env):
    """construct a real ProcessPoolExecutor on the fake context and let it 'spawn' its workers.
    returns (canonical line, depth arguments given to the workers)"""
    with _Globals(max_depth, cur) as m:
        ctx = _FakeCtx(sm, accept_env)
        try:
            ex = m.ProcessPoolExecutor(max_workers=workers, context=ctx)
        except Exception as e:
            # raised by the constructor: nothing may exist yet
            extra = ""
            if ctx.created or ctx.started:
                extra = f" spawned={len(ctx.created)}"
            elif ctx.prims:
                extra = f" after-{ctx.prims}-primitives"
            return _err(m, e) + extra, []
        try:
            if ctx.created:
                return f"constructor-spawned={len(ctx.created)}", []
            ex._adjust_process_count()
            depths = [p.args[-1] for p in ctx.created]
            ok = (len(ctx.created) == workers == len(ctx.started)
                  and all(p.target is m._process_worker and len(p.args) == 8 for p in ctx.created))
            if not ok:
                return f"spawn-shape created={len(ctx.created)} started={len(ctx.started)}", depths
            ds = sorted(set(map(repr, depths)))
            return "ok " + ",".join(ds), depths
        finally:
            _close_executor(ex)


class _SentinelQueue:
    """call queue that hands the worker its shutdown sentinel at once"""

    def __init__(self):
        self.put_log = []

    def get(self, block=True, timeout=None):
        return None

    def put(self, x):
        self.put_log.append(x)


class _ExitLock:
    def acquire(self, *a, **k):
        return True

    def release(self):
        pass


def real_worker_depth(depth_arg):
    """run the real `_process_worker` body (as a worker that receives the shutdown sentinel
    immediately) on a *copy* of the module globals and report the `_CURRENT_DEPTH` it ends with"""
    m = _pe()
    g = dict(m.__dict__)
    g["_python_exit"] = lambda: None
    g["_enable_faulthandler_if_needed"] = lambda: None
    g["_CURRENT_DEPTH"] = "unset"
    w = types.FunctionType(m._process_worker.__code__, g, "_process_worker",
                           m._process_worker.__defaults__, m._process_worker.__closure__)
    w(_SentinelQueue(), _SentinelQueue(), None, (), threading.Lock(), None, _ExitLock(), depth_arg)
    return g["_CURRENT_DEPTH"]


def real_nest(max_depth, cur, sms):
    """a chain of nested creations through the real code: constructor, spawn, worker start-up"""
    d = cur
    for i, sm in enumerate(sms):
        line, depths = real_create(sm, max_depth, d, 1, accept_env=(i % 2 == 0))
        if not line.startswith("ok"):
            return f"{d} {line}"
        if len(depths) != 1:
            return f"{d} spawned-{len(depths)}"
        d = real_worker_depth(depths[0])
        if type(d) is not int:
            return f"worker-depth-{d!r}"
    return f"{d} ok"


_ENV_CODE = []


def real_env(value):
    """evaluate the module-level statement `MAX_DEPTH = ...` of the real source with a fake os.environ"""
    if not _ENV_CODE:
        m = _pe()
        tree = ast.parse(inspect.getsource(m))
        stmts = [n for n in tree.body if isinstance(n, ast.Assign)
                 and any(isinstance(t, ast.Name) and t.id == "MAX_DEPTH" for t in n.targets)]
        if len(stmts) != 1:
            _ENV_CODE.append(None)
        else:
            _ENV_CODE.append(compile(ast.Module(body=stmts, type_ignores=[]), "<MAX_DEPTH>", "exec"))
    code = _ENV_CODE[0]
    if code is None:
        return "no-unique-MAX_DEPTH-assignment"
    env = {} if value is None else {"LOKY_MAX_DEPTH": value}
    g = {"os": types.SimpleNamespace(environ=env), "__builtins__": __builtins__}
    try:
        exec(code, g)
    except ValueError:
        return "ValueError"
    except Exception as e:
        return "EXC-" + type(e).__name__
    v = g.get("MAX_DEPTH")
    return str(v) if type(v) is int else f"non-int-{v!r}"


def parse_int(s):
    try:
        return int(s)
    except ValueError:
        return None


# ------------------------------------------------------------------ the part

class DepthPart(E2Prop):
    id = "C19"
    name = "depth"
    lean_modules = ["LokyModel.Props.C19Depth"]
    driver = "depth_driver"
    n_cases = {"quick": 6000, "thorough": 150000}
    search_cases = {"quick": 6000, "thorough": 60000}
    rule = ("cases = (MAX_DEPTH, depth, start method, #workers, env string, chain of start methods); corpus = the "
            "full grid MAX -3..12 x depth 0..14 x {loky, loky_init_main, spawn, fork, forkserver} + env strings + chains "
            "to limit+1; generated = boundary-biased (depth = MAX-1, MAX, MAX+1; 0; huge) values. Per case the real "
            "_check_max_depth, the real constructor + _adjust_process_count on a process-less context, the real "
            "MAX_DEPTH assignment and a chain through constructor/spawn/_process_worker are run. Non-trivial = the "
            "guard raises, or depth >= 1, or a chain of >= 2 levels. Distinct by full input.")
    assumptions = [
        "the depth guard is exercised in-process on a context that cannot start processes (threading locks, recording Process); "
        "that real workers receive and keep the shipped depth across reuse/respawn/resize is the executor-protocol part's claim",
        "LOKY_MAX_DEPTH is read once at import; the harness classifies a string as int/malformed with Python's int()",
        "MAX_DEPTH is the same in the whole process tree (environment inherited)",
    ]

    # ---- cases
    @staticmethod
    def mk(mx, d, sm, workers=1, env="absent", chain=None, start=0, accept_env=True):
        return {"max": mx, "d": d, "sm": sm, "workers": workers, "env": env,
                "chain": list(chain) if chain is not None else [sm], "start": start, "accept_env": accept_env}

    def corpus(self):
        cs = []
        for mx in range(-3, 13):
            for d in range(0, 15):
                for sm in METHODS:
                    # the chain of the case: from the root, as many levels as MAX+1 (or d+1 if unlimited)
                    n = (mx + 1) if mx >= 1 else (d % 5) + 1
                    cs.append(self.mk(mx, d, sm, workers=1 + (d + mx) % 3, chain=[sm] * n,
                                      accept_env=(d + mx) % 2 == 0))
        for env in ("absent", "0", "1", "10", "-1", "3", " 7 ", "+4", "1_0", "abc", "", "2.5", "0x10", "١٢", "10\n"):
            cs.append(self.mk(10, 0, "loky", env=env))
        # mixed chains: fork first then others, others then fork, other strings
        cs.append(self.mk(5, 0, "fork", chain=["fork", "loky", "loky"]))
        cs.append(self.mk(5, 0, "loky", chain=["loky", "fork", "loky"]))
        cs.append(self.mk(5, 0, "loky", chain=["loky", "spawn", "forkserver", "loky_init_main", "loky", "loky"]))
        cs.append(self.mk(0, 0, "spawn", chain=["spawn"] * 25))
        cs.append(self.mk(-7, 3, "spawn", chain=["spawn"] * 4, start=3))
        cs.append(self.mk(4, 2, "loky", chain=["loky"] * 4, start=2))
        cs.append(self.mk(4, 4, "loky", chain=["loky"], start=4))
        cs.append(self.mk(4, 7, "loky", chain=["loky"], start=7))
        for sm in ("Fork", "fork ", "FORK", "threading", "forkserver2"):
            cs.append(self.mk(3, 2, sm, chain=[sm] * 4))
        cs.append(self.mk(10**9, 10**9 - 1, "loky", chain=["loky", "loky"], start=10**9 - 1))
        cs.append(self.mk(2**70, 2**70, "spawn", chain=["spawn"], start=2**70 - 1))
        return cs

    def gen(self, rng, i):
        r = rng.random()
        if r < 0.75:
            mx = rng.randint(-3, 14)
        elif r < 0.9:
            mx = rng.choice([rng.randint(15, 200), 10**6, 2**31, 2**63, 2**64 + 1, 10**30])
        else:
            mx = -rng.choice([1, 2, 10, 10**6, 2**63])
        base = mx if mx >= 1 else rng.randint(0, 20)
        d = max(0, rng.choice([0, 0, 1, base - 1, base, base + 1, base - 2, base + 2, rng.randint(0, 16),
                               base + rng.randint(0, 10**6)]))
        sm = rng.choice(METHODS + ["fork", "loky"] + (["Fork", "fork ", "dummy"] if rng.random() < 0.1 else []))
        workers = rng.choice([1, 1, 2, 3, 5])
        env = "absent" if rng.random() < 0.4 else rng.choice(
            [str(mx), str(rng.randint(-5, 30)), "0", "10", " 3", "+2", "1_000", "x", "", "1.0", "ten", str(10**25)])
        # chain: mostly one method throughout, sometimes mixed, length around the limit
        if mx >= 1 and mx <= 16:
            n = rng.choice([mx - 1, mx, mx + 1, mx + 2, rng.randint(0, mx + 3)])
        else:
            n = rng.randint(0, 12)
        n = max(0, n)
        start = 0 if rng.random() < 0.7 else max(0, min(d, base) - rng.randint(0, 3))
        if rng.random() < 0.6:
            nf = rng.choice([m for m in METHODS if m != "fork"])
            chain = [nf] * n
            if rng.random() < 0.2 and n:
                chain[rng.randrange(n)] = "fork"
        else:
            chain = [rng.choice(METHODS) for _ in range(n)]
        return self.mk(mx, d, sm, workers, env, chain, start, rng.random() < 0.5)

    # ---- model side
    @staticmethod
    def _envtok(env):
        if env == "absent":
            return "absent"
        v = parse_int(env)
        return "bad" if v is None else str(v)

    @staticmethod
    def _smtok(sm):
        return sm if sm in METHODS else "other"

    def model_lines(self, c):
        sm = self._smtok(c["sm"])
        chain = ",".join(self._smtok(s) for s in c["chain"]) or "-"
        return [f"check {sm} {c['max']} {c['d']}",
                f"create {sm} {c['max']} {c['d']}",
                f"env {self._envtok(c['env'])}",
                f"nest {c['max']} {c['start']} {chain}"]

    # ---- implementation side
    def impl(self, c):
        line, _ = real_create(c["sm"], c["max"], c["d"], c["workers"], c["accept_env"])
        return [real_check(c["sm"], c["max"], c["d"]),
                line,
                real_env(None if c["env"] == "absent" else c["env"]),
                real_nest(c["max"], c["start"], c["chain"])]

    # ---- the statement of C19, independent of the Lean model
    @staticmethod
    def allowed(sm, mx, d):
        """'succeeds iff d < MAX_DEPTH (and never at d >= 1 under fork)'; 0/negative = unlimited"""
        if sm == "fork" and d >= 1:
            return False
        return mx <= 0 or d < mx

    def oracle(self, c, out):
        if len(out) != 4:
            return f"harness: {out}"
        chk, crt, env, nest = out
        mx, d, sm = c["max"], c["d"], c["sm"]
        ok = self.allowed(sm, mx, d)
        if ok and chk != "ok":
            return f"_check_max_depth refuses depth {d} under {sm!r} with MAX_DEPTH={mx}: {chk}"
        if not ok and not chk.startswith("LokyRecursionError"):
            return f"_check_max_depth at depth {d} under {sm!r} with MAX_DEPTH={mx}: {chk}, LokyRecursionError expected"
        if ok:
            if crt != f"ok {d + 1}":
                return (f"executor created at depth {d}: workers must all be given depth {d + 1}, "
                        f"observed: {crt}")
        else:
            if not crt.startswith("LokyRecursionError"):
                return f"constructor at depth {d} under {sm!r} with MAX_DEPTH={mx}: {crt}, LokyRecursionError expected"
            if "spawned" in crt:
                return f"constructor raised after creating processes: {crt}"
        # LOKY_MAX_DEPTH
        if c["env"] == "absent":
            if env != "10":
                return f"default MAX_DEPTH is {env}, documented default is 10"
        else:
            v = parse_int(c["env"])
            if v is not None and env != str(v):
                return f"LOKY_MAX_DEPTH={c['env']!r} gives MAX_DEPTH={env}"
        # chain: walk it with the statement's rule
        cur, verdict = c["start"], "ok"
        for s in c["chain"]:
            if not self.allowed(s, mx, cur):
                verdict = "LokyRecursionError"
                break
            cur += 1
        parts = nest.split(" ")
        if parts[0] != str(cur) or parts[1] != verdict:
            return (f"chain {c['chain']} from depth {c['start']} with MAX_DEPTH={mx}: reached '{nest}', "
                    f"the statement gives depth {cur} then {verdict}")
        return None

    def nontrivial(self, c, out):
        if len(out) != 4:
            return True
        return out[0] != "ok" or c["d"] >= 1 or len(c["chain"]) >= 2

    def classify(self, c, out):
        if len(out) != 4:
            return ["harness-exc"]
        mx, d = c["max"], c["d"]
        ks = ["sm=" + (c["sm"] if c["sm"] in METHODS else "other"),
              "check=" + out[0].replace(" ", "-"),
              "max=" + ("unlimited" if mx <= 0 else "1" if mx == 1 else "small" if mx <= 14 else "large"),
              "d-vs-max=" + ("n/a" if mx <= 0 else "below" if d < mx - 1 else "max-1" if d == mx - 1 else
                             "max" if d == mx else "above"),
              "env=" + self._envtok(c["env"]) if c["env"] == "absent" or parse_int(c["env"]) is None else "env=int",
              "nest=" + "-".join(out[3].split(" ")[1:])]
        return ks

    def shrink_candidates(self, c):
        if c["workers"] != 1:
            yield dict(c, workers=1)
        if c["env"] != "absent":
            yield dict(c, env="absent")
        if len(c["chain"]) > 1:
            yield dict(c, chain=c["chain"][:-1])
            yield dict(c, chain=c["chain"][1:])
        elif c["chain"] != [c["sm"]]:
            yield dict(c, chain=[c["sm"]])
        if c["start"]:
            yield dict(c, start=0)
            yield dict(c, start=c["start"] - 1)
        for k in ("d", "max"):
            v = c[k]
            for w in (0, 1, v // 2, v - 1):
                if w != v and (k == "max" or w >= 0) and abs(w) < abs(v) + 1:
                    yield dict(c, **{k: w})
        if c["sm"] not in ("loky", "fork"):
            yield dict(c, sm="loky")
        if any(s not in ("loky", "fork") for s in c["chain"]):
            yield dict(c, chain=[s if s == "fork" else "loky" for s in c["chain"]])


PART = DepthPart()
