"""C20 — executor lifecycles leak no parent-side resources: ledger model + real lifecycles (E3)"""
from ..composite import Composite
from .C20_real import PART as REAL

PROP = Composite("C20", [REAL])
