"""C05 — executor-protocol property: Lean theorems over M1 + E1 (real code under the deterministic scheduler,
in lock-step with M1, judged by the oracles of harness/simengine/monitors.py)."""
from ..e1 import E1Part

PROP = E1Part("C05", [("graceful",3),("timeouts",1),("leak",1),("respawn",1),("cancelshut",2)], ["C05","C01"], ["LokyModel.Props.C05", "LokyModel.Props.C05Live"], quick=1200, thorough=40000, starve=0)
