"""C15, part "pickle" — serialisation customisation is scoped and faithful (E2, model M6 `Pickle`).

Two kinds of cases.

`hist`  a history of API calls (set_loky_pickler, CustomizablePickler(reducers), register on an
        instance, dumps/dump(reducers=...), Queue/SimpleQueue(reducers=...) + put, ProcessPoolExecutor(
        job_reducers, result_reducers) + put on its queues) executed on the real code, with extra
        entries installed (and removed afterwards) in copyreg.dispatch_table, cloudpickle's
        class-level table and loky's registry so that every overlay order is exercised.  Observed per
        call: the dispatch table the pickler really has (per probe type), which reducer was really
        used for probe instances, whether the three process-wide registries are unchanged.
`rt`    loads(dumps(x)) for generated graphs of partials (keywords, partials as arguments), bound
        methods, class methods, method descriptors: structure and behaviour (call results).
"""
import collections
import copyreg
import functools
import hashlib
import io
import multiprocessing
import queue as _queue
import re
import socket
import types
import _socket
from multiprocessing.connection import Connection

from .. import common as C
from ..e2 import E2Prop

# ------------------------------------------------------------------ universe (importable: plain pickle must find it)


class K0:
    pass


class K1:
    pass


class K2:
    pass


class K3:
    pass


class K4:
    pass


class K5:
    pass


KS = [K0, K1, K2, K3, K4, K5]


class Marked:
    """what a harness reducer rebuilds: remembers which reducer was used for which type"""

    def __init__(self, rid, ty):
        self.rid, self.ty = rid, ty


def _mark(rid, ty):
    return Marked(rid, ty)


def _g0(*a, **k):
    return ("g0", a, tuple(sorted(k.items())))


def _g1(*a, **k):
    return ("g1", a, tuple(sorted(k.items())))


def _g2(*a, **k):
    return ("g2", len(a), tuple(sorted(k)))


GLOBS = [_g0, _g1, _g2]


class M0:
    def __init__(self, s):
        self.s = s

    def f0(self, *a, **k):
        return ("M0.f0", self.s, a, tuple(sorted(k.items())))

    def f1(self, *a, **k):
        return ("M0.f1", self.s, a, tuple(sorted(k.items())))

    @classmethod
    def c0(cls, *a, **k):
        return ("c0", cls.__name__, a, tuple(sorted(k.items())))


class M1(M0):
    def f1(self, *a, **k):
        return ("M1.f1", self.s, a, tuple(sorted(k.items())))


# type ids 1..7 are the model's constants (LokyModel.Pickle.tyMethod …)
TYPES = {1: types.MethodType, 2: type(list.append), 3: type(int.__add__), 4: functools.partial,
         5: socket.socket, 6: _socket.socket, 7: Connection, 20: complex, 21: types.CodeType, 22: re.Pattern,
         30: K0, 31: K1, 32: K2, 33: K3, 34: K4, 35: K5}
TYPE_ID = {v: k for k, v in TYPES.items()}
PROBES = sorted(TYPES)
UPROBES = [1, 4, 20, 30, 31, 32, 33, 34, 35]     # types of which the pickled probe object holds an instance
LOKY_RIDS = {"_reduce_method": 1, "_reduce_method_descriptor": 2, "_reduce_partial": 3, "_reduce_socket": 4,
             "reduce_connection": 5}
N_MARKERS = 60


def _make_marker(j):
    def red(obj):
        return _mark, (100 + j, TYPE_ID.get(type(obj), 0))
    red._verif_id = 100 + j
    return red


MARKERS = {100 + j: _make_marker(j) for j in range(N_MARKERS)}


def rid(f):
    """stable id of a reducer function"""
    if f is None:
        return None
    v = getattr(f, "_verif_id", None)
    if v is not None:
        return v
    mod, name = getattr(f, "__module__", "?") or "?", getattr(f, "__qualname__", repr(type(f)))
    if mod.startswith("loky.backend") and name in LOKY_RIDS:
        return LOKY_RIDS[name]
    return 1000 + int(hashlib.sha1(f"{mod}.{name}".encode()).hexdigest()[:8], 16) % 10**6


def _R():
    import loky.backend.reduction as R
    return R


def _cloud_table():
    try:
        from cloudpickle import CloudPickler
    except ImportError:
        return None
    dt = getattr(CloudPickler, "dispatch_table", None)
    if isinstance(dt, collections.ChainMap):
        return dt.maps[0]
    return dt if isinstance(dt, dict) else None


def registries():
    """the three process-wide registries (live dict objects; cloudpickle's may be absent)"""
    return {"copyreg": copyreg.dispatch_table, "cloud": _cloud_table(), "loky": _R()._dispatch_table}


def snap():
    return {k: (None if d is None else dict(d)) for k, d in registries().items()}


def table_str(tbl):
    """`ty:r,…` of a real table restricted to the probe types"""
    if tbl is None:
        return "-"
    items = [(TYPE_ID[t], rid(f)) for t, f in tbl.items() if t in TYPE_ID]
    return ",".join(f"{a}:{b}" for a, b in sorted(items)) or "-"


def lookups(tbl, probes=PROBES):
    return ",".join("-" if tbl.get(TYPES[t]) is None else str(rid(tbl.get(TYPES[t]))) for t in probes)


def red_str(red):
    if red is None:
        return "none"
    return ",".join(f"{a}:{b}" for a, b in red) or "-"


def red_dict(red):
    if red is None:
        return None
    return {TYPES[t]: MARKERS[r] for t, r in red}


def reducers_seen(d):
    """canonical form of a `_reducers` attribute found on a queue"""
    if d is None:
        return "none"
    return ",".join(f"{TYPE_ID.get(t, 0)}:{rid(f)}" for t, f in d.items()) or "-"


# ------------------------------------------------------------------ hist cases on the real code

def probe_object():
    return [K0(), K1(), K2(), K3(), K4(), K5(), complex(1, 2), functools.partial(_g0, 1, z=2), M0(3).f0]


PROBE_TYPES = [30, 31, 32, 33, 34, 35, 20, 4, 1]


def used_of(res):
    """which reducer produced each element of the unpickled probe object"""
    by_ty = {}
    if not isinstance(res, list) or len(res) != len(PROBE_TYPES):
        return "bad-shape"
    for ty, x in zip(PROBE_TYPES, res):
        if isinstance(x, Marked):
            by_ty[ty] = str(x.rid) if x.ty == ty else f"bad:{ty}"
            continue
        ok = False
        if ty >= 30:
            ok = type(x) is TYPES[ty]
        elif ty == 20:
            ok = x == complex(1, 2) and type(x) is complex
        elif ty == 4:
            ok = isinstance(x, functools.partial) and x(5) == ("g0", (1, 5), (("z", 2),))
        elif ty == 1:
            ok = isinstance(x, types.MethodType) and x(4) == ("M0.f0", 3, (4,), ())
        by_ty[ty] = "n" if ok else f"bad:{ty}"
    return ",".join(by_ty[t] for t in UPROBES)


class _Timeout(Exception):
    pass


def run_hist(case):
    R = _R()
    ctx = multiprocessing.get_context("fork")
    from loky.backend.queues import Queue, SimpleQueue
    from loky.process_executor import ProcessPoolExecutor
    regs = registries()
    saved = snap()
    saved_name = R.get_loky_pickler_name()
    seen, picklers, queues, execs = [], [], [], []
    out = []

    def install_spy():
        base = R._LokyPickler
        if getattr(base, "_verif_spy", False):
            return

        class Spy(base):
            _verif_spy = True

            def __init__(self, *a, **k):
                super().__init__(*a, **k)
                seen.append(self)
        R._LokyPickler = Spy

    def gsame(g0):
        now = snap()
        diff = [k for k in g0 if now[k] != g0[k] or registries()[k] is not regs[k]]
        return "same" if not diff else "changed:" + "+".join(diff)

    def base_lookups():
        p = R.get_loky_pickler()(io.BytesIO())
        seen.clear()
        return lookups(p.dispatch_table)

    def dump_line(g0, base, do):
        seen.clear()
        res = do()
        if not seen:
            return f"no-pickler-created base={base} g={gsame(g0)}"
        t = seen[-1].dispatch_table
        return f"t={lookups(t)} base={base} used={used_of(res)} g={gsame(g0)}"

    def q_roundtrip(q, obj):
        q.put(obj)
        if isinstance(q, SimpleQueue):
            return R.loads(q._reader.recv_bytes())
        try:
            return q.get(timeout=60)
        except _queue.Empty:
            raise _Timeout()

    try:
        for name, entries in case["g"].items():
            if regs[name] is None:
                continue
            for t, r in entries:
                regs[name][TYPES[t]] = MARKERS[r]
        R.set_loky_pickler(case["b0"])
        install_spy()
        g0 = snap()
        out.append("ok")
        for op in case["ops"]:
            k = op[0]
            if k == "set":
                R.set_loky_pickler(op[1])
                install_spy()
                out.append(f"backend={R.get_loky_pickler_name()}")
            elif k == "pickler":
                base = base_lookups()
                kw = {} if op[1] is None and op[2] else {"reducers": red_dict(op[1])}
                p = R.get_loky_pickler()(io.BytesIO(), **kw)
                picklers.append(p)
                out.append(f"pickler {len(picklers) - 1} t={lookups(p.dispatch_table)} base={base} g={gsame(g0)}")
            elif k == "reg":
                picklers[op[1]].register(TYPES[op[2]], MARKERS[op[3]])
                out.append("ok")
            elif k == "dumps":
                base = base_lookups()
                red = red_dict(op[1])

                def do(red=red, via=op[2]):
                    if via == "dump":
                        buf = io.BytesIO()
                        R.dump(probe_object(), buf, reducers=red)
                        data = buf.getvalue()
                    elif via == "dumps-default":
                        data = R.dumps(probe_object())
                    else:
                        data = R.dumps(probe_object(), reducers=red)
                    return R.loads(bytes(data))
                out.append(dump_line(g0, base, do))
            elif k == "queue":
                kw = {} if op[2] is None and op[3] else {"reducers": red_dict(op[2])}
                q = SimpleQueue(ctx=ctx, **kw) if op[1] == "simple" else Queue(ctx=ctx, **kw)
                queues.append(q)
                out.append(f"queue {len(queues) - 1}")
            elif k == "put":
                base = base_lookups()
                out.append(dump_line(g0, base, lambda q=queues[op[1]]: q_roundtrip(q, probe_object())))
            elif k == "exec":
                kw = {}
                if not (op[1] is None and op[3]):
                    kw["job_reducers"] = red_dict(op[1])
                if not (op[2] is None and op[3]):
                    kw["result_reducers"] = red_dict(op[2])
                e = ProcessPoolExecutor(max_workers=1, context=ctx, **kw)
                execs.append(e)
                cq, rq = e._call_queue, e._result_queue
                queues += [cq, rq]
                out.append(f"exec {len(queues) - 2} {len(queues) - 1} job={reducers_seen(cq._reducers)} "
                           f"res={reducers_seen(rq._reducers)}")
            else:
                out.append("bad-op")
        ps = " ".join(f"p{i}={lookups(p.dispatch_table)}" for i, p in enumerate(picklers)) or "-"
        out.append(f"{ps} g={gsame(g0)}")
    except _Timeout:
        out.append("INFRA-TIMEOUT")
    finally:
        for e in execs:
            try:
                e.shutdown(wait=False)
            except Exception:  # noqa: BLE001
                pass
        for q in queues:
            try:
                q.close()
                if hasattr(q, "join_thread"):
                    q.join_thread()
            except Exception:  # noqa: BLE001
                pass
        for name, d in registries().items():
            if d is not None and saved[name] is not None and d != saved[name]:
                d.clear()
                d.update(saved[name])
        R._loky_pickler_name = None      # force re-creation (drops the spy)
        R.set_loky_pickler(saved_name)
    return out


# ------------------------------------------------------------------ rt cases: terms <-> objects

ATOMS = [0, 1, -1, "s", (1, 2), None, 3, "", b"x", 10**20]
CLASSES = {10: M0, 11: M1, 12: str, 13: dict, 14: int, 15: list}
CLASS_ID = {v: k for k, v in CLASSES.items()}
NAMES = {1: "f0", 2: "f1", 3: "c0", 4: "upper", 5: "lower", 6: "items", 7: "keys", 8: "__add__", 9: "__mul__", 10: "count"}
NAME_ID = {v: k for k, v in NAMES.items()}
FUNCS = {20: M0.__dict__["f0"], 21: M0.__dict__["f1"], 22: M0.__dict__["c0"].__func__, 24: M1.__dict__["f1"]}
FUNC_ID = {v: k for k, v in FUNCS.items()}
FNAME = {20: 1, 21: 2, 22: 3, 24: 2}
MEMBERS = {(10, 1): "F20", (10, 2): "F21", (10, 3): "C22", (11, 1): "F20", (11, 2): "F24", (11, 3): "C22",
           (12, 4): "D", (12, 5): "D", (13, 6): "D", (13, 7): "D", (14, 8): "D", (14, 9): "D", (15, 10): "D"}
KWNAMES = {1: "w", 2: "z", 3: "key", 4: "a"}
KW_ID = {v: k for k, v in KWNAMES.items()}
DESCR_CALL = {(12, 4): ("aBc", ()), (12, 5): ("aBc", ()), (13, 6): ({1: 2}, ()), (13, 7): ({1: 2}, ()),
              (14, 8): (5, (3,)), (14, 9): (5, (3,)), (15, 10): ([1, 2, 1], (1,))}
WORLD = (",".join(f"{f}:{n}" for f, n in sorted(FNAME.items())),
         ",".join(f"{c}.{n}={m}" for (c, n), m in sorted(MEMBERS.items())))


def build(t):
    k = t[0]
    if k == "a":
        return ATOMS[t[1]]
    if k == "g":
        return GLOBS[t[1]] if t[1] < 10 else CLASSES[t[1]]
    if k == "i":
        return CLASSES[t[1]](t[2])
    if k == "b":
        return getattr(build(t[1]), NAMES[FNAME[t[2]]])
    if k == "d":
        return getattr(CLASSES[t[1]], NAMES[t[2]])
    if k == "p":
        return functools.partial(build(t[1]), *[build(a) for a in t[2]], **{KWNAMES[n]: build(v) for n, v in t[3]})
    raise ValueError(t)


def term_tokens(t):
    k = t[0]
    if k in ("a", "g"):
        return [k, str(t[1])]
    if k in ("i", "d"):
        return [k, str(t[1]), str(t[2])]
    if k == "b":
        return ["b"] + term_tokens(t[1]) + [str(t[2])]
    toks = ["p", str(len(t[2])), str(len(t[3]))] + term_tokens(t[1])
    for a in t[2]:
        toks += term_tokens(a)
    for n, v in t[3]:
        toks += [str(n)] + term_tokens(v)
    return toks


def describe(x):
    """structure of a real object, in the driver's prefix notation"""
    if isinstance(x, functools.partial):
        toks = ["p", str(len(x.args)), str(len(x.keywords))] + describe(x.func)
        for a in x.args:
            toks += describe(a)
        for n, v in x.keywords.items():
            toks += [str(KW_ID.get(n, 0))] + describe(v)
        return toks
    if isinstance(x, types.MethodType):
        return ["b"] + describe(x.__self__) + [str(FUNC_ID.get(x.__func__, 0))]
    if isinstance(x, (type(list.append), type(int.__add__))):
        return ["d", str(CLASS_ID.get(x.__objclass__, 0)), str(NAME_ID.get(x.__name__, 0))]
    if isinstance(x, type):
        return ["g", str(CLASS_ID.get(x, 99))]
    if isinstance(x, types.FunctionType):
        return ["g", str(GLOBS.index(x))] if x in GLOBS else ["g", "98"]
    if type(x) in (M0, M1):
        return ["i", str(CLASS_ID[type(x)]), str(x.s)]
    for i, a in enumerate(ATOMS):
        if type(a) is type(x) and a == x:
            return ["a", str(i)]
    return ["?", type(x).__name__]


def canon(v):
    if isinstance(v, (tuple, list)):
        return tuple(canon(x) for x in v)
    if isinstance(v, dict):
        return ("dict", tuple(sorted((repr(k), canon(x)) for k, x in v.items())))
    if type(v).__name__ in ("dict_items", "dict_keys"):
        return (type(v).__name__, tuple(sorted(map(repr, v))))
    if callable(v) or type(v) in (M0, M1):
        return "|".join(describe(v))
    return repr(v)


def call_plan(t):
    """sample argument lists on which the behaviour of the object built from term t is observed"""
    k = t[0]
    if k == "d":
        recv, args = DESCR_CALL[(t[1], t[2])]
        return [((recv,) + args, {})]
    if k == "p" and t[1][0] == "d":
        recv, args = DESCR_CALL[(t[1][1], t[1][2])]
        full = (recv,) + args
        return [(full[len(t[2]):], {})]
    if k in ("b", "p") or (k == "g" and t[1] < 10):
        return [((), {}), ((7,), {"w": 8}), ((M0(2).f1, "q"), {"z": 0})]
    return None


def behaviour(x, t):
    plan = call_plan(t)
    if plan is None:
        return canon(x)
    res = []
    for a, kw in plan:
        try:
            res.append(canon(x(*a, **kw)))
        except Exception as e:  # noqa: BLE001
            res.append("EXC:" + type(e).__name__)
    return tuple(res)


def digest(v):
    return int(hashlib.sha1(repr(v).encode()).hexdigest()[:10], 16)


def run_rt(case):
    R = _R()
    saved_name = R.get_loky_pickler_name()
    try:
        R.set_loky_pickler(case["b"])
        x = build(case["term"])
        d0 = digest(behaviour(x, case["term"]))
        try:
            if case["via"] == "squeue":
                from loky.backend.queues import SimpleQueue
                q = SimpleQueue(ctx=multiprocessing.get_context("fork"))
                try:
                    q.put(x)
                    y = R.loads(q._reader.recv_bytes())
                finally:
                    q.close()
            else:
                y = R.loads(bytes(R.dumps(x)))
        except Exception as e:  # noqa: BLE001
            return ["fail", f"beh {d0} EXC:{type(e).__name__}"]
        return ["|".join(describe(y)), f"beh {d0} {digest(behaviour(y, case['term']))}"]
    finally:
        R.set_loky_pickler(saved_name)


# ------------------------------------------------------------------ the part

def kv(line):
    return dict(p.split("=", 1) for p in line.split(" ") if "=" in p)


class Part(E2Prop):
    id = "C15"
    name = "pickle"
    lean_modules = ["LokyModel.Props.C15Pickle"]
    driver = "pickle_driver"
    n_cases = {"quick": 20000, "thorough": 200000}
    search_cases = {"quick": 8000, "thorough": 80000}
    budget = {"quick": 150, "thorough": 1500}
    rule = ("hist cases: 2-9 API calls (set_loky_pickler, pickler creation, register on an instance, dumps/dump, "
            "Queue/SimpleQueue creation and put, executor creation and put on its queues) with reducer maps over 9 probe "
            "types, extra entries installed in copyreg / cloudpickle / loky registries so that all overlay orders occur, both "
            "back-ends; rt cases: graphs of partials (0-3 args, 0-3 keywords, partials/methods/instances as arguments), bound "
            "methods, class methods, method/wrapper descriptors, depth <= 3, both back-ends, dumps or SimpleQueue.put. "
            "Non-trivial = hist with >= 1 non-empty reducer map, or rt with a compound term; distinct by full input.")
    assumptions = [
        "pickle / cloudpickle themselves are trusted: they consult the pickler's dispatch_table for the probe types (not for exact function/type objects or containers, which pickle handles before the table) and round-trip the leaves",
        "a bound method is reachable on its receiver under its function's __name__ (hypothesis of method_roundtrip; aliased or name-mangled methods fail in CPython's own method pickling too and are not generated)",
        "equal behaviour of a partial = func, args, keywords and call results; a partial's instance __dict__ (dropped by _reduce_partial) is not part of the property and is not generated",
        "POSIX registry content (socket/Connection reducers); the Windows branch is out of scope",
        "queues are created with a multiprocessing 'fork' context (no resource tracker); ProcessPoolExecutor objects are constructed but no worker is started in this part",
    ]

    # -- corpus ---------------------------------------------------------------------------
    def corpus(self):
        cs = []

        def hist(ops, b0="cloudpickle", **g):
            cs.append({"kind": "hist", "b0": b0, "g": {"copyreg": g.get("copyreg", []), "cloud": g.get("cloud", []),
                                                        "loky": g.get("loky", [])}, "ops": ops})
        for b in ("cloudpickle", "pickle"):
            # every overlay pair on one type, and all four at once
            hist([["dumps", [[30, 110]], "dumps"]], b, loky=[[30, 101]])
            hist([["dumps", [[30, 110]], "dump"]], b, cloud=[[30, 102]])
            hist([["dumps", [[30, 110]], "dumps"]], b, copyreg=[[30, 103]])
            hist([["dumps", None, "dumps"]], b, loky=[[30, 101]], cloud=[[30, 102]])
            hist([["dumps", None, "dumps-default"]], b, loky=[[30, 101]], copyreg=[[30, 103]])
            hist([["dumps", None, "dumps"]], b, cloud=[[30, 102]], copyreg=[[30, 103]])
            hist([["dumps", [[30, 110]], "dumps"], ["dumps", [], "dumps"], ["dumps", None, "dump"]], b,
                 loky=[[30, 101]], cloud=[[30, 102]], copyreg=[[30, 103]])
            # user reducers override loky's built-ins and copyreg's complex; built-ins otherwise in force
            hist([["dumps", [[4, 111], [1, 112], [20, 113]], "dumps"], ["dumps", None, "dumps"]], b)
            hist([["pickler", [[4, 111]], False], ["pickler", None, True], ["pickler", [], False], ["dumps", [[31, 114]], "dumps"],
                  ["reg", 1, 31, 115], ["reg", 0, 4, 116], ["pickler", [[31, 117]], False], ["dumps", None, "dumps"]], b)
            # queues: own reducers only, None, {}; back-end switched between creation and put
            hist([["queue", "simple", [[30, 120]], False], ["queue", "queue", [[31, 121]], False], ["queue", "simple", None, True],
                  ["put", 0], ["put", 1], ["put", 2], ["set", "pickle" if b == "cloudpickle" else "cloudpickle"],
                  ["put", 1], ["put", 0]], b, loky=[[31, 101]])
            # executors: result reducers default to the job reducers; {} is not None
            hist([["exec", [[30, 130]], None, False], ["exec", [[30, 130]], [[31, 131]], False], ["exec", None, None, True],
                  ["exec", None, [[32, 132]], False], ["exec", [[30, 130]], [], False], ["exec", [], None, False],
                  ["put", 0], ["put", 1], ["put", 3], ["put", 7], ["put", 9]], b)
        for b in ("cloudpickle", "pickle"):
            for via in ("dumps", "squeue"):
                for term in (
                    ["p", ["g", 0], [], []],
                    ["p", ["g", 0], [["a", 1]], [[1, ["a", 3]]]],
                    ["p", ["g", 1], [], [[1, ["a", 0]], [2, ["a", 5]], [3, ["a", 4]]]],
                    ["p", ["g", 0], [["p", ["g", 1], [["a", 1]], [[2, ["a", 2]]]]], [[4, ["p", ["g", 2], [], []]]]],
                    ["b", ["i", 10, 4], 20], ["b", ["i", 11, 4], 20], ["b", ["i", 11, 5], 24], ["b", ["i", 10, 5], 21],
                    ["b", ["g", 10], 22], ["b", ["g", 11], 22],
                    ["d", 12, 4], ["d", 13, 6], ["d", 14, 8], ["d", 14, 9], ["d", 15, 10], ["d", 12, 5], ["d", 13, 7],
                    ["p", ["b", ["i", 10, 1], 20], [["a", 0]], [[1, ["b", ["g", 10], 22]]]],
                    ["p", ["d", 12, 4], [], []], ["p", ["d", 14, 8], [["a", 6]], []],
                    ["p", ["b", ["g", 11], 22], [["d", 12, 4], ["i", 10, 2]], [[2, ["g", 10]]]],
                ):
                    cs.append({"kind": "rt", "b": b, "via": via, "term": term})
        return cs

    # -- generators -----------------------------------------------------------------------
    def gen_red(self, rng, allow_none=True):
        r = rng.random()
        if allow_none and r < 0.15:
            return None
        if r < 0.25:
            return []
        tys = rng.sample([30, 30, 31, 31, 32, 33, 34, 35, 20, 4, 1, 2, 22], rng.choice([1, 1, 2, 3, 4]))
        seen, red = set(), []
        for t in tys:
            if t not in seen:
                seen.add(t)
                red.append([t, 100 + rng.randrange(N_MARKERS)])
        return red

    def gen_hist(self, rng):
        g = {}
        for name in ("copyreg", "cloud", "loky"):
            n = rng.choice([0, 0, 1, 1, 2])
            tys = rng.sample([30, 31, 32, 33, 20, 4], n)
            g[name] = [[t, 100 + rng.randrange(N_MARKERS)] for t in tys]
        ops, npick, nq = [], 0, 0
        for _ in range(rng.randint(2, 9)):
            r = rng.random()
            if r < 0.12:
                ops.append(["set", rng.choice(["cloudpickle", "pickle"])])
            elif r < 0.32:
                red = self.gen_red(rng)
                ops.append(["pickler", red, red is None and rng.random() < 0.5])
                npick += 1
            elif r < 0.42 and npick:
                ops.append(["reg", rng.randrange(npick), rng.choice([30, 31, 32, 20, 4]), 100 + rng.randrange(N_MARKERS)])
            elif r < 0.66:
                red = self.gen_red(rng)
                ops.append(["dumps", red, "dumps-default" if red is None and rng.random() < 0.5 else rng.choice(["dumps", "dump"])])
            elif r < 0.78:
                red = self.gen_red(rng)
                ops.append(["queue", rng.choice(["simple", "simple", "queue"]), red, red is None and rng.random() < 0.5])
                nq += 1
            elif r < 0.92 and nq:
                ops.append(["put", rng.randrange(nq)])
            elif r < 0.96:
                j = self.gen_red(rng)
                res = None if rng.random() < 0.5 else self.gen_red(rng, allow_none=False)
                ops.append(["exec", j, res, rng.random() < 0.5])
                nq += 2
            else:
                ops.append(["dumps", self.gen_red(rng), "dumps"])
        return {"kind": "hist", "b0": rng.choice(["cloudpickle", "pickle"]), "g": g, "ops": ops}

    def gen_value(self, rng, depth):
        r = rng.random()
        if depth <= 0 or r < 0.35:
            return ["a", rng.randrange(len(ATOMS))]
        if r < 0.45:
            return ["i", rng.choice([10, 11]), rng.randrange(10)]
        if r < 0.5:
            return ["g", rng.choice([0, 1, 2, 10, 11, 12])]
        return self.gen_callable(rng, depth - 1)

    def gen_method(self, rng):
        c = rng.choice([10, 11])
        if rng.random() < 0.3:
            return ["b", ["g", c], 22]
        n = rng.choice([1, 2])
        return ["b", ["i", c, rng.randrange(10)], int(MEMBERS[(c, n)][1:])]

    def gen_callable(self, rng, depth):
        r = rng.random()
        if r < 0.2:
            return ["g", rng.randrange(3)]
        if r < 0.45:
            return self.gen_method(rng)
        if r < 0.55:
            c, n = rng.choice(sorted(DESCR_CALL))
            return ["d", c, n]
        # partial
        if rng.random() < 0.15:
            c, n = rng.choice(sorted(DESCR_CALL))
            recv, args = DESCR_CALL[(c, n)]
            full = (recv,) + args
            k = rng.randint(0, len(full))
            atoms = []
            for v in full[:k]:
                idx = [i for i, a in enumerate(ATOMS) if type(a) is type(v) and a == v]
                if not idx:
                    break
                atoms.append(["a", idx[0]])
            return ["p", ["d", c, n], atoms, []]
        func = ["g", rng.randrange(3)] if rng.random() < 0.5 else self.gen_method(rng)
        args = [self.gen_value(rng, depth) for _ in range(rng.choice([0, 1, 1, 2, 3]))]
        keys = rng.sample(sorted(KWNAMES), rng.choice([0, 1, 1, 2, 3]))
        return ["p", func, args, [[k, self.gen_value(rng, depth)] for k in keys]]

    def gen(self, rng, i):
        if rng.random() < 0.45:
            return self.gen_hist(rng)
        t = self.gen_callable(rng, 3)
        return {"kind": "rt", "b": rng.choice(["cloudpickle", "pickle"]), "via": rng.choice(["dumps", "dumps", "squeue"]),
                "term": t}

    # -- model ----------------------------------------------------------------------------
    def model_lines(self, case):
        if case["kind"] == "rt":
            x = build(case["term"])
            return [f"rt {WORLD[0]} {WORLD[1]} {'|'.join(term_tokens(case['term']))}",
                    f"behid {digest(behaviour(x, case['term']))}"]
        # the registries as they are in a pristine process, plus the case's extra entries on top
        cur = snap()
        tabs = {}
        for name in ("copyreg", "cloud"):
            base = {TYPE_ID[t]: rid(f) for t, f in (cur[name] or {}).items() if t in TYPE_ID}
            base.update({t: r for t, r in case["g"][name]} if cur[name] is not None else {})
            tabs[name] = ",".join(f"{a}:{b}" for a, b in sorted(base.items())) or "-"
        lx = ",".join(f"{t}:{r}" for t, r in case["g"]["loky"]) or "-"
        lines = [f"begin {case['b0']} {','.join(map(str, PROBES))} {','.join(map(str, UPROBES))} "
                 f"{tabs['copyreg']} {tabs['cloud']} {lx}"]
        for op in case["ops"]:
            k = op[0]
            if k == "set":
                lines.append(f"set {op[1]}")
            elif k == "pickler":
                lines.append(f"pickler {red_str(op[1])}")
            elif k == "reg":
                lines.append(f"reg {op[1]} {op[2]} {op[3]}")
            elif k == "dumps":
                lines.append(f"dumps {red_str(op[1])}")
            elif k == "queue":
                lines.append(f"queue {red_str(op[2])}")
            elif k == "put":
                lines.append(f"put {op[1]}")
            elif k == "exec":
                lines.append(f"exec {red_str(op[1])} {red_str(op[2])}")
            else:
                lines.append("nop")
        lines.append("final")
        return lines

    # -- implementation -------------------------------------------------------------------
    def impl(self, case):
        return run_rt(case) if case["kind"] == "rt" else run_hist(case)

    def evaluate(self, cases, corr, with_model=True):
        impl, model = super().evaluate(cases, corr, with_model)
        if any("INFRA-TIMEOUT" in o for o, _ in impl):
            raise C.Infra("a queue get() missed its 60 s deadline")
        return impl, model

    # -- oracle (from the statement of C15; does not use the model) ---------------------------
    def oracle(self, case, out):
        if any(l.startswith("HARNESS-EXC") for l in out):
            return "exception while driving the real code: " + out[-1]
        if "INFRA-TIMEOUT" in out:
            return None
        if case["kind"] == "rt":
            if len(out) != 2 or out[0] == "fail":
                return f"loads(dumps(x)) failed: {out}"
            _, d0, d1 = out[1].split(" ")
            if d0 != d1:
                return "the object that comes back does not behave like the original (call results differ)"
            return None
        ops = case["ops"]
        if len(out) != len(ops) + 2:
            return f"history aborted: {out[-1]}"
        qred = []            # reducers each queue was created with
        created = []         # expected look-ups of every live pickler
        for op, line in zip(ops, out[1:-1]):
            f = kv(line)
            if "g" in f and f["g"] != "same":
                return f"process-wide registry modified by {op[0]}: {f['g']}"
            k = op[0]
            if k == "set":
                if line != f"backend={op[1]}":
                    return f"set_loky_pickler({op[1]!r}) selected {line}"
            elif k in ("pickler", "dumps", "put"):
                red = op[1] if k != "put" else (qred[op[1]] if op[1] < len(qred) else None)
                if "t" not in f:
                    return f"{k}: {line}"
                want = dict(red or [])
                t, base = f["t"].split(","), f["base"].split(",")
                for ty, got, b in zip(PROBES, t, base):
                    exp = str(want[ty]) if ty in want else b
                    if got != exp:
                        return (f"{k} with reducers {red}: type {ty} is pickled with reducer {got}, expected {exp} "
                                f"({'the requested reducer' if ty in want else 'as without custom reducers'})")
                if k == "pickler":
                    created.append(list(t))
                else:
                    used = f["used"].split(",")
                    for ty, u in zip(UPROBES, used):
                        tv = t[PROBES.index(ty)]
                        exp = tv if tv != "-" and 100 <= int(tv) < 1000 else "n"
                        if u != exp:
                            return f"{k} with reducers {red}: instance of type {ty} was reduced by {u}, the table says {tv}"
            elif k == "reg":
                created[op[1]][PROBES.index(op[2])] = str(op[3])
            elif k == "queue":
                qred.append(op[2])
            elif k == "exec":
                job, res = op[1], op[2]
                if res is None:
                    res = job
                if line.split(" ")[3:] != [f"job={red_str(job)}", f"res={red_str(res)}"]:
                    return (f"executor(job_reducers={op[1]}, result_reducers={op[2]}): queues got {line.split(' ')[3:]}, "
                            f"expected job={red_str(job)} res={red_str(res)}")
                qred += [job, res]
        last = out[-1]
        f = kv(last)
        if f.get("g") != "same":
            return f"process-wide registries differ after the history: {f.get('g')}"
        for i, exp in enumerate(created):
            if f.get(f"p{i}") != ",".join(exp):
                return (f"pickler {i}: look-ups at the end {f.get(f'p{i}')} differ from those at its creation (+ its own "
                        f"register calls) {','.join(exp)}: affected by another pickler's reducers")
        return None

    # -- evidence --------------------------------------------------------------------------
    def nontrivial(self, case, out):
        if case["kind"] == "rt":
            return case["term"][0] in ("p", "b", "d")
        return any(op[0] in ("pickler", "dumps", "queue", "exec") and any(isinstance(x, list) and x for x in op[1:3])
                   for op in case["ops"])

    def classify(self, case, out):
        if case["kind"] == "rt":
            t = case["term"]
            ks = ["rt", "rt." + case["b"], "rt.head=" + t[0], "rt.via=" + case["via"]]
            if t[0] == "p":
                ks += [f"rt.kw={len(t[3])}", "rt.func=" + t[1][0]]
            return ks
        ks = ["hist", "hist." + case["b0"]] + ["op=" + op[0] for op in case["ops"]]
        ks += [f"extra.{n}" for n, e in case["g"].items() if e]
        return ks

    def shrink_candidates(self, case):
        if case["kind"] == "rt":
            t = case["term"]
            if t[0] == "p":
                yield dict(case, term=t[1])
                for i in range(len(t[2])):
                    yield dict(case, term=["p", t[1], t[2][:i] + t[2][i + 1:], t[3]])
                    yield dict(case, term=t[2][i])
                for i in range(len(t[3])):
                    yield dict(case, term=["p", t[1], t[2], t[3][:i] + t[3][i + 1:]])
                    yield dict(case, term=t[3][i][1])
            if case["via"] != "dumps":
                yield dict(case, via="dumps")
            return
        ops = case["ops"]
        for i in range(len(ops)):
            rest = ops[:i] + ops[i + 1:]
            if self._valid(rest):
                yield dict(case, ops=rest)
        for name in ("copyreg", "cloud", "loky"):
            if case["g"][name]:
                yield dict(case, g=dict(case["g"], **{name: case["g"][name][1:]}))
        for i, op in enumerate(ops):
            for j in (1, 2):
                if op[0] in ("pickler", "dumps", "queue", "exec") and j < len(op) and isinstance(op[j], list) and len(op[j]) > 1:
                    for d in range(len(op[j])):
                        new = list(op)
                        new[j] = op[j][:d] + op[j][d + 1:]
                        yield dict(case, ops=ops[:i] + [new] + ops[i + 1:])

    @staticmethod
    def _valid(ops):
        npick = nq = 0
        for op in ops:
            if op[0] == "pickler":
                npick += 1
            elif op[0] == "queue":
                nq += 1
            elif op[0] == "exec":
                nq += 2
            elif op[0] == "reg" and op[1] >= npick:
                return False
            elif op[0] == "put" and op[1] >= nq:
                return False
        return True


PART = Part()
