"""C15, part "reuse" — the reusable executor carries the reducers of the request it was returned for (E3, model M6).

`get_reusable_executor(job_reducers=…, result_reducers=…, initializer=…, initargs=…, env=…)` either returns the
previous executor or replaces it.  The statement of C15 — reducers change exactly the pickling of *that
executor's* tasks / results — means for the caller: whatever was requested before, the tasks submitted to the
executor returned for a request are pickled with that request's job reducers and their results with its result
reducers (the job reducers when none are given).  The interesting requests are those whose reducers are
*different objects of the same implementation*: two closures of one factory, two instances of one reducer
class, two `functools.partial` objects of one function, two bound methods of one class, two lambdas with
different defaults — same `__code__` / same type, different state, different behaviour.

Cases are histories of requests (reducer maps over three payload types, initializer + initargs, env, timeout,
number of workers), user shutdowns of the singleton, and plain `ProcessPoolExecutor`s with their own reducers in
between, run with real worker processes by `harness/realproc/c15_runner.py` in a fresh interpreter.
"""
import json
import os
import subprocess
import sys
from concurrent.futures import ThreadPoolExecutor

from .. import common as C
from ..realproc.c15_member import INIT_KINDS, KINDS, PROBES, beh_of, init_beh

PAR = int(os.environ.get("VERIF_E3_PAR", "8"))


def run_case(case, timeout=600):
    env = dict(os.environ)
    env["PYTHONPATH"] = C.ROOT + (os.pathsep + env["PYTHONPATH"] if env.get("PYTHONPATH") else "")
    env.pop("PYTHONWARNINGS", None)
    env.pop("LOKY_PICKLER", None)
    try:
        r = subprocess.run([sys.executable, "-W", "ignore", "-m", "harness.realproc.c15_runner"],
                           input=json.dumps(case), capture_output=True, text=True, timeout=timeout, cwd=C.ROOT, env=env)
    except subprocess.TimeoutExpired:
        raise C.Infra(f"C15 runner exceeded {timeout}s on {json.dumps(case)[:300]}")
    txt = r.stdout
    try:
        out = json.loads(txt[txt.index("{"):txt.rindex("}") + 1])
    except ValueError:
        raise C.Infra(f"C15 runner: unreadable output rc={r.returncode}: {txt[-300:]} {r.stderr[-600:]}")
    if "infra" in out or r.returncode == 3:
        raise C.Infra(f"C15 reuse scenario: {out.get('infra')} | {json.dumps(case)[:300]} | {r.stderr[-300:]}")
    if "exc" in out:
        return ["EXC " + out["exc"]]
    return [";".join(out["lines"]) or "-"]


class Part:
    id = "C15"
    name = "reuse"
    engine = "E3"
    lean_modules = ["LokyModel.Props.C15Pickle"]
    driver = "pickle_driver"
    budget = {"quick": 170, "thorough": 1500}
    n_cases = {"quick": 36, "thorough": 400}
    search_cases = {"quick": 10, "thorough": 60}
    rule = ("histories of 2-5 operations on the reusable singleton run with real workers in a fresh interpreter: "
            "get_reusable_executor(max_workers 1-2, timeout 10/20, job_reducers / result_reducers over 3 payload types "
            "(None, {}, 1-3 entries), initializer (None or closure / callable instance / partial) + initargs, env (None, {}, "
            "one variable)), user shutdown of the singleton, a plain ProcessPoolExecutor with its own reducers in between. "
            "Reducers are closures of one factory, instances of one class, partials of one function, bound methods of one "
            "class, lambdas with different defaults: a following request re-uses the same objects, or fresh objects of the "
            "same implementation with another state (different behaviour), or with the same state, or other kinds. After every "
            "request two tasks are submitted to the returned executor: which reducer pickled the arguments (parent), the "
            "result (worker), which initializer ran, the worker's environment. Non-trivial = a request whose reducers or "
            "initializer differ from the previous request's only in state; distinct by full input.")
    assumptions = [
        "functions, closures, functools.partial objects and instances of classes without __eq__ compare by identity under ==; "
        "reducers / initializers defining their own __eq__ are not generated",
        "the reusable executor is observed through two tasks per request; which worker runs them is not controlled",
        "reuse='auto' (the default) only; reuse=True is an explicit request to keep the old arguments",
    ]
    _tier = "quick"

    # ------------------------------------------------------------------ cases
    @staticmethod
    def q(job=None, res=None, init=None, initargs=(), env=None, w=1, timeout=10):
        return {"op": "q", "w": w, "timeout": timeout, "job": job, "res": res, "init": init, "initargs": list(initargs),
                "env": env}

    def corpus(self):
        q = self.q
        cs = []
        # one request after another whose reducer for the same type is a different object of the same implementation
        for i, kind in enumerate(KINDS):
            objs = {"1": [kind, 1], "2": [kind, 2], "3": [kind, 1]}
            cs.append({"objs": objs, "inits": {}, "ops": [
                q(job=[[30, 1]]), q(job=[[30, 2]]),            # same code, other state: must be honoured
                q(job=[[30, 2]], w=2),                          # identical request: resize only
                q(job=[[30, 3]]),                               # fresh object, behaviour of the first
            ]})
        # result reducers: own map vs default, both differing only in state; plain executor in between
        cs.append({"objs": {"1": ["closure", 1], "2": ["closure", 2], "3": ["instance", 3], "4": ["instance", 4]}, "inits": {},
                   "ops": [q(job=[[30, 1]], res=[[31, 3]]), q(job=[[30, 1]], res=[[31, 4]]),
                           {"op": "p", "job": [[30, 2], [31, 3]], "res": None},
                           q(job=[[30, 1]], res=None), q(job=[[30, 2]], res=None), q(job=[[30, 2]], res=[])]})
        # initializer / initargs / env differing only in state; user shutdown then the same request again
        cs.append({"objs": {"1": ["partial", 5]}, "inits": {"1": ["closure", 1], "2": ["closure", 2], "3": ["instance", 1],
                                                           "4": ["instance", 2], "5": ["partial", 1], "6": ["partial", 2]},
                   "ops": [q(init=1, initargs=[1]), q(init=2, initargs=[1]), q(init=2, initargs=[2]), {"op": "s"},
                           q(init=2, initargs=[2], env={"v": 1}), q(init=2, initargs=[2], env={"v": 2})]})
        cs.append({"objs": {"1": ["method", 1], "2": ["method", 2], "3": ["lambda", 1], "4": ["lambda", 2]},
                   "inits": {"3": ["instance", 1], "4": ["instance", 2], "5": ["partial", 1], "6": ["partial", 2]},
                   "ops": [q(job=[[30, 1], [32, 3]], init=3), q(job=[[30, 2], [32, 3]], init=3),
                           q(job=[[30, 2], [32, 4]], init=4), q(job=[[30, 2], [32, 4]], init=5, timeout=20),
                           q(job=[[30, 2], [32, 4]], init=6, timeout=20)]})
        return cs

    def gen(self, rng, i):
        objs, inits = {}, {}

        def new_red(kind, state):
            k = len(objs) + 1
            objs[str(k)] = [kind, state]
            return k

        def new_init(kind, state):
            k = len(inits) + 1
            inits[str(k)] = [kind, state]
            return k

        def fresh_map():
            r = rng.random()
            if r < 0.15:
                return None
            if r < 0.25:
                return []
            tys = sorted(rng.sample(PROBES, rng.choice([1, 1, 2, 3])))
            return [[t, new_red(rng.choice(KINDS), rng.randrange(10))] for t in tys]

        def vary_map(m):
            """the following request's map: same objects / same implementation with another state / with the same state"""
            if not m:
                return fresh_map()
            r = rng.random()
            if r < 0.2:
                return [list(e) for e in m]
            out = []
            j = rng.randrange(len(m))
            for idx, (t, k) in enumerate(m):
                kind, state = objs[str(k)]
                if idx == j or rng.random() < 0.3:
                    st = state if r > 0.85 else rng.choice([s for s in range(10) if s != state])
                    out.append([t, new_red(kind, st)])
                else:
                    out.append([t, k])
            return out

        def vary_init(k):
            if k is None:
                return None if rng.random() < 0.6 else new_init(rng.choice(INIT_KINDS), rng.randrange(10))
            r = rng.random()
            if r < 0.4:
                return k
            if r < 0.5:
                return None
            kind, state = inits[str(k)]
            return new_init(kind, rng.choice([s for s in range(10) if s != state]))

        ops = []
        prev = None
        for _ in range(rng.choice([2, 3, 3, 4, 5])):
            r = rng.random()
            if prev is not None and r < 0.1:
                ops.append({"op": "s"})
                continue
            if prev is not None and r < 0.2:
                ops.append({"op": "p", "job": vary_map(prev["job"]), "res": None if rng.random() < 0.5 else fresh_map()})
                continue
            if prev is None:
                cur = self.q(job=fresh_map(), res=None if rng.random() < 0.6 else fresh_map(),
                             init=None if rng.random() < 0.6 else new_init(rng.choice(INIT_KINDS), rng.randrange(10)),
                             initargs=[rng.randrange(5) for _ in range(rng.choice([0, 0, 1, 2]))],
                             env=rng.choice([None, None, {}, {"v": rng.randrange(5)}]), w=rng.choice([1, 1, 2]))
            else:
                cur = dict(prev)
                what = rng.choice(["job", "job", "job", "res", "res", "init", "initargs", "env", "w", "timeout", "nothing"])
                if what == "job":
                    cur["job"] = vary_map(prev["job"])
                elif what == "res":
                    cur["res"] = vary_map(prev["res"]) if prev["res"] else (fresh_map() if rng.random() < 0.7 else None)
                elif what == "init":
                    cur["init"] = vary_init(prev["init"])
                elif what == "initargs":
                    cur["initargs"] = [rng.randrange(5) for _ in range(rng.choice([0, 1, 2]))]
                elif what == "env":
                    cur["env"] = rng.choice([None, {}, {"v": rng.randrange(5)}])
                elif what == "w":
                    cur["w"] = 3 - prev["w"]
                elif what == "timeout":
                    cur["timeout"] = 30 - prev["timeout"]
                if cur["init"] is None:
                    cur["initargs"] = []
            ops.append(cur)
            prev = cur
        return {"objs": objs, "inits": inits, "ops": ops}

    # ------------------------------------------------------------------ model
    @staticmethod
    def _ident(case, k):
        kind, state = case["objs"][str(k)]
        return k * 100 + beh_of(kind, state)

    def _tab(self, case, m):
        if m is None:
            return "none"
        return ",".join(f"{t}:{self._ident(case, k)}" for t, k in sorted(m)) or "-"

    def model_lines(self, case):
        toks = []
        for op in case["ops"]:
            if op["op"] == "s":
                toks.append("s")
            elif op["op"] == "p":
                toks.append(f"p/{self._tab(case, op['job'])}/{self._tab(case, op['res'])}")
            else:
                if op["init"] is None:
                    init = "none"
                else:
                    kind, state = case["inits"][str(op["init"])]
                    init = str(op["init"] * 100 + init_beh(kind, state))
                env = "none" if op["env"] is None else (f"1:{op['env']['v']}" if "v" in op["env"] else "-")
                toks.append(f"q/{op['w']}/{op['timeout']}/{self._tab(case, op['job'])}/{self._tab(case, op['res'])}/{init}/"
                            f"{','.join(map(str, op['initargs'])) or '-'}/{env}")
        return ["reuse " + ",".join(map(str, PROBES)) + " " + (";".join(toks) or "-")]

    def run_model(self, cases, corr):
        drv = C.Driver(self.driver)
        try:
            drv.ensure()
        except C.Infra as e:
            corr.model_error = str(e)
            return None
        outs = drv.run([self.model_lines(c)[0] for c in cases]) if cases else []
        return [[o] for o in outs]

    # ------------------------------------------------------------------ oracle (from the statement of C15)
    @staticmethod
    def _want(case, m):
        """per payload type: the behaviour tag of the reducer requested for it, `n` = stock pickling"""
        d = {t: beh_of(*case["objs"][str(k)]) for t, k in (m or [])}
        return ",".join(str(d[t]) if t in d else "n" for t in PROBES)

    def oracle(self, case, out):
        if len(out) != 1 or out[0].startswith("EXC "):
            return f"the history did not run: {out}"
        got = [] if out[0] == "-" else out[0].split(";")
        if len(got) != len(case["ops"]):
            return f"harness: {out}"
        for i, (op, line) in enumerate(zip(case["ops"], got)):
            if op["op"] == "s":
                continue
            if line.startswith("inconsistent"):
                return f"operation {i} {op}: two tasks of one executor were pickled differently: {line}"
            f = self._fields(line)
            res = op["res"] if op["res"] is not None else op["job"]
            who = "the plain executor" if op["op"] == "p" else "the executor returned by get_reusable_executor"
            if f.get("job") != self._want(case, op["job"]):
                return (f"operation {i}: job_reducers={self._show(case, op['job'])} requested; the tasks submitted to {who} were "
                        f"pickled as {f.get('job')} per payload type, expected {self._want(case, op['job'])}"
                        f" (previous operations: {self._hist(case, i)})")
            if f.get("res") != self._want(case, res):
                return (f"operation {i}: result_reducers={self._show(case, op['res'])} (job_reducers={self._show(case, op['job'])}) "
                        f"requested; the results of {who} were pickled as {f.get('res')}, expected {self._want(case, res)}"
                        f" (previous operations: {self._hist(case, i)})")
            if op["op"] == "q":
                wi = "none" if op["init"] is None else str(init_beh(*case["inits"][str(op["init"])]))
                wa = ",".join(map(str, op["initargs"])) or "-"
                if op["init"] is None:
                    wa = "-"
                if f.get("init") != wi or f.get("args") != wa:
                    return (f"operation {i}: initializer {wi} with initargs {wa} requested; the workers of the returned executor "
                            f"ran initializer {f.get('init')} with {f.get('args')} (previous operations: {self._hist(case, i)})")
                we = "none" if not op["env"] or "v" not in op["env"] else f"1:{op['env']['v']}"
                ge = "none" if f.get("env") in ("none", "-") else f.get("env")
                if ge != we:
                    return f"operation {i}: env {op['env']} requested; the workers see {f.get('env')}"
        return None

    @staticmethod
    def _fields(line):
        """`k=v` fields of a line whose values may contain commas"""
        f, key = {}, None
        for tok in line.split(","):
            if "=" in tok:
                key, v = tok.split("=", 1)
                f[key] = v
            elif key is not None:
                f[key] += "," + tok
        return f

    @staticmethod
    def _show(case, m):
        if m is None:
            return None
        return {f"P{t - 30}": "{}#{}(state {})".format(case["objs"][str(k)][0], k, case["objs"][str(k)][1]) for t, k in m}

    def _hist(self, case, i):
        return [("shutdown" if o["op"] == "s" else {"op": o["op"], "job": self._show(case, o["job"]),
                                                     "res": self._show(case, o["res"])}) for o in case["ops"][:i]]

    # ------------------------------------------------------------------ evidence
    @staticmethod
    def _state_only_changes(case):
        """requests whose reducers / initializer differ from the previous request's only in state"""
        n, prev = 0, None
        for op in case["ops"]:
            if op["op"] != "q":
                continue
            if prev is not None:
                for name in ("job", "res"):
                    a, b = dict(map(tuple, prev[name] or [])), dict(map(tuple, op[name] or []))
                    for t in a:
                        if t in b and a[t] != b[t]:
                            ka, kb = case["objs"][str(a[t])], case["objs"][str(b[t])]
                            if ka[0] == kb[0] and ka[1] != kb[1]:
                                n += 1
                if prev["init"] is not None and op["init"] is not None and prev["init"] != op["init"]:
                    ka, kb = case["inits"][str(prev["init"])], case["inits"][str(op["init"])]
                    if ka[0] == kb[0] and ka[1] != kb[1]:
                        n += 1
            prev = op
        return n

    def nontrivial(self, case, out):
        return self._state_only_changes(case) > 0

    def classify(self, case, out):
        ks = [f"ops={len(case['ops'])}"] + ["op=" + o["op"] for o in case["ops"]]
        ks += sorted({"reducer=" + v[0] for v in case["objs"].values()})
        ks += sorted({"initializer=" + v[0] for v in case["inits"].values()})
        if self._state_only_changes(case):
            ks.append("state-only-change")
        if out and not out[0].startswith("EXC"):
            ks += ["answer=" + l.split(",")[0] for l in out[0].split(";") if l.startswith(("new", "reused"))]
        return ks

    def shrink_candidates(self, case):
        ops = case["ops"]
        for i in range(len(ops)):
            if len(ops) > 1:
                yield dict(case, ops=ops[:i] + ops[i + 1:])
        for i, op in enumerate(ops):
            if op["op"] == "q":
                for name, val in (("init", None), ("env", None), ("res", None), ("w", 1), ("timeout", 10)):
                    if op[name] != val:
                        new = dict(op, **{name: val})
                        if name == "init":
                            new["initargs"] = []
                        yield dict(case, ops=ops[:i] + [new] + ops[i + 1:])
                if op["job"] and len(op["job"]) > 1:
                    for j in range(len(op["job"])):
                        yield dict(case, ops=ops[:i] + [dict(op, job=op["job"][:j] + op["job"][j + 1:])] + ops[i + 1:])

    # ------------------------------------------------------------------ engine
    def impl(self, case):
        return run_case(case)

    def run_real_many(self, cases):
        with ThreadPoolExecutor(max_workers=max(1, PAR // 2)) as pool:
            futs = [pool.submit(self.impl, c) for c in cases]
            outs, infra = [], None
            for f in futs:
                try:
                    outs.append(f.result())
                except C.Infra as e:
                    infra = infra or e
                    outs.append(None)
        if infra is not None:
            raise infra
        return outs

    def evaluate(self, cases, corr, with_model=True):
        outs = self.run_real_many(cases)
        model = self.run_model(cases, corr) if with_model else None
        for i, case in enumerate(cases):
            out = outs[i]
            corr.evaluations += 1
            for k in self.classify(case, out):
                corr.count(k)
            if self.nontrivial(case, out):
                corr.nontrivial(case)
            bad = self.oracle(case, out)
            if bad:
                corr.failures.append({"input": case, "impl": out, "what": bad})
            if model is not None and model[i] != out:
                corr.disagreements.append({"input": case, "model": model[i], "impl": out})
        return outs, model

    def correspondence(self, ctx, corr):
        self._tier = ctx.tier
        corr.rule = self.rule
        cases = list(self.corpus())
        ncorp = len(cases)
        rng = C.rng_for(ctx.seed, self.id, self.name, "gen")
        cases += [self.gen(rng, i) for i in range(self.n_cases[ctx.tier])]
        outs, model = self.evaluate(cases, corr)
        corr.extra["corpus_cases"] = ncorp
        corr.extra["reuse_histories"] = len(cases)
        corr.extra["reuse_requests"] = sum(1 for c in cases for o in c["ops"] if o["op"] == "q")
        for j in sorted({0, len(cases) - 1}):
            corr.samples.append({"input": cases[j], "impl": outs[j], "model": None if model is None else model[j]})
        corr.failures = [self.shrink(f) for f in corr.failures[:2]] + corr.failures[2:]

    def shrink(self, f):
        cur = f
        for _ in range(6):
            for cand in list(self.shrink_candidates(cur["input"]))[:8]:
                try:
                    out = self.impl(cand)
                except C.Infra:
                    continue
                bad = self.oracle(cand, out)
                if bad:
                    cur = {"input": cand, "impl": out, "what": bad}
                    break
            else:
                break
        return cur

    def search(self, ctx, corr, broken):
        self._tier = ctx.tier
        cands = [d["input"] for d in corr.disagreements[:6]]
        rng = C.rng_for(ctx.seed, self.id, self.name, "search")
        more = [self.gen(rng, i) for i in range(self.search_cases[ctx.tier])]
        c2 = C.Corr()
        self.evaluate(cands + more, c2, with_model=False)
        corr.extra["search_cases"] = c2.evaluations
        if c2.failures:
            return self.shrink(c2.failures[0])
        return None

    def replay(self, ctx, data):
        res = []
        for f in data.get("failing", []):
            out = self.impl(f["input"])
            res.append({"input": f["input"], "impl": out, "what": self.oracle(f["input"], out)})
        return {"fails": any(r["what"] for r in res), "results": res}

    def replay_finding(self, ctx, finding):
        w = finding.get("witness")
        if w is None:
            return {"fails": False}
        out = self.impl(w)
        bad = self.oracle(w, out)
        return {"fails": bool(bad), "input": w, "impl": out, "what": bad}


PART = Part()
